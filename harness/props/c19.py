"""C19 — PSD and signal utilities conserve what they claim to conserve (DESIGN.md section 6/C19).

Tie: correspondence between the Lean models (lean/PyYetiVerif/Model/{Fixtime,FixtimeTnew,FixtimeDrops,Psd,PsdOct,
Resample}.lean, run through Drivers/C19.lean) and the code in /repo's working tree:

  exact (model at Rat, dyadic inputs)
    * np.searchsorted (both sides)                          vs ssLeft / ssRight
    * dsp._find_closest_times / _find_closest_previous_times vs closest / prevIdx
    * the numba variants of the two routines (source text only: numba is absent; the `else:` branch of
      `if not HAVE_NUMBA:` is extracted with `ast`, the decorators are dropped and the text is exec'd
      as plain Python — a transcription, flagged as such)   vs closestSeq / prevSeq
    * dsp.fixtime's cleaning bookkeeping: fixinfo.alldrops.{dropouts, outtimes, alldrops} (positions in the record
      as given, after the optional sort)                    vs fixtimeDrops (_del_drops/_del_outtimes/_get_alldrops)
    * dsp._mk_initial_tnew called directly, and fixtime's returned time vector end to end
                                                            vs mkInitialTnew on the MODEL's cleaned times (exact when
                                                               the alignment shift is dyadic, else 1e-9*dt: np.mean)
    * dsp.fixtime end to end: returned samples              vs y_clean[closest|prevIdx(told_clean, tnew)], told_clean
                                                               from the model's bookkeeping, not from fixinfo
    * len(dsp.resample(...)), len(tnew)                     vs resampleLen
    * rescale._get_fl_fu and rescale's input-edge block (SOURCE TEXT of the nested function / of the statement pair,
      extracted with `ast` and exec'd: `translate`)         vs getFlFu / inEdges at Rat on exactly linear dyadic scales
  numeric (model at Float with the same expression order, or at Rat; |impl - model| <= 1e-9*scale)
    * psd.area, psd.interp (log and linear), psd.rescale (freq= and n_oct= paths, linear / log / linear-within-tolerance
      / nearly-linear scales on both sides of the 1e-12 test, extendends on/off), the band edges of every such scale
      (bit-equal in the linear branch), psd.get_freq_oct (exact / approximate, three trims, anchors),
      dsp.resample FIR taps and output incl. constants and integer / float32 / list storage of the data.

  exact, added with the complete fixtime model (Model/FixtimeFull.lean, FixtimeSr.lean, FixtimeDespike.lean)
    * dsp.fixtime with EVERY option (sr numeric or 'auto', dropval, deldrops, delouttimes, delspikes = True | dict with
      method despike_diff / despike / simple, base, hold_previous_value, previous_value_tol, getall): returned times,
      returned samples (as positions in the sorted record), fixinfo.alldrops.{dropouts, outtimes, spikes, alldrops},
      fixinfo.sr_stats, fixinfo.tp, despike_info.niter, the two _check_dt_size warnings   vs fixtimeFull
    * dsp._sr_calcs (what sr='auto' chooses), dsp._del_loners                               vs srCalcs, delLoners
    * dsp.exclusive_sgfilter, dsp.despike, dsp.despike_diff called directly: s.pv, s.niter, s.x = x[~pv]
                                                                                             vs sgFilter, despike, despikeDiff
      (a decision within 1e-9 of its threshold is skipped, except in the stream of DESIGNED ties: flat integer background,
      window of 2^k + 1 points, integer threshold_value - every statistic of the code is exact there and `>` vs `>=` shows)
    * psd.psdmod's last step (row maxima of the returned map, bit-equal), dsp.resample's storage types (dtype of the mean,
      of the result and of the FIR taps for int16/int32/int64/uint8/bool/list/float32/float64 data)
  translator harness/translate/c19_consts.py (Python `ast`, no execution): every literal, default argument and comparison
    operator of the anchored routines the models depend on -> Generated/C19Consts.lean, with `decide` obligations in
    Props/C19Consts.lean (a changed constant / operator stops the Lean build).

The model-free oracle (`search`) restates the property on the public API only.
"""
import ast
import json
import math
import os
import warnings
from fractions import Fraction

import numpy as np

import textwrap

from runner import Infra, TieBroken

ID = "C19"
LEAN_MODULES = ["PyYetiVerif.Props.C19", "PyYetiVerif.Props.C19Fixtime", "PyYetiVerif.Props.C19Despike", "PyYetiVerif.Props.C19Oct",
                "PyYetiVerif.Props.C19Psd", "PyYetiVerif.Props.C19Resample", "PyYetiVerif.Props.C19Consts", "PyYetiVerif.Audit.C19"]
AUDIT_FILE = "PyYetiVerif/Audit/C19.lean"
THEOREMS = ["PyYetiVerif.C19." + n for n in (
    "searchsorted_left_spec searchsorted_right_spec previous_is_last_le previous_zero_if_none "
    "previous_left_sided_counterexample closest_is_nearest closest_is_earliest "
    "closest_wraps_when_all_equal uniform_unchanged uniform_unchanged_needs_tol_lt_gap "
    "resample_length resample_length_pipeline resample_tnew "
    "resample_tnew_old_counterexample upsample_taps cum_area_is_integral rescale_conserves "
    "rescale_conserves_extendends rescale_telescopes rescale_density area_segment "
    "area_segment_tolerance_band_inexact area_additive interp_at_breakpoints "
    "interp_log_at_breakpoints "
    "interpolant_is_piecewise_power_law area_is_integral_of_interpolant upsample_keeps_samples_full "
    "constants_reproduced resample_kept_sample_times tnew_round_half_even tnew_uniform "
    "edges_partition_linear edges_partition_linear_tolerance edges_partition_log edges_dispatch "
    "edges_extendends_rule freq_oct_bands freq_oct_ratio alldrops_indices_are_full_record_positions "
    # Props/C19Fixtime.lean
    "auto_sr_def auto_sr_uniform_8hz_gives_10 outtimes_removed_exactly outtimes_exactly_three_sigma_stays dropouts_marked "
    "mk_initial_tnew_total mk_initial_tnew_needs_two_samples alignment_shift_bound "
    "alignment_shift_mean_branch_can_exceed_half_step base_shift_hits_base del_loners_only_adds del_loners_examples "
    "fixtime_idempotent uniform_has_no_outlier_times fixtime_idempotent_inhabited "
    # Props/C19Despike.lean
    "despike_decision_rule despike_threshold_is_strict despike_removes_only_flagged despike_fixed_point "
    "despike_diff_fixed_point despike_idempotent_partial "
    # Props/C19Oct.lean
    "freq_oct_trim_rules freq_oct_count freq_oct_untrimmed_scale freq_oct_exact_vs_preferred "
    # Props/C19Psd.lean
    "rescale_conserves_area rescale_constant_psd_unchanged interp_log_is_loglog_line psdmod_ge_psd_average "
    # Props/C19Resample.lean
    "resample_gcd_reduction resample_decimation_every_qth resample_dc_gain resample_storage_types "
    "resample_integer_buffer_counterexample "
    # Props/C19Consts.lean (obligations on Generated/C19Consts.lean)
    "constants_literals_match_source constants_defaults_match_source constants_operators_match_source "
    "constants_resample_buffers_are_float64 constants_used_by_models "
).split()]
TRUSTED = [
    "correspondence harness harness/props/c19.py (exact comparison on dyadic times; numeric 1e-9*scale elsewhere)",
    "np.searchsorted on a sorted array = number of leading elements < v (left) / <= v (right): re-measured every run",
    "np.interp, scipy interp1d(kind='linear'), scipy.signal.lfilter (FIR), np.cumsum, np.mean, np.std, np.argsort, np.argmax, "
    "np.arange, np.nonzero, Python round(): modelled by their documented formulas, re-measured every run",
    "scipy.signal.windows.kaiser: an input of the resample model (no Bessel function in Lean); only w[M/2] = 1 is used by a "
    "theorem (hypothesis of upsample_keeps_samples_full), re-measured through the numeric resample stream",
    "numba variants of _find_closest_times/_find_closest_previous_times: source text exec'd as plain Python "
    "(numba not installed), assumed to have Python loop semantics under numba",
    "rescale._get_fl_fu and rescale's input-edge block: the source text of the nested function / statement pair exec'd as "
    "plain Python (they cannot be called from outside rescale); rescale as a whole is compared numerically as well",
    "which samples are drop-outs (nan / inf / within 1 % of dropval) is an input of the bookkeeping model, computed by the harness",
    "IEEE rounding of the log/exp/sqrt/sin/pow/log2 kernels; float results are compared numerically, never proved",
    "translator harness/translate/c19_consts.py (Python ast; structural patterns with literal / operator capture)",
    "pandas value_counts(): most frequent value first, equally frequent values in order of first appearance - modelled "
    "(modeFirst), re-measured every run through the sr-calcs stream",
    "the despiker's flags enter the fixtime model from the Lean despike models (Model/FixtimeDespike.lean), which decide "
    "`delta > fmax(sigma*std, min_limit)` on squares (exact over the rationals; despike_decision_rule); the code's float "
    "statistics agree except within rounding of a tie",
    "scipy.signal.welch / dsp.waterfall inside psdmod: library kernels, the map they produce is an input of the model",
]
RULE = (
    "a case is one call of a routine compared with the model: (told, tnew) pairs on dyadic grids with ties, "
    "duplicates, gaps and out-of-range new times; fixtime inputs with jitter/gaps/shifts/drop-outs (nan, inf, dropval)/stray "
    "time stamps beyond 3 sigma/unsorted samples, alone and COMBINED in one record in random order x hold_previous_value x "
    "previous_value_tol x deldrops x delouttimes; sorted dyadic time vectors for _mk_initial_tnew (aligned, too many turning "
    "points, length mismatch, half-step span); (n, p, q, pts, axis, storage dtype) for resample; specifications with 2-7 break "
    "points and slopes including exactly -1, the 1e-8 tolerance band and the former 1e-5 band; (P, F, freq|n_oct, extendends) "
    "for rescale over linear/log/tolerance-linear/nearly-linear scales (one step off by 1e-13 ... 1e-3 relative); centre "
    "scales for the band edges; (n, frange, exact, trim, anchor) for get_freq_oct; fixtime records x every option "
    "(sr numeric dyadic / not dyadic / 'auto', base inside / outside / far away, dropval default / given / 0 / nan with samples "
    "0.5 % and 2 % off, delspikes False / True / dict(method, n, sigma, maxiter, threshold_value | threshold_sigma, "
    "exclude_point) on flat-with-spikes and noisy data); time-step vectors for _sr_calcs (dyadic, decimal, slow rates, "
    "equal times); flag vectors x window for _del_loners; (x, n, sigma, maxiter, thresholds, exclude_point) for the "
    "despikers incl. designed exact ties; a record with a time exactly 3 sigma from the mean. non-trivial = the case reaches a "
    "non-default branch (a tie, an out-of-range time, a clipped end band, the s=-1 branch, p>1 and q>1, a shifted or "
    "unaligned time base, ...); distinct by the canonical input"
)
ASSUMPTIONS = [
    "float arithmetic on the generated dyadic times is exact (differences and comparisons of multiples of 2^-8 below 2^12)",
    "psd inputs are positive, frequencies strictly increasing (the documented domain of area/interp/rescale); a scale that is "
    "not linear is read as logarithmic and must be positive",
    "fixtime is modelled for negmethod='sort' with distinct times and sr > 0 (sr=None prompts the user: not modelled); records "
    "whose time lies within 1e-8 (relative, squared) of the 3-sigma outlier threshold are skipped and counted unless the float "
    "statistics are exact (the designed tie record); with a sample rate that is not a dyadic number the time base is compared "
    "at 1e-9*dt and a case is skipped when a rounding (L, base), a turning-point test or a nearest/previous-sample decision lies "
    "within 1e-9 of a tie; sigma, threshold_sigma >= 0 for the despikers; despiking with no positive threshold on windows that "
    "are not 2^k + 1 points long is skipped on disagreement (flat stretches are decided by rounding noise, exactly 0 > 0); "
    "_simple_filter on exactly flat survivors is outside the model (the code's decision is made by the rounding of 1/n); "
    "despike(exclude_point='last') does not terminate on some records (a spike in the first sample): guarded by a 2-3 s limit, "
    "counted, and the model's fuel runs out on the same inputs",
    "get_freq_oct inputs whose trimming decision lies within 1e-9 of a band centre/edge are skipped and counted",
]
PARTIAL = (
    "partial (accuracy): Lanczos interpolation accuracy vs pts and anti-aliasing are measured by the oracle, not proved; "
    "resample: gcd reduction, length, decimation (every q'-th filtered sample), retained samples, constants (DC gain 1) and the "
    "sum of the taps that meet original samples are proved - the sums of the other polyphase branches are only approximately 1 "
    "(measured); the Kaiser window is an input (hypothesis: centre value 1); storage types are modelled (dtype flow, "
    "resample_storage_types) and tied by the dtype stream, single-precision rounding is measured only; float round-off "
    "everywhere is measured, never proved. fixtime: every option is inside the executable model fixtimeFull and tied exactly "
    "end to end; PROVED about its parts: auto_sr_def, outtimes_removed_exactly (strict 3-sigma), dropouts_marked, "
    "mk_initial_tnew_total, alignment_shift_bound (length-mismatch branch; in the mean branch the shift is NOT bounded by half a "
    "step: proved counterexample 9/13), base_shift_hits_base, del_loners_only_adds, fixtime_idempotent + "
    "uniform_has_no_outlier_times, tnew_uniform, nearest/previous rules - NOT proved: a single end-to-end theorem about the "
    "composed routine (the composition is tied by correspondence), the exact fill rule of _del_loners (tied; only 'never clears "
    "a flag' is proved), value_counts' first-seen tie order (modelled, re-measured), termination of the despike sweeps (the models "
    "carry fuel; despike(exclude_point='last') really does not terminate on some records), full idempotence of the despikers (false: "
    "min_limit is recomputed; despike_idempotent_partial states what holds); sr=None (interactive) is outside the model; `getall` / "
    "ndarray-vs-tuple packaging is compared, not modelled. rescale: conservation is proved for any contiguous input edges "
    "(rescale_conserves_area: uniform, log-spaced or arbitrary grids through the exactly-linear and the logarithmic edge rule) "
    "and a constant PSD is proved unchanged inside the input range; with a scale that is linear only within the 1e-12 tolerance "
    "the bands overlap/gap by < 1e-12|Df| (edges_partition_linear_tolerance) and conservation is numeric; with extendends=True "
    "the sum form is proved only when no band sticks out (otherwise: rescale_conserves_extendends, per band); the log branch's "
    "sqrt is tied numerically. get_freq_oct: trimming rules, band relations, band numbering and count (= number of untrimmed "
    "bands passing the inclusive test) are proved; a closed form of the count in floor/ceil of the logarithms is not; "
    "log2/log10/pow are numeric kernels (near ties skipped). psd2time's mean-square conservation (Parseval) and "
    "proc_psd_spec's NaN rule are oracle checks only; psdmod: only its last step (row maximum) is modelled, Welch/waterfall are "
    "library kernels; area's remaining |s+1| < 1e-8 branch is within |s+1|*ln(f2/f1) of the integral, not equal "
    "(area_segment_tolerance_band_inexact), so area_is_integral_of_interpolant carries the slope hypothesis"
)
MANIFEST = {
    "level_text": "Proof (Lean 4, kernel-checked, standard axioms only) about executable models of the searchsorted-"
    "based nearest/previous-sample rules of fixtime (returned index minimises |told[i]-t| with ties to the earlier "
    "time; last index with told[i] <= t, 0 if none; strictly increasing data is mapped to itself for any tolerance "
    "shift below the smallest gap), of fixtime's cleaning bookkeeping (outlier times found in the drop-out-filtered vector "
    "are full-record positions and the kept set composes: alldrops_indices_are_full_record_positions) and time base "
    "(_mk_initial_tnew is an exact arithmetic progression of round(span*sr)+1 points ending within half a step of the "
    "last old time: tnew_uniform), of resample's whole pipeline (length = ceil(n*p/q); when q <= p and the window centre "
    "is 1 output sample i*p' IS input sample i*q': upsample_keeps_samples_full; constants are reproduced for every "
    "window: constants_reproduced; sample times t0 + j*dt*q/p), of rescale's cumulative-area bookkeeping over any ordered "
    "field (np.interp of the cumulative sum is the integral of the piecewise-constant PSD; every band's mean-square is "
    "the overlap integral; sums telescope; extendends rescales by covered width) and of its band edges (linear: shared "
    "edges, centre = middle; within the 1e-12 tolerance: gap below 1e-12*|Df|; logarithmic: shared edges = geometric "
    "means, end centres geometric means of their edges; extendends clips at the band EDGE), of area (Mathlib "
    "integral_rpow per segment; area(spec) = interval integral of the whole log-log interpolant psd.interp over [f0, fn]: "
    "area_is_integral_of_interpolant; additivity; tolerance band bounded), of log-log interpolation (piecewise power law; "
    "exact at break points; straight line in log-log: interp_log_is_loglog_line) and of get_freq_oct (FU/FL = 2^(1/n) or "
    "10^(3/(10n)), F = sqrt(FL*FU), contiguous; the returned run holds exactly the bands passing the inclusive trimming test: "
    "freq_oct_trim_rules, freq_oct_count; exact vs preferred scale: freq_oct_exact_vs_preferred). Added with the complete "
    "fixtime model: what sr='auto' chooses (most frequent rounded rate, resolution 5 or tenths, else nearest multiple to the "
    "average: auto_sr_def), who survives the cleaning (outtimes_removed_exactly: strict 3-sigma test; dropouts_marked), "
    "_mk_initial_tnew never raises on >= 2 sorted samples (mk_initial_tnew_total), the alignment shift is within half a step in "
    "the length-mismatch branch and provably not in the mean branch, `base` moves the grid by <= half a step onto base + k/sr, "
    "_del_loners never clears a flag, fixing a fixed record changes nothing (fixtime_idempotent, uniform_has_no_outlier_times); "
    "the despikers' decision is `delta > fmax(sigma*std, min_limit)` strictly (despike_decision_rule over the reals), a signal "
    "with no such point is returned unchanged (despike_fixed_point, despike_idempotent_partial); rescale_conserves_area, "
    "rescale_constant_psd_unchanged; psdmod's row maximum bounds every slice and their average; resample: common factors of p, q "
    "drop out, output sample j is filtered sample j*q', DC gain 1, every buffer is float64 (resample_storage_types); the "
    "literals / defaults / comparison operators of the source are the models' (Generated/C19Consts.lean + decide obligations). "
    "Models are tied to /repo by exact correspondence on dyadic inputs (index rules, bookkeeping, time base, lengths, "
    "linear band edges, fixtime end to end) and numeric correspondence (1e-9) for area/interp/rescale/edges/"
    "get_freq_oct/resample; fixtime with every option, _sr_calcs, _del_loners and the despikers exactly (rational models, "
    "designed ties included). Partial: interpolation accuracy of the Lanczos filter, float round-off, the composition of "
    "fixtime's proved parts, termination of the despike sweeps and psd2time's Parseval identity are measured / tied, not proved.",
    "level_note": "Trusted: Lean kernel; propext, Classical.choice, Quot.sound; the Python harness; numpy/scipy "
    "kernels as listed in trusted_base; numba variants and rescale's nested edge code are source text only. Tied or "
    "measured only (not proved): float round-off everywhere, storage dtypes, the Kaiser window values, the 3-sigma "
    "statistics in floating point, value_counts' tie order, the fill rule of _del_loners, the despike sweeps beyond their first "
    "pass (exact streams only), get_freq_oct's log kernels, psd2time, Welch/waterfall inside psdmod. Observation (not a property "
    "violation): despike(exclude_point='last') does not terminate when the first sample is a spike; sr='auto' works to a "
    "resolution set by the slowest rate present (uniform 8 Hz data -> 10 Hz; auto_sr_uniform_8hz_gives_10).",
    "technique": "Lean 4 proof (list induction for index rules, cumulative area, convolution and bookkeeping; Mathlib "
    "interval integrals for area; rpow/logb for octave bands; real square roots for the despike rule; closed-form sums for "
    "the 3-sigma bound of a uniform grid) + exact/numeric differential correspondence with pyyeti.dsp / pyyeti.psd + ast "
    "extraction of nested source text + ast translator of constants / operators with decide obligations",
}

# ---------------------------------------------------------------------------------------
# transport helpers

def _q(x):
    """exact rational text of a float / Fraction / int"""
    if isinstance(x, Fraction):
        n, d = x.numerator, x.denominator
    elif isinstance(x, (int, np.integer)):
        return str(int(x))
    else:
        n, d = float(x).as_integer_ratio()
    return str(n) if d == 1 else "%d/%d" % (n, d)


def _qs(v):
    return " ".join(_q(x) for x in v)


def _bits(v):
    a = np.ascontiguousarray(np.asarray(v, dtype=np.float64)).reshape(-1)
    return " ".join(str(int(b)) for b in a.view(np.uint64))


def _unbits(s):
    s = s.strip()
    if not s:
        return np.zeros(0)
    return np.array([int(t) for t in s.split()], dtype=np.uint64).view(np.float64)


def _unq(s):
    return [Fraction(t) for t in s.split()]


def _close(a, b, scale, tol=1e-9):
    a = np.asarray(a, dtype=float)
    b = np.asarray(b, dtype=float)
    if a.shape != b.shape:
        return False
    if a.size == 0:
        return True
    if not (np.isfinite(a).all() and np.isfinite(b).all()):
        return bool(np.array_equal(a, b, equal_nan=True))
    return bool(np.all(np.abs(a - b) <= tol * max(float(scale), 1e-300)))


def _quiet():
    warnings.simplefilter("ignore")


# ---------------------------------------------------------------------------------------
# numba variants: source text -> plain Python

def _numba_source(repo):
    src = open(os.path.join(repo, "pyyeti", "dsp.py")).read()
    tree = ast.parse(src)
    for node in tree.body:
        if isinstance(node, ast.If) and isinstance(node.test, ast.UnaryOp) and isinstance(node.test.op, ast.Not) \
                and isinstance(node.test.operand, ast.Name) and node.test.operand.id == "HAVE_NUMBA":
            fns = {}
            for f in node.orelse:
                if isinstance(f, ast.FunctionDef) and f.name in ("_find_closest_times", "_find_closest_previous_times"):
                    f.decorator_list = []
                    mod = ast.Module(body=[f], type_ignores=[])
                    ast.fix_missing_locations(mod)
                    ns = {"np": np}
                    exec(compile(mod, "<dsp.py numba branch: %s>" % f.name, "exec"), ns)
                    fns[f.name] = ns[f.name]
            if len(fns) == 2:
                return fns
    raise Infra("dsp.py: cannot find the numba variants of the closest-time routines "
                "(`if not HAVE_NUMBA: ... else:` at module level)")


# ---------------------------------------------------------------------------------------
# rescale's band-edge code: source text -> plain Python (never by calling rescale)

_EDGE_SRC = None  # (get_fl_fu, in_edges) once `translate` has run


def _assigned(stmts):
    out = set()
    for st in stmts:
        if isinstance(st, ast.Assign):
            for t in st.targets:
                for n in ([t] if isinstance(t, ast.Name) else list(getattr(t, "elts", []))):
                    if isinstance(n, ast.Name):
                        out.add(n.id)
    return out


def _rescale_edge_source(repo):
    """the nested `_get_fl_fu(fcenter)` of psd.rescale and the statement pair
    `Df = np.diff(F)` / `if <exact test>: FLin, FUin = ... else: FLin, FUin = _get_fl_fu(F)`, exec'd as
    plain Python from the source text"""
    src = open(os.path.join(repo, "pyyeti", "psd.py")).read()
    tree = ast.parse(src)
    resc = next((n for n in tree.body if isinstance(n, ast.FunctionDef) and n.name == "rescale"), None)
    if resc is None:
        raise TieBroken("psd.py: function `rescale` not found")
    gf = next((n for n in resc.body if isinstance(n, ast.FunctionDef) and n.name == "_get_fl_fu"), None)
    if gf is None or len(gf.args.args) != 1:
        raise TieBroken("psd.rescale: nested `_get_fl_fu(fcenter)` not found")
    blk = None
    for a, b in zip(resc.body, resc.body[1:]):
        if (isinstance(a, ast.Assign) and _assigned([a]) == {"Df"} and isinstance(b, ast.If)
                and {"FLin", "FUin"} <= _assigned(b.body) and {"FLin", "FUin"} <= _assigned(b.orelse)):
            blk = (a, b)
    if blk is None:
        raise TieBroken("psd.rescale: the `Df = np.diff(F)` / `if ...: FLin, FUin = ... else: ...` block not found")
    ns = {"np": np}
    mod = ast.Module(body=[gf], type_ignores=[])
    ast.fix_missing_locations(mod)
    exec(compile(mod, "<psd.py rescale._get_fl_fu>", "exec"), ns)
    text = "def _in_edges(F):\n" + textwrap.indent(ast.unparse(blk[0]) + "\n" + ast.unparse(blk[1]), "    ") \
           + "\n    return FLin, FUin\n"
    exec(compile(text, "<psd.py rescale input-edge block>", "exec"), ns)
    return ns["_get_fl_fu"], ns["_in_edges"]


def translate(ctx):
    global _EDGE_SRC
    import sys

    _EDGE_SRC = None
    _EDGE_SRC = _rescale_edge_source(ctx.repo)
    ctx.extra["rescale_edge_code"] = "source text of rescale._get_fl_fu and of the input-edge block, exec'd as plain Python"
    # constants, defaults and comparison operators of dsp.py / psd.py -> Generated/C19Consts.lean
    tdir = os.path.join(ctx.verif, "harness", "translate")
    if tdir not in sys.path:
        sys.path.insert(0, tdir)
    import c19_consts as tr

    try:
        names, consts = tr.run(ctx.repo, ctx.lean)
    except tr.Unparsable as e:
        raise TieBroken("the constants of dsp.py / psd.py no longer fit the translator's grammar: %s" % e)
    except (OSError, SyntaxError) as e:
        raise TieBroken("cannot read dsp.py / psd.py: %s" % e)
    ctx.extra["generated_constants"] = consts
    return ["psd.rescale._get_fl_fu (source text)", "psd.rescale input-edge block (source text)"] + names


# ---------------------------------------------------------------------------------------
# generators

GRID = 256  # times are multiples of 1/GRID


def _gen_told(rng, n=None, strict=None):
    n = n if n is not None else rng.randint(1, 14)
    strict = rng.random() < 0.6 if strict is None else strict
    t = rng.randint(-2000, 2000)
    out = []
    for _ in range(n):
        out.append(Fraction(t, GRID))
        step = rng.choice([0, 0, 1, 2, 4, 8, 16, 32, 64, 256, 1000]) if not strict else rng.choice([1, 2, 4, 8, 16, 32, 64, 256, 1000])
        t += step
    return out


def _gen_tnew(rng, told, sorted_=True):
    n = rng.randint(1, 16)
    lo, hi = told[0], told[-1]
    cands = []
    for _ in range(n):
        k = rng.random()
        if k < 0.25:
            cands.append(rng.choice(told))
        elif k < 0.5 and len(told) > 1:
            i = rng.randrange(len(told) - 1)
            cands.append((told[i] + told[i + 1]) / 2)  # an exact tie
        elif k < 0.62:
            cands.append(lo - Fraction(rng.randint(0, 300), GRID))
        elif k < 0.74:
            cands.append(hi + Fraction(rng.randint(0, 300), GRID))
        else:
            cands.append(lo + Fraction(rng.randint(0, max(1, int((hi - lo) * GRID * 2))), GRID * 2))
    if sorted_:
        cands.sort()
    return cands


def _f(v):
    return np.array([float(x) for x in v], dtype=float)


def _gen_fixtime(rng, kind=None):
    """one fixtime input: dict(t, y, sr, hold, tol, deldrops, delouttimes, kind)"""
    kind = kind or rng.choice(["uniform", "jitter", "gaps", "shifts", "dropouts", "unsorted", "dups", "mixed", "ties",
                               "stray", "combined", "combined"])
    if kind in ("stray", "combined"):
        return _gen_fixtime_combined(rng, kind)
    sr = 2 ** rng.choice([0, 1, 2, 3, 4])
    u = GRID // sr  # one step in grid units (>= 16)
    n = rng.randint(6, 60)
    t0 = rng.randint(-400, 400) * rng.choice([1, u])
    ts = [t0 + k * u for k in range(n)]
    y = [float(rng.randint(-50, 50)) + rng.choice([0.0, 0.5, 0.25]) for _ in range(n)]
    mixed = kind == "mixed"
    if kind == "jitter" or mixed:
        ts = [v + rng.randint(-u // 8, u // 8) for v in ts]
    if kind in ("gaps", "ties") or mixed:
        for _ in range(rng.randint(1, 3)):
            if len(ts) > 6:
                i = rng.randrange(1, len(ts) - 2)
                m = rng.randint(1, 4) if kind != "ties" else rng.choice([1, 3])
                del ts[i:i + m]
                del y[i:i + m]
    if kind == "shifts" or mixed:
        for _ in range(rng.randint(1, 2)):
            i = rng.randrange(2, len(ts))
            s = rng.choice([u // 4, u // 2, 3 * u // 8, u, -(u // 4), 5 * u // 16])
            ts = ts[:i] + [v + s for v in ts[i:]]
    if kind == "dups":
        i = rng.randrange(1, len(ts) - 1)
        ts[i] = ts[i - 1]
    yv = np.array(y)
    if kind == "dropouts" or mixed:
        for _ in range(rng.randint(1, 4)):
            yv[rng.randrange(len(ts))] = rng.choice([np.nan, np.inf, -np.inf])
    tv = np.array(ts, dtype=float) / GRID
    if kind == "unsorted" or (mixed and rng.random() < 0.4):
        # unique times are needed for a determinate sort
        if len(set(ts)) == len(ts):
            for _ in range(rng.randint(1, 3)):
                i = rng.randrange(len(ts) - 1)
                tv[[i, i + 1]] = tv[[i + 1, i]]
                yv[[i, i + 1]] = yv[[i + 1, i]]
    hold = rng.random() < 0.5
    tol = rng.choice([0.0, 0.0, 1.0 / 1024, 0.125, 0.5, 1.0]) if hold else 1e-3
    return {"t": tv.tolist(), "y": ["%r" % v for v in yv.tolist()], "sr": sr, "hold": hold, "tol": tol,
            "deldrops": rng.random() < 0.85, "delouttimes": rng.random() < 0.5, "kind": kind}


def _gen_fixtime_combined(rng, kind):
    """records that COMBINE defects: drop-outs of every flavour (nan, inf, dropval), a stray time stamp more than
    3 sigma from the mean, gaps, jitter and samples out of order - applied in a random order; distinct data values"""
    sr = 2 ** rng.choice([0, 1, 2, 3, 4])
    u = GRID // sr
    n = rng.randint(24, 70)
    t0 = rng.randint(-400, 400) * rng.choice([1, u])
    ts = [t0 + k * u for k in range(n)]
    y = [1000.0 + k * 0.25 for k in range(n)]
    defects = ["stray"] if kind == "stray" else ["stray", "drops"] + rng.sample(["jitter", "gaps", "unsorted", "drops2", "stray2"], rng.randint(0, 3))
    if kind == "stray" and rng.random() < 0.5:
        defects.append("drops")
    rng.shuffle(defects)
    for dfc in defects:
        m = len(ts)
        span = max(ts) - min(ts)
        if dfc in ("stray", "stray2"):
            far = (3 + rng.randint(0, 3)) * span + rng.randint(1, 5) * u
            i = rng.choice([m - 1, m - 1, 0, rng.randrange(m)])
            ts[i] = (max(ts) + far) if rng.random() < 0.75 else (min(ts) - far)
        elif dfc in ("drops", "drops2"):
            for _ in range(rng.randint(1, 4)):
                y[rng.randrange(m)] = rng.choice([float("nan"), float("inf"), float("-inf"), DROPVAL, DROPVAL])
        elif dfc == "jitter":
            ts = [v + rng.randint(-u // 8, u // 8) for v in ts]
        elif dfc == "gaps":
            i = rng.randrange(2, m - 3)
            k = rng.randint(1, 4)
            del ts[i:i + k]
            del y[i:i + k]
        elif dfc == "unsorted" and len(set(ts)) == len(ts):
            i = rng.randrange(m - 1)
            ts[i], ts[i + 1] = ts[i + 1], ts[i]
            y[i], y[i + 1] = y[i + 1], y[i]
    if len(set(ts)) != len(ts):  # a determinate sort needs distinct times
        ts = sorted(set(ts))
        y = y[:len(ts)]
    hold = rng.random() < 0.4
    tol = rng.choice([0.0, 1.0 / 1024, 0.125]) if hold else 1e-3
    return {"t": [v / GRID for v in ts], "y": ["%r" % v for v in y], "sr": sr, "hold": hold, "tol": tol,
            "deldrops": rng.random() < 0.9, "delouttimes": rng.random() < 0.8, "kind": kind}


def _yarr(c):
    return np.array([float(v) for v in c["y"]])


DROPVAL = -1.40130e-45  # fixtime's default `dropval`


def _sorted_record(c):
    """(t, y, sortvec) as fixtime sees the record after _chk_negsteps (sorted only if a step is negative)"""
    t = np.array(c["t"], dtype=float)
    y = _yarr(c)
    if (np.diff(t) < 0).any():
        j = np.argsort(t)
        return t[j], y[j], j
    return t, y, None


def _drop_flags(y):
    """which samples are drop-outs: nan, inf, or within 1 % of `dropval`"""
    bad = ~np.isfinite(y)
    ok = ~bad
    bad[ok] = np.abs(y[ok] - DROPVAL) < abs(DROPVAL) / 100
    return bad


def _clean_ref(c):
    """brute-force reference for fixtime's documented steps 1-2 (independent of pyyeti): remove the drop-outs (if
    `deldrops`), then the times more than 3 standard deviations from the mean of what is left (if `delouttimes`).
    -> (t_valid, y_valid, {dropouts, outtimes, alldrops} as positions in the record as given, near-tie?)"""
    t, y, sv = _sorted_record(c)
    n = len(t)
    pos = np.arange(n) if sv is None else np.asarray(sv)
    bad = _drop_flags(y) if c["deldrops"] else np.zeros(n, bool)
    kept = np.nonzero(~bad)[0]
    tk = [Fraction(float(x)) for x in t[kept]]
    out = np.zeros(n, bool)
    tie = False
    if len(tk) >= 2:
        mn = sum(tk) / len(tk)
        var9 = 9 * sum((x - mn) ** 2 for x in tk) / (len(tk) - 1)
        for i, x in zip(kept, tk):
            d2 = (x - mn) ** 2
            out[i] = d2 > var9
            if var9 > 0 and abs(d2 - var9) <= Fraction(1, 10 ** 8) * var9:
                tie = True
    final = ~bad & ~(out if c["delouttimes"] else np.zeros(n, bool))
    drops = {"dropouts": sorted(int(i) for i in pos[bad]) if c["deldrops"] else None,
             "outtimes": sorted(int(i) for i in pos[out]),
             "alldrops": sorted(int(i) for i in pos[~final])}
    return t[final], y[final], drops, tie


def _info_drops(info):
    """fixinfo.alldrops as plain lists (None when fixtime returned early: only drop-outs)"""
    ad = info.alldrops
    if ad is None or isinstance(ad, tuple):
        return None

    def lst(v):
        return None if v is None else sorted(int(i) for i in np.asarray(v).ravel())

    return {"dropouts": lst(ad.dropouts), "outtimes": lst(ad.outtimes), "alldrops": lst(ad.alldrops)}


def _run_fixtime(c):
    """-> (tnew, ynew, fixinfo.alldrops as lists | None) or ('error', kind)"""
    from pyyeti import dsp

    t = np.array(c["t"], dtype=float)
    y = _yarr(c)
    try:
        with warnings.catch_warnings():
            _quiet()
            (tn, yn), info = dsp.fixtime(
                (t.copy(), y.copy()), c["sr"], hold_previous_value=c["hold"], previous_value_tol=c["tol"],
                deldrops=c["deldrops"], delouttimes=c["delouttimes"], getall=True, verbose=False)
    except Exception as e:  # noqa: BLE001
        return ("error", type(e).__name__)
    return np.asarray(tn), np.asarray(yn), _info_drops(info)


def _gen_spec(rng, nprng):
    """a PSD specification with 2..7 break points; returns (rows, tags)"""
    n = rng.randint(2, 7)
    f = [float(rng.choice([1, 2, 5, 10, 20, 0.5])) * rng.choice([1.0, 1.0, 1.37])]
    p = [float(rng.choice([0.001, 0.01, 0.5, 1.0, 4.0]))]
    tags = set()
    for _ in range(n - 1):
        kind = rng.random()
        if kind < 0.3:
            r = float(rng.choice([2, 4, 8, 1.5, 16]))
        else:
            r = float(1.0 + nprng.uniform(0.05, 9.0))
        f2 = f[-1] * r
        k = rng.random()
        if k < 0.2:
            s = -1.0
            p2 = p[-1] * f[-1] / f2
            tags.add("slope:-1")
        elif k < 0.3:
            e = rng.choice([3e-9, 5e-9, 2e-8, 5e-8, 3e-7, 1e-6, 9e-6, 2e-5, 1e-4, 1e-3])
            s = -1.0 + rng.choice([-1, 1]) * e
            p2 = p[-1] * r ** s
            tags.add("slope:inside-1e-8-band" if e < 1e-8 else "slope:between-1e-8-and-1e-5" if e < 1e-5 else "slope:near-1-outside-band")
        elif k < 0.45:
            p2 = p[-1]
            tags.add("slope:0")
        elif k < 0.55:
            s = rng.choice([1.0, -2.0, 2.0, 0.5])
            p2 = p[-1] * r ** s
            tags.add("slope:integer")
        else:
            s = float(nprng.uniform(-6, 6))
            p2 = p[-1] * r ** s
            tags.add("slope:generic")
        f.append(f2)
        p.append(float(p2))
    return list(zip(f, p)), tags


def _area_rtol(spec, base=1e-9, c=2e-15):
    """relative tolerance for comparing two evaluations of the area of `spec`: `base` plus the
    conditioning of (f2 p2 - f1 p1)/(s + 1) near s = -1 (cancellation in s + 1 and in the numerator:
    a few ulp divided by |s + 1|), weighted by each segment's share of the total"""
    tot = 0.0
    acc = 0.0
    for ((f1, p1), (f2, p2)), sl in zip(zip(spec, spec[1:]), _slopes(spec)):
        L = math.log(f2 / f1)
        seg = p1 * f1 * L if abs(sl + 1) < 1e-12 else abs((f2 * p2 - f1 * p1) / (sl + 1))
        e = abs(sl + 1)
        acc += seg * (base + (c * (1 + 1 / L) / e if 1e-12 < e < 1e-3 else 0.0))
        tot += seg
    return acc / tot if tot > 0 else base


def _slopes(spec):
    out = []
    for (f1, p1), (f2, p2) in zip(spec, spec[1:]):
        out.append(math.log(p2 / p1) / math.log(f2 / f1))
    return out


def _lin_dev(v):
    """max |Df/Df[0] - 1| of a centre-frequency scale (the quantity rescale._get_fl_fu compares with 1e-12)"""
    d = np.diff(np.asarray(v, dtype=float))
    return float(np.max(np.abs(d / d[0] - 1.0))) if len(d) and d[0] != 0 else float("inf")


def _gen_scale(rng, nprng, kind, lo=None, n=None):
    """centre frequencies: 'lin' (dyadic, exactly linear), 'lintol' (linear within 1e-12 only), 'log'"""
    n = n or rng.randint(3, 24)
    if kind == "lin":
        d = Fraction(rng.choice([1, 2, 4, 8, 16, 3, 5]), 16)
        a = Fraction(rng.randint(0, 64), 16) if lo is None else lo
        return [float(a + k * d) for k in range(n)]
    if kind == "lintol":
        d = rng.choice([0.1, 0.3, 0.7, 1.1])
        a = rng.choice([0.0, 0.1, 0.9]) if lo is None else float(lo)
        v = [a + k * d for k in range(n)]
        df = np.diff(v)
        if np.all(df == df[0]):
            v[-1] = float(np.nextafter(v[-1], np.inf))
        return v
    if kind == "nearlin":
        # linear except for one step that is off by a relative amount on either side of the code's 1e-12
        for _ in range(50):
            d = rng.choice([0.25, 0.5, 1.0, 3.0])
            a = rng.choice([0.5, 1.0, 2.0]) if lo is None else float(lo)
            m = min(n, 12)
            delta = rng.choice([1e-13, 2e-13, 2e-11, 1e-9, 1e-7, 1e-5, 1e-3])
            j = rng.randrange(1, m)
            v = [a + k * d + (d * delta if k >= j else 0.0) for k in range(m)]
            dev = _lin_dev(v)
            if 0 < dev < 3e-13 or dev > 1e-11:
                return v
        return [a + k * d for k in range(m)]
    r = rng.choice([2 ** 0.5, 2 ** (1 / 3), 1.3, 2.0, 1.1])
    a = rng.choice([0.5, 1.0, 3.0, 10.0]) if lo is None else float(lo)
    return [a * r ** k * (1.0 if k % 3 else 1.0 + rng.choice([0.0, 0.01])) for k in range(n)]


def _nearlin_from(v, rng):
    """perturb one step of a linear scale by a relative amount clearly below or clearly above 1e-12"""
    v = [float(x) for x in v]
    if len(v) < 3:
        return v
    d = v[1] - v[0]
    if v[0] <= 0:  # a scale that is not linear is read as logarithmic: positive frequencies only
        sh = float(math.ceil(-v[0] / d) + 1) * d
        v = [x + sh for x in v]
    for _ in range(30):
        delta = rng.choice([1e-13, 2e-13, 2e-11, 1e-9, 1e-7, 1e-5, 1e-3])
        j = rng.randrange(1, len(v))
        w = [x + (d * delta if k >= j else 0.0) for k, x in enumerate(v)]
        dev = _lin_dev(w)
        if 0 < dev < 3e-13 or dev > 1e-11:
            return w
    return v


def _gen_rescale(rng, nprng):
    kin = rng.choice(["lin", "lin", "lintol", "log", "nearlin"])
    kout = rng.choice(["lin", "lin", "lintol", "log", "log", "nearlin"])
    F = _gen_scale(rng, nprng, "lin" if kin == "nearlin" else kin)
    if kin == "nearlin":
        F = _nearlin_from(F, rng)
    if kin != "log" and F[0] == 0.0 and kout == "log":
        pass
    span = F[-1] - F[0]
    mode = rng.choice(["inside", "straddle-both", "straddle-first", "straddle-last", "beyond"])
    n = rng.randint(2, 10)
    if kout == "log":
        a = max(F[0], 0.05) * rng.choice([0.3, 0.9, 1.0, 1.5])
        if mode in ("inside", "straddle-last"):
            a = max(F[1], 0.1)
        top = F[-1] * (1.5 if mode in ("straddle-both", "straddle-last", "beyond") else 0.7)
        if top <= a * 1.2:
            top = a * 3.0
        r = (top / a) ** (1.0 / (n - 1))
        freq = [a * r ** k for k in range(n)]
        if abs(r - 1) < 0.02:
            freq = [a * 1.3 ** k for k in range(n)]
    else:
        if mode == "inside":
            lo_, hi_ = F[0] + 0.25 * span, F[0] + 0.75 * span
        elif mode == "straddle-first":
            lo_, hi_ = F[0] - 0.02 * span, F[0] + 0.6 * span
        elif mode == "straddle-last":
            lo_, hi_ = F[0] + 0.3 * span, F[-1] + 0.03 * span
        elif mode == "straddle-both":
            lo_, hi_ = F[0], F[-1]
        else:
            lo_, hi_ = F[0] - 0.5 * span, F[-1] + 0.5 * span
        if kout in ("lin", "nearlin"):
            d = Fraction(max(1, int((hi_ - lo_) * 64 / (n - 1))), 64)
            a = Fraction(int(lo_ * 64), 64)
            freq = [float(a + k * d) for k in range(n)]
            if kout == "nearlin":
                freq = _nearlin_from(freq, rng)
        else:
            d = (hi_ - lo_) / (n - 1) * 1.0000001
            freq = [lo_ + k * d for k in range(n)]
            df = np.diff(freq)
            if np.all(df == df[0]):
                freq[-1] = float(np.nextafter(freq[-1], np.inf))
    P = [float(Fraction(rng.randint(1, 64), 8)) for _ in F]
    return {"P": P, "F": F, "freq": freq, "ext": rng.random() < 0.5, "kin": kin, "kout": kout, "mode": mode}


def _edges_ref(c):
    """band edges by the documented rule (independent of pyyeti): linear scale -> c -+ d/2,
    otherwise geometric means with the end bands mirrored in log space"""
    c = np.asarray(c, dtype=float)
    d = np.diff(c)
    if np.all(np.abs(d / d[0] - 1.0) < 1e-12):
        return c - d[0] / 2, c + d[0] / 2
    mid = np.sqrt(c[:-1] * c[1:])
    return np.hstack((mid[0] / c[1] * c[0], mid)), np.hstack((mid, c[-1] / mid[-1] * c[-1]))


# ---------------------------------------------------------------------------------------
# correspondence

def _corr_index_rules(ctx, drv):
    from pyyeti import dsp

    rng = ctx.rng
    nb = _numba_source(ctx.repo)
    ctx.extra["numba_variants"] = "source text exec'd as plain Python (transcription; numba not installed)"
    cases = []
    # boundary cases first
    fixed = [
        ([0, 1, 5, 6], [0, 1, 2, 3, 4, 5, 6]),
        ([0, 1], [Fraction(1, 2)]),
        ([0, 1, 1, 2, 2], [Fraction(3, 2), 1, 2, 3]),
        ([1, 1], [1]),
        ([3], [0, 3, 7]),
        ([0, 1, 1], [2]),
        ([0, 2, 4], [-3, -1, 0, 1, 2, 3, 5, 9]),
    ]
    for a, v in fixed:
        cases.append(([Fraction(x) for x in a], [Fraction(x) for x in v], True))
    for _ in range(ctx.pick(4000, 30000)):
        told = _gen_told(rng)
        srt = rng.random() < 0.85
        cases.append((told, _gen_tnew(rng, told, srt), srt))
    req = []
    for told, tnew, srt in cases:
        a, v = _qs(told), _qs(tnew)
        req += ["ssl %s | %s" % (a, v), "ssr %s | %s" % (a, v), "cl %s | %s" % (a, v), "pv %s | %s" % (a, v),
                "cls %s | %s" % (a, v), "pvs %s | %s" % (a, v)]
    rep = drv.ask(req)

    def ints(s):
        return s if s in ("index-error", "bad-op") else [int(t) for t in s.split()]

    def call(fn, a, v):
        try:
            return [int(i) for i in fn(a.copy(), v.copy())]
        except IndexError:
            return "index-error"

    for k, (told, tnew, srt) in enumerate(cases):
        a, v = _f(told), _f(tnew)
        m = [ints(r) for r in rep[6 * k:6 * k + 6]]
        inp = {"told": [str(x) for x in told], "tnew": [str(x) for x in tnew]}
        tie = any(any(abs(x - t) == abs(y - t) and x != y for x in told for y in told) for t in tnew)
        out = tnew[0] <= told[0] or tnew[-1] > told[-1] or min(tnew) < told[0]
        dup = len(set(told)) < len(told)
        ctx.case(("idx", tuple(told), tuple(tnew)), nontrivial=tie or out or dup,
                 branch="index:" + ("tie" if tie else "out-of-range" if out else "duplicates" if dup else "plain"))
        if tie:
            ctx.count("branch:index-tie")
        if out:
            ctx.count("branch:index-out-of-range")
        if dup:
            ctx.count("branch:index-duplicate-times")
        got = [
            [int(i) for i in np.searchsorted(a, v)],
            [int(i) for i in np.searchsorted(a, v, side="right")],
            call(dsp._find_closest_times, a, v),
            call(dsp._find_closest_previous_times, a, v),
        ]
        names = ["searchsorted-left", "searchsorted-right", "find-closest-times", "find-closest-previous-times"]
        for nm, g, w in zip(names, got, m[:4]):
            if g != w:
                ctx.disagree(nm, inp, g, w)
        if srt:
            for nm, fn, w in (("numba-source-closest", nb["_find_closest_times"], m[4]),
                              ("numba-source-previous", nb["_find_closest_previous_times"], m[5])):
                g = call(fn, a, v)
                if g != w:
                    ctx.disagree(nm, inp, g, w)
            ctx.count("numba-source-cases")
            if m[4] != "index-error" and (not m[4] or all(i == 0 for i in m[4])) and tnew[0] > told[-1]:
                ctx.count("branch:numba-for-else-zeros")
        if isinstance(m[2], list) and -1 in m[2]:
            ctx.count("branch:closest-wraps-to-minus-one")
        if k % 400 == 0:
            ctx.sample({"told": inp["told"][:8], "tnew": inp["tnew"][:8], "closest": m[2], "previous": m[3]})


def _corr_fixtime(ctx, drv):
    rng = ctx.rng
    cases = [_gen_fixtime(rng, k) for k in ("uniform", "jitter", "gaps", "shifts", "dropouts", "unsorted", "dups", "mixed", "ties")]
    # F11's input: exactly uniform data, hold_previous_value, tolerance 0
    cases.append({"t": (np.arange(10) / 8).tolist(), "y": ["%r" % float(v) for v in range(1, 11)], "sr": 8, "hold": True,
                  "tol": 0.0, "deldrops": True, "delouttimes": True, "kind": "uniform"})
    # one nan drop-out early on and a stray time stamp at the end; the same with the stray first in the file
    for tt in (np.hstack((np.arange(30.0), 200.0)), np.hstack((200.0, np.arange(30.0)))):
        yy = [1000.0 + k for k in range(31)]
        yy[10] = float("nan")
        yy[12] = DROPVAL
        cases.append({"t": tt.tolist(), "y": ["%r" % v for v in yy], "sr": 1, "hold": False, "tol": 1e-3, "deldrops": True,
                      "delouttimes": True, "kind": "combined"})
    cases += [_gen_fixtime(rng, "combined") for _ in range(20)]
    cases += [_gen_fixtime(rng) for _ in range(ctx.pick(1500, 10000))]
    # phase 1: the index bookkeeping (_del_drops, _del_outtimes, _get_alldrops) from the model
    pre = []
    req = []
    for c in cases:
        r = _run_fixtime(c)
        if isinstance(r[0], str) and r[0] == "error":
            ctx.count("fixtime:error-" + r[1])
            ctx.skip("fixtime raised " + r[1])
            continue
        tn, yn, drops = r
        if drops is None:
            ctx.skip("fixtime: only drop-outs")
            continue
        ts_, ys_, sv = _sorted_record(c)
        flags = _drop_flags(ys_)
        req.append("fxd %d %d | %s | %s | %s" % (c["deldrops"], c["delouttimes"], _qs(ts_), " ".join("1" if b_ else "0" for b_ in flags),
                                                 "" if sv is None else " ".join(str(int(i)) for i in sv)))
        pre.append((c, tn, yn, drops, ts_, ys_))
    rep1 = drv.ask(req)
    runs = []
    req = []
    for (c, tn, yn, drops, ts_, ys_), r1 in zip(pre, rep1):
        md, mo, ma, mk = r1.split("|")
        model = {"dropouts": None if md.strip() == "none" else [int(x) for x in md.split()], "outtimes": [int(x) for x in mo.split()],
                 "alldrops": [int(x) for x in ma.split()]}
        keep = [int(x) for x in mk.split()]
        _, _, _, tie = _clean_ref(c)
        if tie:
            ctx.skip("fixtime: a time within rounding of the 3-sigma outlier threshold")
            continue
        if model["outtimes"]:
            ctx.count("branch:fixtime-outlier-time")
            if model["dropouts"] and (min(model["dropouts"]) < max(model["outtimes"])):
                ctx.count("branch:fixtime-dropout-and-outlier-time")
        if model["dropouts"] and any(abs(float(v) - DROPVAL) < abs(DROPVAL) / 100 for v in c["y"] if v not in ("nan", "inf", "-inf")):
            ctx.count("branch:fixtime-dropval-dropout")
        if drops != model:
            ctx.disagree("fixtime-alldrops", c, drops, model)
        if len(keep) == 0:
            ctx.skip("fixtime: nothing left after cleaning")
            continue
        tc, yc = ts_[keep], ys_[keep]
        dt = 1 / c["sr"]
        if c["hold"]:
            ts = tc - dt * c["tol"]
            req.append("pv %s | %s" % (_qs(ts), _qs(tn)))
        else:
            req.append("cl %s | %s" % (_qs(tc), _qs(tn)))
        req.append("mkt %s | %s" % (_q(c["sr"]), _qs(tc)))
        runs.append((c, tn, yn, tc, yc))
    rep = drv.ask(req)
    for k, (c, tn, yn, tc, yc) in enumerate(runs):
        r, rt = rep[2 * k], rep[2 * k + 1]
        # the time base fixtime returns is the modelled _mk_initial_tnew of the cleaned, sorted old times
        if rt in ("raises", "bad-op"):
            ctx.disagree("fixtime-tnew", c, {"len": len(tn)}, rt)
        else:
            ok, exact, m = _cmp_tnew(tn, rt, 1 / c["sr"])
            ctx.count("branch:fixtime-tnew-end-to-end")
            if not ok:
                ctx.disagree("fixtime-tnew", c, {"tnew": np.asarray(tn).tolist()[:10], "len": len(tn)},
                             {"tnew": [float(x) for x in m["tnew"][:10]], "len": len(m["tnew"]), "delt": str(m["delt"])})
        if r in ("index-error", "bad-op"):
            ctx.disagree("fixtime-index", c, "returned %d samples" % len(yn), r)
            continue
        idx = [int(t) for t in r.split()]
        want = yc[idx]
        moved = len(tn) != len(tc) or not np.array_equal(tn, tc)
        ctx.case(("fixtime", json.dumps(c, sort_keys=True)), nontrivial=moved,
                 branch="fixtime:%s:%s" % (c["kind"], "previous" if c["hold"] else "closest"))
        if c["hold"] and c["tol"] == 0.0:
            ctx.count("branch:fixtime-previous-tol0")
        if len(yn) != len(want) or not np.array_equal(yn, want, equal_nan=True):
            ctx.disagree("fixtime-index", c, ["%r" % v for v in yn.tolist()], ["%r" % v for v in want.tolist()])


_DTYPES = ["int16", "int32", "int64", "uint8", "float32", "list"]


def _typed_numbers(nprng, ln, dtn):
    """(storage object, the same numbers as float64) for a signal of `ln` samples stored as `dtn`"""
    if dtn == "float32":
        v = nprng.normal(size=ln).astype(np.float32)
        return v, v.astype(np.float64)
    lo, hi = (0, 256) if dtn == "uint8" else (-300, 300)
    v = nprng.integers(lo, hi, size=ln)
    return _as_dtype(v.astype(np.float64), dtn), v.astype(np.float64)


def _as_dtype(x, dtn):
    x = np.asarray(x)
    if dtn == "list":
        return [int(v) for v in x.tolist()]
    return x.astype(getattr(np, dtn))


def _corr_resample(ctx, drv):
    from pyyeti import dsp
    import scipy.signal as signal

    rng = ctx.rng
    # lengths (exact)
    cases = [(10, 3, 1), (530, 1, 5), (7, 4, 6), (1, 1, 1), (1, 7, 3), (2, 3, 7), (13, 12, 18), (5, 5, 5)]
    for _ in range(ctx.pick(600, 5000)):
        cases.append((rng.randint(1, 70), rng.randint(1, 12), rng.randint(1, 12)))
    rep = drv.ask(["rlen %d %d %d" % c for c in cases])
    rep_tn = drv.ask(["tn 1/2 3/4 %d %d %d" % c for c in cases])
    for (ln, p, q), r, rtn in zip(cases, rep, rep_tn):
        pts = rng.choice([1, 2, 3])
        form = rng.choice(["1d", "2d-axis0", "2d-axis1"])
        if form == "1d":
            out, tn = dsp.resample(np.arange(float(ln)), p, q, pts=pts, t=0.5 + 0.25 * np.arange(float(max(ln, 2))))
            got = (out.shape[0], len(tn))
            mtn = np.array([float(x) for x in _unq(rtn)])
            if not _close(tn, mtn, 1e-3 * (1.0 + np.abs(mtn).max() if len(mtn) else 1.0)):
                ctx.disagree("resample-tnew", {"n": ln, "p": p, "q": q}, tn.tolist(), mtn.tolist())
            if (ln * p) % q:
                ctx.count("branch:resample-tnew-noninteger-length")
        elif form == "2d-axis0":
            out = dsp.resample(np.ones((ln, 2)), p, q, pts=pts, axis=0)
            got = (out.shape[0], out.shape[0]) if out.shape[1] == 2 else ("bad-shape", out.shape)
        else:
            out = dsp.resample(np.ones((3, ln)), p, q, pts=pts, axis=1)
            got = (out.shape[1], out.shape[1]) if out.shape[0] == 3 else ("bad-shape", out.shape)
        g = math.gcd(p, q)
        ctx.case(("rlen", ln, p, q), nontrivial=(p // g > 1 and q // g > 1),
                 branch="resample-length:" + ("gcd>1" if g > 1 else "coprime"))
        if p // g > 1 and q // g > 1:
            ctx.count("branch:resample-p>1-and-q>1")
        if got != (int(r), int(r)):
            ctx.disagree("resample-length", {"n": ln, "p": p, "q": q, "pts": pts, "form": form}, list(got), int(r))
    # taps and output (numeric)
    nprng = ctx.np_rng(19)
    ncases = []
    dtypes = {}
    for _ in range(ctx.pick(80, 500)):
        p, q = rng.randint(1, 5), rng.randint(1, 5)
        pts = rng.randint(1, 4)
        ln = rng.randint(2, 36)
        beta = rng.choice([14, 14, 5.0, 8.6])
        g = math.gcd(p, q)
        M = 2 * pts * max(p // g, q // g)
        w = signal.windows.kaiser(M + 1, beta)
        data = nprng.normal(size=ln) + rng.choice([0.0, 3.0])
        if rng.random() < 0.15:
            data = np.full(ln, float(rng.choice([3.0, -0.375, 0.1, 1e6 + 0.3])))
        elif rng.random() < 0.45 or len(dtypes) < len(_DTYPES):
            # the same numbers stored with another dtype (raw counts, single precision, a Python list); every dtype at least once
            dtn = _DTYPES[len(dtypes)] if len(dtypes) < len(_DTYPES) else rng.choice(_DTYPES)
            data = _typed_numbers(nprng, ln, dtn)[1]
            dtypes[len(ncases)] = dtn
        ncases.append((p, q, pts, beta, w, data))
    for p, q, pts, cval in ((3, 1, 3, 3.0), (2, 1, 2, 0.1), (4, 6, 2, -0.375), (1, 5, 3, 1e6 + 0.3)):
        g = math.gcd(p, q)
        w = signal.windows.kaiser(2 * pts * max(p // g, q // g) + 1, 14)
        ncases.append((p, q, pts, 14, w, np.full(11, cval)))
        ncases.append((p, q, pts, 14, w, nprng.normal(size=11)))
    req = []
    for p, q, pts, beta, w, data in ncases:
        req.append("fir %d %d %d | %s" % (p, q, pts, _bits(w)))
        req.append("rs %d %d %d | %s | %s" % (p, q, pts, _bits(w), _bits(data)))
    rep = drv.ask(req)
    for k, (p, q, pts, beta, w, data) in enumerate(ncases):
        out, fir = dsp.resample(data, p, q, pts=pts, beta=beta, getfir=True)
        if k in dtypes:
            # the model works on the numbers; the implementation gets them in the stated storage type
            typed = _as_dtype(data, dtypes[k])
            out_t = dsp.resample(typed, p, q, pts=pts, beta=beta)
            mo_ = _unbits(rep[2 * k + 1])
            tol_ = 1e-4 if dtypes[k] == "float32" else 1e-9
            g_ = math.gcd(p, q)
            ctx.count("branch:resample-dtype-" + dtypes[k])
            if p // g_ > 1 and dtypes[k] != "float32":
                ctx.count("branch:resample-integer-dtype-upsampled")
            if not _close(out_t, mo_, max(1.0, np.abs(data).max()) * max(1.0, np.abs(fir).sum()), tol=tol_):
                ctx.disagree("resample-dtype", {"p": p, "q": q, "pts": pts, "beta": beta, "dtype": dtypes[k], "data": data.tolist()},
                             np.asarray(out_t, dtype=float).tolist(), mo_.tolist())
        mf, mo = _unbits(rep[2 * k]), _unbits(rep[2 * k + 1])
        inp = {"p": p, "q": q, "pts": pts, "beta": beta, "data": data.tolist()}
        ctx.case(("rs", p, q, pts, beta, tuple(data.tolist())), nontrivial=True, branch="resample-numeric")
        g = math.gcd(p, q)
        if q // g == 1 and p // g > 1:
            ctx.count("branch:resample-upsample-q1")
            # the model's retained samples (theorem upsample_keeps_samples_full) against the input itself
            if not _close(mo[::p // g], data, max(1.0, np.abs(data).max()), tol=1e-12):
                ctx.disagree("resample-model-keeps-samples", inp, data.tolist(), mo[::p // g].tolist())
        if np.all(data == data[0]):
            ctx.count("branch:resample-constant-input")
        if not _close(fir, mf, max(1.0, np.abs(fir).max())):
            ctx.disagree("resample-fir", inp, fir.tolist(), mf.tolist())
        if not _close(out, mo, max(1.0, np.abs(data).max()) * max(1.0, np.abs(fir).sum())):
            ctx.disagree("resample-output", inp, out.tolist(), mo.tolist())


def _corr_psd(ctx, drv):
    from pyyeti import psd

    rng = ctx.rng
    nprng = ctx.np_rng(7)
    specs = [([(20.0, 0.0053), (150.0, 0.04), (600.0, 0.04), (2000.0, 0.0036)], {"doc-example"}),
             ([(1.0, 1.0), (2.0, 0.5)], {"slope:-1"}),
             ([(1.0, 1.0), (1000.0, 1000.0 ** (-1 + 9e-6))], {"slope:between-1e-8-and-1e-5"}),  # F31's input
             ([(1.0, 1.0), (8.0, 8.0 ** (-1 - 5e-6)), (16.0, 1.0)], {"slope:between-1e-8-and-1e-5"}),
             ([(1.0, 1.0), (1000.0, 1000.0 ** (-1 + 4e-9))], {"slope:inside-1e-8-band"})]
    for _ in range(ctx.pick(800, 6000)):
        specs.append(_gen_spec(rng, nprng))
    req = []
    xs_all = []
    for spec, tags in specs:
        flat = [v for row in spec for v in row]
        f = [r[0] for r in spec]
        xs = list(f) + [f[0] * 0.5, f[-1] * 2.0, f[0], f[-1]]
        for _ in range(6):
            xs.append(float(np.exp(nprng.uniform(np.log(f[0]), np.log(f[-1])))))
        xs_all.append(xs)
        req.append("area " + _bits(flat))
        req.append("ilog %s | %s" % (_bits(xs), _bits(flat)))
        req.append("ilin %s | %s" % (_bits(xs), _bits(flat)))
    rep = drv.ask(req)
    for k, (spec, tags) in enumerate(specs):
        arr = np.array(spec)
        xs = np.array(xs_all[k])
        for t in tags:
            ctx.count("branch:area-" + t)
        ctx.case(("spec", tuple(spec)), nontrivial=bool(tags - {"slope:generic"}), branch="psd-spec")
        with np.errstate(all="ignore"):
            a = float(psd.area(arr)[0])
            a2 = float(psd.area((arr[:, 0], arr[:, 1]))[0])
            il = psd.interp(arr, xs).ravel()
            il2 = psd.interp((arr[:, 0], arr[:, 1]), xs)
            ili = psd.interp(arr, xs, linear=True).ravel()
        ma = float(_unbits(rep[3 * k])[0])
        inp = {"spec": spec}
        if not _close(a, ma, max(abs(a), abs(ma)), tol=_area_rtol(spec)) or abs(a2 - a) > 1e-12 * abs(a):
            ctx.disagree("area", inp, [a, a2], ma)
        ml = _unbits(rep[3 * k + 1])
        if not _close(il / np.maximum(np.abs(ml), 1e-300), ml / np.maximum(np.abs(ml), 1e-300), 1.0) \
                or not np.allclose(il, il2, rtol=1e-12, atol=0):
            ctx.disagree("interp-log", dict(inp, x=xs.tolist()), il.tolist(), ml.tolist())
        mi = _unbits(rep[3 * k + 2])
        if not _close(ili, mi, np.abs(arr[:, 1]).max()):
            ctx.disagree("interp-linear", dict(inp, x=xs.tolist()), ili.tolist(), mi.tolist())
        if k % 100 == 0:
            ctx.sample({"spec": spec, "area": a, "model_area": ma})


def _corr_rescale(ctx, drv):
    from pyyeti import psd

    rng = ctx.rng
    nprng = ctx.np_rng(11)
    doc_F = (np.arange(0, 10.1, 0.25)).tolist()
    cases = [
        {"P": [1.0] * 41, "F": doc_F, "freq": [0.0, 5.0, 10.0], "ext": True, "kin": "lin", "kout": "lin", "mode": "straddle-both"},
        {"P": [1.0] * 41, "F": doc_F, "freq": [0.0, 5.0, 10.0], "ext": False, "kin": "lin", "kout": "lin", "mode": "straddle-both"},
    ]
    for _ in range(ctx.pick(1200, 8000)):
        cases.append(_gen_rescale(rng, nprng))
    req = []
    for c in cases:
        e = "1" if c["ext"] else "0"
        req.append("rff %s | %s | %s | %s" % (e, _bits(c["P"]), _bits(c["F"]), _bits(c["freq"])))
        if c["kin"] == "lin" and c["kout"] == "lin":
            req.append("rfq %s | %s | %s | %s" % (e, _qs(c["P"]), _qs(c["F"]), _qs(c["freq"])))
        else:
            req.append("rlen 1 1 1")  # placeholder keeps two replies per case
    rep = drv.ask(req)
    for k, c in enumerate(cases):
        P, F, freq = np.array(c["P"]), np.array(c["F"]), np.array(c["freq"])
        try:
            with np.errstate(all="ignore"):
                po, fo, msv, ms = psd.rescale(P, F, freq=freq, extendends=c["ext"])
            impl = "ok"
        except (ValueError, IndexError) as e_:
            impl = "value-error" if isinstance(e_, ValueError) else "index-error"
        rf = rep[2 * k]
        br = "rescale:in-%s:out-%s:ext-%d" % (c["kin"], c["kout"], c["ext"])
        if impl != "ok" or rf == "value-error":
            ctx.case(("rescale", json.dumps(c, sort_keys=True)), nontrivial=False, branch="rescale:error")
            if not (impl != "ok" and rf == "value-error") and not (impl == "index-error"):
                ctx.disagree("rescale-error-kind", c, impl, rf)
            continue
        head, mp_, mm, mv = rf.split("|")
        lo, hi = [int(t) for t in head.split()]
        mp_, mm, mv = _unbits(mp_), _unbits(mm), float(_unbits(mv)[0])
        if hi <= lo:
            ctx.skip("rescale: no output band overlaps the input")
            continue
        FLr, FUr = _edges_ref(F) if not (np.all(np.diff(F) == np.diff(F)[0])) else (F - np.diff(F)[0] / 2, F + np.diff(F)[0] / 2)
        oL, oU = _edges_ref(freq)
        clipped_first = oL[lo] < FLr[0]
        clipped_last = oU[hi - 1] > FUr[-1]
        ctx.case(("rescale", json.dumps(c, sort_keys=True)), nontrivial=clipped_first or clipped_last or c["kout"] != "lin", branch=br)
        for tag, v in (("in", F), ("out", freq)):
            if c["k" + tag] == "nearlin" and 0 < _lin_dev(v):
                ctx.count("branch:rescale-nearlin-%s-tol" % ("below" if _lin_dev(v) < 1e-12 else "above"))
        if clipped_first:
            ctx.count("branch:rescale-first-band-straddles-input-edge")
        if clipped_last:
            ctx.count("branch:rescale-last-band-straddles-input-edge")
        if lo > 0 or hi < len(freq):
            ctx.count("branch:rescale-trimmed")
        total = float(np.sum(np.abs(P)) * (F[-1] - F[0] + 1.0))
        wmin = float(np.min(oU[lo:hi] - oL[lo:hi]))
        wclip = min(wmin, float(min(oU[lo], FUr[-1]) - max(oL[lo], FLr[0])) if clipped_first else wmin,
                    float(min(oU[hi - 1], FUr[-1]) - max(oL[hi - 1], FLr[0])) if clipped_last else wmin)
        if wclip <= 1e-6 * (F[-1] - F[0]):
            ctx.skip("rescale: covered part of an end band is (nearly) empty — ill-conditioned division")
            continue
        amp = max(1.0, float(np.max((oU[lo:hi] - oL[lo:hi]))) / wclip)
        ok = (list(fo) == list(freq[lo:hi])
              and _close(ms, mm, total * amp) and _close(po, mp_, total / wclip) and _close(msv, mv, total * amp * len(mm)))
        if not ok:
            ctx.disagree("rescale-float", c, {"psd": np.asarray(po).tolist(), "ms": np.asarray(ms).tolist(), "msv": float(msv), "fctr": list(fo)},
                         {"psd": mp_.tolist(), "ms": mm.tolist(), "msv": mv, "lo": lo, "hi": hi})
        rq = rep[2 * k + 1] if (c["kin"] == "lin" and c["kout"] == "lin") else "none"
        if rq not in ("none", "nonlinear", "value-error", "bad-op"):
            head, qp, qm, qv = rq.split("|")
            qlo, qhi = [int(t) for t in head.split()]
            qp = np.array([float(x) for x in _unq(qp)])
            qm = np.array([float(x) for x in _unq(qm)])
            ctx.count("rescale-exact-rational-cases")
            if (qlo, qhi) != (lo, hi) or not _close(ms, qm, total * amp) or not _close(po, qp, total / wclip) \
                    or not _close(msv, float(Fraction(qv)), total * amp * len(qm)):
                ctx.disagree("rescale-rational", c, {"psd": np.asarray(po).tolist(), "ms": np.asarray(ms).tolist()},
                             {"psd": qp.tolist(), "ms": qm.tolist(), "lo": qlo, "hi": qhi})
        elif rq == "bad-op":
            ctx.disagree("rescale-rational", c, "ok", rq)
        if k % 100 == 0:
            ctx.sample({"rescale": {kk: c[kk] for kk in ("kin", "kout", "mode", "ext")}, "freq": c["freq"][:5], "psd": np.asarray(po).tolist()[:5]})
    # n_oct path: the edges come from get_freq_oct (checked by the oracle), the bookkeeping from the model
    oc = []
    for _ in range(ctx.pick(150, 1200)):
        kin = rng.choice(["lin", "lintol", "log"])
        F = _gen_scale(rng, nprng, kin, n=rng.randint(8, 40))
        if F[-1] <= 1.2:
            F = [v + 1.5 for v in F]
        P = [float(Fraction(rng.randint(1, 64), 8)) for _ in F]
        oc.append({"P": P, "F": F, "n_oct": rng.choice([1, 3, 6, 12]), "ext": rng.random() < 0.5, "kin": kin,
                   "frange": rng.choice([None, None, (0.0, 1e9), (2.0, F[-1] * 0.8)])})
    req = []
    keep = []
    for c in oc:
        F = np.array(c["F"])
        fr = c["frange"] if c["frange"] is not None else (1.0, np.inf)
        fr = psd._set_frange(fr, 1.0, F[-1])
        try:
            W, FL, FU = psd.get_freq_oct(c["n_oct"], exact=True, frange=fr)
        except ValueError:
            ctx.skip("get_freq_oct: empty range")
            continue
        d = np.diff(F)
        if np.all(d == d[0]):
            FLin, FUin = F - d[0] / 2, F + d[0] / 2
        else:
            FLin, FUin = _edges_ref(F)
        req.append("rcf %s | %s | %s | %s | %s | %s" % ("1" if c["ext"] else "0", _bits(FLin), _bits(FUin), _bits(c["P"]), _bits(FL), _bits(FU)))
        keep.append((c, W, FL, FU))
    rep = drv.ask(req)
    for (c, W, FL, FU), r in zip(keep, rep):
        P, F = np.array(c["P"]), np.array(c["F"])
        with np.errstate(all="ignore"):
            po, fo, msv, ms = psd.rescale(P, F, n_oct=c["n_oct"], extendends=c["ext"], frange=c["frange"])
        mp_, mm, mv = r.split("|")
        mp_, mm, mv = _unbits(mp_), _unbits(mm), float(_unbits(mv)[0])
        total = float(np.sum(np.abs(P)) * (F[-1] - F[0] + 1.0))
        wmin = float(np.min(FU - FL))
        ctx.case(("rescale-oct", json.dumps(c, sort_keys=True)), nontrivial=True, branch="rescale:n_oct:in-%s:ext-%d" % (c["kin"], c["ext"]))
        cov_last = float(min(FU[-1], F[-1] * 1.5) - FL[-1])
        if cov_last < 1e-3 * (FU[-1] - FL[-1]):
            ctx.skip("rescale n_oct: covered part of the last band nearly empty")
            continue
        amp = float(np.max(FU - FL)) / max(min(wmin, cov_last), 1e-12)
        if not (np.array_equal(fo, W) and _close(ms, mm, total * max(1.0, amp)) and _close(po, mp_, total * max(1.0, amp) / wmin)
                and _close(msv, mv, total * max(1.0, amp) * len(mm))):
            ctx.disagree("rescale-n_oct", c, {"psd": np.asarray(po).tolist(), "ms": np.asarray(ms).tolist()}, {"psd": mp_.tolist(), "ms": mm.tolist()})


# ----- fixtime, every option: sr='auto', dropval, delspikes, base (Model/FixtimeFull.lean) -------------------

import signal as _signal


class _Timeout(Exception):
    pass


def _alarm(*_a):
    raise _Timeout()


def _guarded(fn, secs=3):
    """fn() with a wall-clock limit (despike(exclude_point='last') does not terminate on some records);
    -> ('ok', value) | ('timeout', None) | ('error', name)"""
    try:
        old = _signal.signal(_signal.SIGALRM, _alarm)
    except ValueError:          # not in the main thread: no limit available
        old = None
    try:
        if old is not None:
            _signal.alarm(secs)
        return ("ok", fn())
    except _Timeout:
        return ("timeout", None)
    except (ValueError, IndexError, ZeroDivisionError, FloatingPointError) as e:
        return ("error", type(e).__name__)
    finally:
        if old is not None:
            _signal.alarm(0)
            _signal.signal(_signal.SIGALRM, old)


_XP_PY = {"f": "first", "m": "middle", "l": "last", "n": None}


def _xp_py(tok):
    return _XP_PY[tok] if tok in _XP_PY else int(tok[1:])


def _gen_spiky(rng, n, exact):
    """data for the despikers: a flat (exact) or gently varying background with a few spikes; integers, so that with a
    window of n-1 = 2^k points every statistic of the code is computed exactly"""
    b = rng.choice([0, 2, 5, 100])
    y = [b] * n if exact else [b + rng.choice([0, 0, 0, 1, -1]) for _ in range(n)]
    for _ in range(rng.randint(1, 4)):
        i = rng.randrange(n)
        w = rng.randint(1, 3)
        a = rng.choice([4, 8, 16, -8, 3, 100, 5, -4])
        for k in range(i, min(n, i + w)):
            y[k] += a
    return [float(v) for v in y]


def _gen_delspikes(rng, exact):
    """a `delspikes` argument of fixtime: False | True | dict"""
    k = rng.random()
    if k < 0.2:
        return True
    method = rng.choice(["despike_diff", "despike_diff", "despike", "despike", "simple"])
    d = {"method": method, "n": rng.choice([3, 5, 9] if exact else [3, 5, 9, 4, 7, 15]), "sigma": rng.choice([8, 2, 3, 1]),
         "maxiter": rng.choice([-1, -1, 1, 2, 0])}
    if method != "simple":
        if rng.random() < (1.0 if exact else 0.6):
            d["threshold_value"] = float(rng.choice([4, 2, 8, 0, 3, 5]))
        else:
            d["threshold_sigma"] = float(rng.choice([2, 0, 1]))
        if method == "despike":
            d["exclude_point"] = rng.choice(["first", "first", "middle", 0, 1, "last"] if not exact else ["first", "first", "middle", 0, 1])
        elif rng.random() < 0.3:
            d["exclude_point"] = rng.choice(["first", 0, "last"])
    return d


def _gen_fixfull(rng, kind=None):
    """a fixtime input with every option in play"""
    c = _gen_fixtime(rng, kind)
    c["full"] = True
    n = len(c["t"])
    c["sr_opt"] = "auto" if rng.random() < 0.35 else c["sr"]
    if rng.random() < 0.15:
        c["sr_opt"] = rng.choice([3, 5, 10, 0.5, 12.5])
    t0 = min(c["t"])
    c["base"] = None if rng.random() < 0.5 else rng.choice([0.0, t0 + rng.randint(-40, 400) / GRID, t0 - 1000.0, float(rng.randint(-5, 50)),
                                                           t0 + rng.randint(0, 64) / (2.0 * c["sr"])])
    dv = rng.choice(["default", "default", "default", -999.0, 0.0, "nan", 7.5])
    c["dropval"] = dv
    y = _yarr(c)
    if isinstance(dv, float) and dv != 0.0:
        for _ in range(rng.randint(1, 3)):
            y[rng.randrange(n)] = dv * rng.choice([1.0, 1.005, 0.995, 1.02, 0.98, 1.0])
    exact = rng.random() < 0.5
    c["delspikes"] = False
    if rng.random() < 0.4 and n >= 12:
        ds = _gen_delspikes(rng, exact)
        c["delspikes"] = ds
        c["spike_exact"] = exact and isinstance(ds, dict) and ds["method"] != "simple"
        yy = np.array(_gen_spiky(rng, n, c["spike_exact"]))
        bad = ~np.isfinite(y) if c["deldrops"] else np.zeros(n, bool)   # keep the drop-outs only where they are deleted
        if isinstance(dv, float) and c["deldrops"]:
            bad |= np.isfinite(y) & (np.abs(y - dv) < abs(dv) / 100)
        y = np.where(bad, y, yy)
    c["y"] = ["%r" % float(v) for v in y]
    return c


def _dropval_of(c):
    dv = c.get("dropval", "default")
    return DROPVAL if dv == "default" else float("nan") if dv == "nan" else float(dv)


def _delspikes_params(ds):
    """the effective parameters after fixtime's _prep_delspikes: (method, n, sigma, maxiter, ts, tv, xp token)"""
    d = dict(ds) if isinstance(ds, dict) else {}
    method = d.get("method", "despike_diff")
    xp = d.get("exclude_point", "first")
    tok = {"first": "f", "middle": "m", "last": "l", None: "n"}[xp] if (xp is None or isinstance(xp, str)) else "k%d" % xp
    return method, int(d.get("n", 15)), d.get("sigma", 8), int(d.get("maxiter", -1)), d.get("threshold_sigma", 2.0), d.get("threshold_value", None), tok


def _run_fixfull(c):
    """-> ('ok', dict) | ('timeout'|'error', what)"""
    from pyyeti import dsp

    t = np.array(c["t"], dtype=float)
    y = _yarr(c)

    def call():
        with warnings.catch_warnings(record=True) as w:
            warnings.simplefilter("always")
            with np.errstate(all="ignore"):
                (tn, yn), info = dsp.fixtime(
                    (t.copy(), y.copy()), c["sr_opt"], hold_previous_value=c["hold"], previous_value_tol=c["tol"],
                    deldrops=c["deldrops"], dropval=_dropval_of(c), delouttimes=c["delouttimes"], delspikes=c["delspikes"],
                    base=c["base"], getall=True, verbose=False)
        msgs = [str(x.message) for x in w]
        return np.asarray(tn), np.asarray(yn), info, msgs

    st, r = _guarded(call)
    if st != "ok":
        return st, r
    tn, yn, info, msgs = r
    ad = info.alldrops
    early = isinstance(ad, tuple)
    ns = ad[2] if early else ad

    def lst(v):
        return None if v is None else sorted(int(i) for i in np.asarray(v).ravel())

    return "ok", {"tn": tn, "yn": yn, "early": early, "dropouts": lst(ns.dropouts), "outtimes": lst(ns.outtimes), "spikes": lst(ns.spikes),
                  "alldrops": lst(ns.alldrops), "sr_stats": None if info.sr_stats is None else [float(v) for v in info.sr_stats],
                  "tp": None if info.tp is None else [int(i) for i in info.tp],
                  "niter": None if info.despike_info is None else int(info.despike_info.niter),
                  "warn_small": any("smaller than" in m for m in msgs), "warn_large": any("larger than" in m for m in msgs)}


def _sample_tokens(y):
    return " ".join("nan" if v != v else "inf" if v in (float("inf"), float("-inf")) else _q(v) for v in y)


def _opt(v):
    return "none" if v is None else _q(v)


def _fxt_request(c, ts_, ys_, sv, sr_tok, spike_flags):
    dv = _dropval_of(c)
    ds = c["delspikes"]
    spn = "none" if not ds else str(_delspikes_params(ds)[1])
    return "fxt %d %d %d | %s %s %s %s %s | %s | %s | %s | %s" % (
        c["deldrops"], c["delouttimes"], c["hold"], "none" if not math.isfinite(dv) else _q(dv), sr_tok, _q(c["tol"]), _opt(c["base"]), spn,
        _qs(ts_), _sample_tokens(ys_), "" if sv is None else " ".join(str(int(i)) for i in sv), " ".join("1" if b else "0" for b in spike_flags))


def _despike_requests(method, n, sigma, maxiter, ts, tv, xp, data, eps):
    """the model request for one despiker call with all thresholds scaled by (1 + eps)"""
    f = Fraction(1) + Fraction(eps)
    sg = Fraction(sigma) * f
    if method == "simple":
        return "smp %d %s %d | %s" % (n, _q(sg), maxiter, _qs(data))
    tsq = Fraction(ts) * f
    scale = max([1.0] + [abs(v) for v in data])
    tvq = "none" if tv is None else _q(Fraction(tv) + Fraction(eps) * Fraction(scale))
    return "%s %d %s %d %s %s %s | %s" % ("dsp" if method == "despike" else "dsd", n, _q(sg), maxiter, _q(tsq), tvq, xp, _qs(data))


_EPS = Fraction(1, 10 ** 9)


def _parse_fxt(r):
    if r in ("raises", "bad-op"):
        return r
    e, tn, src, dr, ot, sp, ad, kp, sr, st, tp, wr, sh = r.split("|")

    def nats(x):
        return None if x.strip() == "none" else [int(v) for v in x.split()]

    stats = None
    if st.strip() != "none":
        v = st.split()
        stats = {"max": float("inf") if v[0] == "inf" else Fraction(v[0]), "min": Fraction(v[1]), "ave": Fraction(v[2]), "mode": Fraction(v[3]),
                 "pct": Fraction(v[4]), "dsr": Fraction(v[5]), "bymode": v[6] == "1", "defsr": Fraction(v[7])}
    return {"early": e == "1", "tnew": _unq(tn), "src": nats(src), "dropouts": nats(dr), "outtimes": nats(ot), "spikes": nats(sp), "alldrops": nats(ad),
            "keep": nats(kp), "sr": Fraction(sr), "stats": stats, "tp": nats(tp), "warn": [x == "1" for x in wr.split()], "shift": Fraction(sh)}


def _sr_near_tie(difft, st):
    """is a rounding or a comparison of _sr_calcs within 1e-9 of a tie on these steps? (model statistics `st`)"""
    d = [Fraction(float(x)) for x in difft if x != 0]
    if not d:
        return True
    sr_all = [1 / x for x in d]
    sr1 = min(sr_all)
    tol = Fraction(1, 10 ** 9)

    def half(x):
        fr = x - math.floor(x)
        return abs(fr - Fraction(1, 2)) <= tol * max(1, abs(x))

    if abs(sr1 - 5) <= tol * 5 or (sr1 <= 5 and half(10 * max(sr1, Fraction(1, 10)))):
        return True
    dsr = st["dsr"]
    if any(half(s / dsr) for s in sr_all) or half(st["ave"] / dsr):
        return True
    if abs(st["pct"] - 90) <= tol * 90 or abs(abs(st["mode"] - st["ave"]) - dsr) <= tol * dsr:
        return True
    return False


def _corr_fixfull(ctx, drv):
    """dsp.fixtime with every option against Model/FixtimeFull.lean (exact at Rat; numeric where the sample rate is not
    dyadic), the despiker's flags from Model/FixtimeDespike.lean"""
    rng = ctx.rng
    cases = []
    # fixed cases: a time exactly 3 sigma from the mean (not an outlier: the test is strict), sr='auto' on exactly uniform
    # data at 8 Hz (chooses 10), base, the despike documentation example
    for tt in ([3, 16, 18, 19, 33, 39, 43, 45, 49, 52, 57, 58, 166], [14, 28, 34, 35, 36, 40, 44, 51, 54, 55, 56, 165]):
        cases.append({"t": [float(v) for v in tt], "y": ["%r" % float(k) for k in range(len(tt))], "sr": 1, "sr_opt": 1, "hold": False, "tol": 1e-3,
                      "deldrops": True, "delouttimes": True, "kind": "sigma-tie", "full": True, "base": None, "dropval": "default", "delspikes": False})
    cases.append({"t": (np.arange(40) / 8).tolist(), "y": ["%r" % float(k) for k in range(40)], "sr": 8, "sr_opt": "auto", "hold": False, "tol": 1e-3,
                  "deldrops": True, "delouttimes": True, "kind": "uniform", "full": True, "base": None, "dropval": "default", "delspikes": False})
    cases.append({"t": (np.arange(30) / 4).tolist(), "y": ["%r" % float(k) for k in range(30)], "sr": 4, "sr_opt": 4, "hold": False, "tol": 1e-3,
                  "deldrops": True, "delouttimes": True, "kind": "uniform", "full": True, "base": 0.125, "dropval": "default", "delspikes": False})
    cases.append({"t": [float(k) for k in range(6)], "y": ["nan", "inf", "-inf", "nan", "%r" % DROPVAL, "nan"], "sr": 1, "sr_opt": 1, "hold": False, "tol": 1e-3,
                  "deldrops": True, "delouttimes": True, "kind": "dropouts", "full": True, "base": None, "dropval": "default", "delspikes": False})
    yy = [2.0] * 30
    yy[4] = 5.0
    yy[9] = 7.0
    yy[20] = 6.0
    for ds in ({"method": "despike_diff", "n": 5, "threshold_value": 4.0}, {"method": "despike", "n": 5, "threshold_value": 4.0, "sigma": 2},
               {"method": "despike", "n": 5, "threshold_value": 4.0, "exclude_point": "middle", "sigma": 2}, {"method": "simple", "n": 5, "sigma": 2}):
        cases.append({"t": [float(k) for k in range(30)], "y": ["%r" % v for v in yy], "sr": 1, "sr_opt": 1, "hold": False, "tol": 1e-3, "deldrops": True,
                      "delouttimes": True, "kind": "spikes", "full": True, "base": None, "dropval": "default", "delspikes": ds, "spike_exact": ds["method"] != "simple"})
    cases += [_gen_fixfull(rng) for _ in range(ctx.pick(900, 6000))]
    # phase A: what survives _del_drops / _del_outtimes (the despiker's input)
    pre = []
    reqA = []
    for c in cases:
        ds = c["delspikes"]
        if ds and not c["deldrops"] and not np.isfinite(_yarr(c)).all():
            ctx.skip("fixtime: despiking a record that keeps its nan/inf samples")
            continue
        st, r = _run_fixfull(c)
        if st == "timeout":
            ctx.count("fixtime-full:despiker-does-not-terminate")
            ctx.skip("fixtime: the despiker did not terminate within 3 s")
            continue
        ts_, ys_, sv = _sorted_record(c)
        dv = _dropval_of(c)
        spn = "none" if not ds else str(_delspikes_params(ds)[1])
        reqA.append("fxk %d %d %s | %s | %s | %s" % (c["deldrops"], c["delouttimes"], spn, "none" if not math.isfinite(dv) else _q(dv), _qs(ts_), _sample_tokens(ys_)))
        pre.append((c, st, r, ts_, ys_, sv))
    repA = drv.ask(reqA)
    # phase B: the despiker on those samples (nominal and with every threshold scaled by 1 +- 1e-9)
    reqB = []
    slots = []
    for (c, st, r, ts_, ys_, sv), ra in zip(pre, repA):
        ds = c["delspikes"]
        if not ds or ra in ("early", "bad-op"):
            slots.append(None)
            continue
        keep1 = [int(v) for v in ra.split()]
        data = [float(ys_[i]) for i in keep1]
        if not all(math.isfinite(v) for v in data) or len(data) < 4:
            slots.append("skip")
            continue
        m, n, sg, mi, tsg, tv, xp = _delspikes_params(ds)
        # the despikers shrink a window longer than the record to len-1 points: then the window is no longer 2^k+1 long
        # and the code's floating-point statistics are not exact, whatever the data
        c["_window_kept"] = len(data) >= n
        slots.append(len(reqB))
        for eps in (0, _EPS, -_EPS):
            reqB.append(_despike_requests(m, n, sg, mi, tsg, tv, xp, data, eps))
    repB = drv.ask(reqB)
    # phase C: the whole routine
    reqC = []
    keepC = []
    for (c, st, r, ts_, ys_, sv), ra, sl in zip(pre, repA, slots):
        if sl == "skip":
            ctx.skip("fixtime: despiker input outside the model (non-finite or fewer than 4 samples)")
            continue
        flags = []
        niter = None
        if sl is not None:
            nom, up, dn = repB[sl], repB[sl + 1], repB[sl + 2]
            if "raises" in (nom, up, dn) or "bad-op" in (nom, up, dn):
                if st == "ok" and nom == "raises" and _delspikes_params(c["delspikes"])[0] != "simple":
                    ctx.disagree("fixtime-full-despiker-raises", c, "returned", nom)
                else:
                    ctx.skip("fixtime: the despiker raises / leaves the model's domain")
                continue
            if not (nom == up == dn):
                if c.get("spike_exact") and c.get("_window_kept"):
                    ctx.count("branch:despike-exact-tie")      # a designed tie, every statistic exact: compared as is
                else:
                    ctx.skip("fixtime: a despike decision within 1e-9 of its threshold")
                    continue
            fl, ni = nom.split("|")
            flags = [x == "1" for x in fl.split()]
            niter = int(ni)
        sr_tok = "auto" if c["sr_opt"] == "auto" else _q(c["sr_opt"])
        reqC.append(_fxt_request(c, ts_, ys_, sv, sr_tok, flags))
        keepC.append((c, st, r, ts_, ys_, sv, niter))
    repC = drv.ask(reqC)
    again = []
    for (c, st, r, ts_, ys_, sv, niter), rc in zip(keepC, repC):
        m = _parse_fxt(rc)
        if m == "bad-op":
            ctx.disagree("fixtime-full", c, st, m)
            continue
        if st != "ok" or m == "raises":
            ctx.case(("fixfull", json.dumps(c, sort_keys=True)), nontrivial=False, branch="fixtime-full:raises")
            if (st == "ok") != (m != "raises"):
                if c["sr_opt"] == "auto" or len(ts_) < 3:
                    ctx.skip("fixtime: error kind of a degenerate record")
                else:
                    ctx.disagree("fixtime-full-raises", c, st if st != "ok" else "returned", m if m == "raises" else "returned")
            continue
        bad = _cmp_fixfull(ctx, c, r, m, ts_, ys_, niter)
        if bad is not None:
            again.append((c, r, m, ts_, ys_, sv, niter, bad, reqC[keepC.index((c, st, r, ts_, ys_, sv, niter))]))
    # a disagreement with a sample rate that is not a dyadic number: re-run the model with the rate moved by 1e-11 either way;
    # if the model's own structure changes the case sits on a rounding tie and is skipped
    req2 = []
    for (c, r, m, ts_, ys_, sv, niter, bad, rq) in again:
        if _dyadic_rate(m["sr"]):
            continue
        for f in (Fraction(1) + Fraction(1, 10 ** 11), Fraction(1) - Fraction(1, 10 ** 11)):
            parts = rq.split("|")
            opts = parts[1].split()
            opts[1] = _q(m["sr"] * f)
            parts[1] = " " + " ".join(opts) + " "
            req2.append("|".join(parts))
    rep2 = drv.ask(req2)
    k2 = 0
    for (c, r, m, ts_, ys_, sv, niter, bad, rq) in again:
        if not _dyadic_rate(m["sr"]):
            a, b = _parse_fxt(rep2[k2]), _parse_fxt(rep2[k2 + 1])
            k2 += 2
            def shape(x):
                # the alignment offset in steps (6 decimals): a tie of _get_prev_index / of a rounding moves it by a whole step
                off = round(float((x["tnew"][0] - x["shift"]) * x["sr"]), 6) if (not isinstance(x, str) and x["tnew"]) else None
                off = None if off is None else round(off - math.floor(off), 5)
                return x if isinstance(x, str) else (len(x["tnew"]), x["src"], x["tp"], x["alldrops"], x["warn"], off)
            if not (shape(a) == shape(b) == shape(m)):
                ctx.skip("fixtime: a decision within rounding of a tie (sample rate not dyadic)")
                continue
        ctx.disagree(bad[0], c, bad[1], bad[2])


def _dyadic_rate(sr):
    """is the time step 1/sr (and sr) a dyadic number? (then the code's arithmetic on the dyadic test records is exact)"""
    n, d = sr.numerator, sr.denominator
    return n > 0 and (n & (n - 1)) == 0 and (d & (d - 1)) == 0


def _cmp_fixfull(ctx, c, r, m, ts_, ys_, niter):
    """compare one fixtime result `r` with the model's `m`; -> None or (stream, impl, model)"""
    ds = c["delspikes"]
    br = "fixtime-full:%s:%s:%s" % ("auto" if c["sr_opt"] == "auto" else "sr", "spikes" if ds else "nospikes", "base" if c["base"] is not None else "nobase")
    if m["early"] or r["early"]:
        ctx.case(("fixfull", json.dumps(c, sort_keys=True)), nontrivial=True, branch="fixtime-full:only-dropouts")
        if not (m["early"] and r["early"]):
            return ("fixtime-full-early", r["early"], m["early"])
        if not (np.array_equal(r["tn"], ts_) and np.array_equal(r["yn"], ys_, equal_nan=True) and r["dropouts"] == m["dropouts"]):
            return ("fixtime-full-early", {"t": r["tn"].tolist()[:8], "dropouts": r["dropouts"]}, {"dropouts": m["dropouts"]})
        return None
    # statistics and the chosen rate
    st = m["stats"]
    mv = [float(st["max"]), float(st["min"]), float(st["ave"]), float(st["mode"]), float(st["pct"])]
    # branch bookkeeping first (from the MODEL's view of the case), so that a disagreement never hides a declared branch
    ctx.case(("fixfull", json.dumps(c, sort_keys=True)), nontrivial=True, branch=br)
    if c["sr_opt"] == "auto":
        ctx.count("branch:fixtime-auto-" + ("mode" if st["bymode"] else "average"))
        if st["dsr"] != 5:
            ctx.count("branch:fixtime-auto-slow-resolution")
        if m["sr"] != c["sr"]:
            ctx.count("branch:fixtime-auto-rate-differs-from-nominal")
    if c["base"] is not None:
        ctx.count("branch:fixtime-base")
    if isinstance(c.get("dropval"), float) and m["dropouts"]:
        ctx.count("branch:fixtime-dropval-given")
    if c.get("dropval") == "nan":
        ctx.count("branch:fixtime-dropval-not-finite")
    if c.get("kind") == "sigma-tie":
        ctx.count("branch:fixtime-time-exactly-3-sigma")
    if ds:
        ctx.count("branch:fixtime-delspikes-" + _delspikes_params(ds)[0])
        if m["spikes"]:
            ctx.count("branch:fixtime-spikes-removed")
            if len(m["alldrops"]) > len(set(m["spikes"]) | set(m["dropouts"] or []) | set(m["outtimes"] if c["delouttimes"] else [])):
                ctx.count("branch:fixtime-loners-filled")
    if m["warn"][0] or m["warn"][1]:
        ctx.count("branch:fixtime-dt-size-warning")
    sr_impl = None
    if len(r["tn"]) > 1:
        sr_impl = 1.0 / float(np.mean(np.diff(r["tn"])))
    stats_ok = np.allclose(r["sr_stats"], mv, rtol=1e-9, atol=0)
    rate_ok = sr_impl is None or abs(sr_impl - float(m["sr"])) <= 1e-7 * float(m["sr"])
    if not (stats_ok and rate_ok):
        kept = [Fraction(float(ts_[i])) for i in _kept_before_spikes(m)]
        if _sr_near_tie(np.diff([float(x) for x in kept]), st):
            ctx.skip("fixtime: a rounding or comparison of the sample-rate statistics within 1e-9 of a tie")
            return None
        return ("fixtime-full-sr", {"sr_stats": r["sr_stats"], "sr": sr_impl}, {"sr_stats": mv, "sr": float(m["sr"]), "dsr": float(st["dsr"]), "by_mode": st["bymode"]})
    for k in ("dropouts", "outtimes", "spikes", "alldrops"):
        if r[k] != m[k]:
            if ds and k in ("spikes", "alldrops") and not c.get("spike_exact"):
                pm = _delspikes_params(ds)
                if pm[0] != "simple" and ((pm[5] is None and pm[4] == 0) or (pm[5] is not None and pm[5] <= 0)):
                    ctx.skip("despike: no positive threshold, statistics not exact - flat windows are decided by rounding noise")
                    return None
            return ("fixtime-full-" + k, {kk: r[kk] for kk in ("dropouts", "outtimes", "spikes", "alldrops")},
                    {kk: m[kk] for kk in ("dropouts", "outtimes", "spikes", "alldrops")})
    if ds:
        if niter is not None and r["niter"] != niter:
            pm = _delspikes_params(ds)
            if not c.get("spike_exact") and pm[0] != "simple" and ((pm[5] is None and pm[4] == 0) or (pm[5] is not None and pm[5] <= 0)):
                ctx.skip("despike: no positive threshold, statistics not exact - flat windows are decided by rounding noise")
                return None
            return ("fixtime-full-despike-niter", r["niter"], niter)
    if r["tp"] != m["tp"]:
        return ("fixtime-full-tp", r["tp"][:12], m["tp"][:12])
    if [r["warn_small"], r["warn_large"]] != m["warn"]:
        dt = 1 / m["sr"]
        kept = [Fraction(float(ts_[i])) for i in m["keep"]]
        d = [b - a for a, b in zip(kept, kept[1:])]
        lo = Fraction(sum(1 for x in d if x < Fraction(93, 100) * dt), max(1, len(d)))
        hi = Fraction(sum(1 for x in d if x > Fraction(107, 100) * dt), max(1, len(d)))
        edge = any(abs(x - Fraction(93, 100) * dt) < Fraction(1, 10 ** 9) * dt or abs(x - Fraction(107, 100) * dt) < Fraction(1, 10 ** 9) * dt for x in d)
        if edge or lo == Fraction(1, 100) or hi == Fraction(1, 100):
            ctx.skip("fixtime: a time step within rounding of 0.93/1.07 dt (or exactly 1 % of the steps)")
        else:
            return ("fixtime-full-dt-warnings", [r["warn_small"], r["warn_large"]], m["warn"])
    # the time base
    mt = m["tnew"]
    tn = r["tn"]
    dt = 1 / m["sr"]
    if len(mt) != len(tn):
        return ("fixtime-full-tnew", {"len": len(tn)}, {"len": len(mt)})
    den = (mt[0].denominator if mt else 1)
    dyadic = c["base"] is None and all((x.denominator & (x.denominator - 1)) == 0 and x.denominator <= 2 ** 40 for x in (mt[:1] + mt[-1:] + [dt]))
    it = [Fraction(float(x)) for x in tn]
    if dyadic:
        ok = it == mt
        ctx.count("branch:fixtime-full-exact-time-base")
    else:
        tol = Fraction(1, 10 ** 9) * dt * max(1, len(mt))
        ok = all(abs(x - y) <= tol for x, y in zip(it, mt))
    if not ok:
        if c["base"] is not None and mt:
            x = (Fraction(float(c["base"])) - (mt[0] - m["shift"])) * m["sr"]
            if abs((x - math.floor(x)) - Fraction(1, 2)) <= Fraction(1, 10 ** 9) * max(1, abs(x)):
                ctx.skip("fixtime: round((base - t0)*sr) within 1e-9 of a half (sample rate not dyadic)")
                return None
        return ("fixtime-full-tnew", {"tnew": tn.tolist()[:8]}, {"tnew": [float(x) for x in mt[:8]], "sr": float(m["sr"])})
    want = ys_[m["src"]]
    if len(r["yn"]) != len(want) or not np.array_equal(r["yn"], want, equal_nan=True):
        dtd = dt.denominator
        if (dtd & (dtd - 1)) != 0 and _index_near_tie([Fraction(float(ts_[i])) for i in m["keep"]], [x - m["shift"] for x in mt], c["hold"], Fraction(c["tol"]), dt):
            ctx.skip("fixtime: a new time within 1e-9 dt of a nearest/previous-sample tie (sample rate not dyadic)")
            return None
        return ("fixtime-full-data", ["%r" % v for v in r["yn"].tolist()[:16]], ["%r" % v for v in want.tolist()[:16]])
    return None


def _index_near_tie(kept, mt, hold, tol, dt):
    """is some new time (before the `base` shift) within 1e-9*dt of the point where the selected old sample changes?"""
    import bisect

    eps = Fraction(1, 10 ** 9) * dt
    pts = sorted((x - dt * tol) for x in kept) if hold else sorted((a + b) / 2 for a, b in zip(kept, kept[1:]))
    if not pts:
        return False
    for t in mt:
        k = bisect.bisect_left(pts, t)
        for j in (k - 1, k):
            if 0 <= j < len(pts) and abs(pts[j] - t) <= eps:
                return True
    return False


def _kept_before_spikes(m):
    """positions (sorted record) that entered _sr_calcs: everything kept at the end plus the spikes' own positions are not known
    in the sorted numbering when a sort happened; the statistics are re-derived only for the near-tie test"""
    return m["keep"]


# ----- _sr_calcs, _del_loners, exclusive_sgfilter, despike, despike_diff called directly ---------------------------

def _corr_helpers(ctx, drv):
    from pyyeti import dsp

    rng = ctx.rng
    # _sr_calcs ----------------------------------------------------------------------------------------
    cases = [np.diff(np.arange(40) / 8.0), np.diff(np.arange(12) / 0.25), np.array([1.0, 1.0, 4.0]), np.array([0.25] * 19 + [10.0])]
    for _ in range(ctx.pick(500, 4000)):
        kind = rng.choice(["dy", "dec", "slow"])
        n = rng.randint(3, 40)
        if kind == "dy":
            sr = 2 ** rng.choice([0, 1, 2, 3, 4, 5])
            u = GRID // sr
            ts = [k * u for k in range(n)]
            if rng.random() < 0.7:
                ts = [v + rng.randint(-(u // 8), u // 8) for v in ts]
            if rng.random() < 0.5 and len(ts) > 4:
                i = rng.randrange(1, len(ts) - 1)
                del ts[i:i + rng.randint(1, 3)]
            if rng.random() < 0.15 and len(ts) > 3:
                ts[1] = ts[0]                     # two equal times: max_sr = inf
            t = np.array(sorted(ts)) / GRID
        else:
            sr = rng.choice([10, 20, 50, 100, 7, 3, 12.5]) if kind == "dec" else rng.choice([0.5, 0.25, 0.05, 0.2, 1 / 3.0, 0.02])
            t = np.arange(n) / sr
            if rng.random() < 0.6:
                t = np.sort(t + np.array([rng.uniform(-0.1, 0.1) / sr for _ in range(n)]))
            if rng.random() < 0.3:
                t = np.delete(t, rng.randrange(1, n - 1))
        if len(t) >= 3:
            cases.append(np.diff(t))
    rep = drv.ask(["srq " + _qs(d) for d in cases])
    for d, r in zip(cases, rep):
        with warnings.catch_warnings():
            _quiet()
            try:
                with np.errstate(all="ignore"):
                    sr, st = dsp._sr_calcs(d, "auto", False)
                impl = list(st) + [sr]
            except ValueError:
                impl = "raises"
        if impl == "raises" or r == "raises":
            ctx.case(("srq", tuple(d.tolist())), nontrivial=False, branch="sr-calcs:raises")
            if impl != r:
                ctx.disagree("sr-calcs", {"difft": d.tolist()}, impl, r)
            continue
        v = r.split()
        st_m = {"max": float("inf") if v[0] == "inf" else Fraction(v[0]), "min": Fraction(v[1]), "ave": Fraction(v[2]), "mode": Fraction(v[3]),
                "pct": Fraction(v[4]), "dsr": Fraction(v[5]), "bymode": v[6] == "1", "defsr": Fraction(v[7])}
        want = [float(st_m[k]) for k in ("max", "min", "ave", "mode", "pct", "defsr")]
        br = "sr-calcs:" + ("mode" if st_m["bymode"] else "average") + (":dsr5" if st_m["dsr"] == 5 else ":slow")
        ctx.case(("srq", tuple(d.tolist())), nontrivial=True, branch=br)
        if v[0] == "inf":
            ctx.count("branch:sr-calcs-equal-times")
        if not np.allclose(impl, want, rtol=1e-9, atol=0):
            if _sr_near_tie(d, st_m):
                ctx.skip("_sr_calcs: a rounding or comparison within 1e-9 of a tie")
            else:
                ctx.disagree("sr-calcs", {"difft": d.tolist()}, impl, want)
    # _del_loners ----------------------------------------------------------------------------------------
    lc = []
    for _ in range(ctx.pick(600, 5000)):
        ln = rng.randint(3, 40)
        dens = rng.choice([0.1, 0.2, 0.4])
        fl = [rng.random() < dens for _ in range(ln)]
        lc.append((fl, rng.choice([3, 5, 9, 15, 1, 2, 40]), 3))
    rep = drv.ask(["dlo %d %d | %s" % (n, nz, " ".join("1" if b else "0" for b in fl)) for fl, n, nz in lc])
    for (fl, n, nz), r in zip(lc, rep):
        a = np.array(fl, dtype=bool)
        dsp._del_loners(a, n, nz)
        got = " ".join("1" if b else "0" for b in a)
        filled = int(a.sum()) > sum(fl)
        ctx.case(("dlo", tuple(fl), n), nontrivial=filled, branch="del-loners:" + ("filled" if filled else "unchanged"))
        if got != r:
            ctx.disagree("del-loners", {"flags": [int(b) for b in fl], "n": n, "nz": nz}, got, r)
    # exclusive_sgfilter / despike / despike_diff ----------------------------------------------------------
    dc = []
    for _ in range(ctx.pick(350, 2500)):
        exact = rng.random() < 0.5
        n = rng.choice([3, 5, 9] if exact else [3, 5, 9, 4, 7, 15])
        ln = rng.randint(max(6, n + 2), 36)
        x = _gen_spiky(rng, ln, exact)
        xp = rng.choice(["f", "f", "m", "k0", "k1", "k%d" % (n - 1), "l"] + ([] if exact else ["n"]))
        tv = rng.choice([None, 4.0, 2.0, 0.0, 8.0, 3.0, 5.0]) if not exact else rng.choice([4.0, 2.0, 8.0, 3.0, 5.0, 16.0, 0.0])
        dc.append({"x": x, "n": n, "xp": xp, "tv": tv, "ts": float(rng.choice([2, 0, 1])), "sigma": rng.choice([8, 2, 3, 1]),
                   "maxiter": rng.choice([-1, -1, 1, 2, 3, 0]), "exact": exact})
    # the documentation examples
    dc.append({"x": [1.0, 1, 1, 1, 5, 5, 1, 1, 1, 1], "n": 5, "xp": "f", "tv": None, "ts": 2.0, "sigma": 8, "maxiter": -1, "exact": False})
    dc.append({"x": [1.0, 1, 1, 1, 5, 5, 1, 1, 1, 1], "n": 5, "xp": "m", "tv": None, "ts": 2.0, "sigma": 8, "maxiter": -1, "exact": False})
    dc.append({"x": [2.0, 2, 2, 2, 5, 2, 2, 2, 2, 7, 2, 2, 2, 2, 2], "n": 5, "xp": "f", "tv": 4.0, "ts": 2.0, "sigma": 8, "maxiter": -1, "exact": True})
    dc.append({"x": [2.0, 2, 2, 2, 6, 2, 2, 2, 2, 7, 2, 2, 2, 2, 2], "n": 5, "xp": "f", "tv": 4.0, "ts": 2.0, "sigma": 8, "maxiter": -1, "exact": True})
    req = []
    for c in dc:
        for fnm in ("despike", "despike_diff"):
            for eps in (0, _EPS, -_EPS):
                req.append(_despike_requests(fnm, c["n"], c["sigma"], c["maxiter"], c["ts"], c["tv"], c["xp"], c["x"], eps))
        req.append("sgf %d %s | %s" % (c["n"], c["xp"], _qs(c["x"])))
    rep = drv.ask(req)
    for k, c in enumerate(dc):
        x = np.array(c["x"], dtype=float)
        rs = rep[7 * k:7 * k + 7]
        # the moving average itself
        st, d = _guarded(lambda: dsp.exclusive_sgfilter(x.copy(), c["n"], exclude_point=_xp_py(c["xp"])))
        if st == "ok" and rs[6] not in ("raises", "bad-op"):
            md = np.array([float(v) for v in _unq(rs[6])])
            ctx.case(("sgf", tuple(c["x"]), c["n"], c["xp"]), nontrivial=True, branch="sgfilter:" + (c["xp"] if c["xp"][0] != "k" else "index"))
            if not _close(d, md, max(1.0, float(np.abs(x).max()))):
                ctx.disagree("exclusive-sgfilter", {kk: c[kk] for kk in ("x", "n", "xp")}, np.asarray(d).tolist(), md.tolist())
        elif (st == "ok") != (rs[6] not in ("raises", "bad-op")):
            ctx.disagree("exclusive-sgfilter", {kk: c[kk] for kk in ("x", "n", "xp")}, st, rs[6])
        for j, (fnm, fn) in enumerate((("despike", dsp.despike), ("despike_diff", dsp.despike_diff))):
            nom, up, dn = rs[3 * j:3 * j + 3]

            def call():
                with warnings.catch_warnings():
                    _quiet()
                    with np.errstate(all="ignore"):
                        return fn(x.copy(), c["n"], sigma=c["sigma"], maxiter=c["maxiter"], threshold_sigma=c["ts"], threshold_value=c["tv"],
                                  exclude_point=_xp_py(c["xp"]))

            st, s = _guarded(call, 2)
            inp = dict(c, routine=fnm)
            if st == "timeout":
                ctx.count("despike:does-not-terminate")
                if nom != "raises":
                    ctx.disagree(fnm + "-termination", inp, "no result within 2 s", nom)
                else:
                    ctx.skip("despike: does not terminate on this record (the model's fuel runs out as well)")
                continue
            if st == "error" or nom in ("raises", "bad-op"):
                ctx.case((fnm, json.dumps(c, sort_keys=True)), nontrivial=False, branch=fnm + ":raises")
                if not (st == "error" and nom == "raises"):
                    ctx.disagree(fnm + "-raises", inp, st, nom)
                continue
            got = "%s|%d" % (" ".join("1" if b else "0" for b in s.pv), s.niter)
            tie = not (nom == up == dn)
            ctx.case((fnm, json.dumps(c, sort_keys=True)), nontrivial="1" in nom, branch="%s:%s" % (fnm, {"f": "first", "l": "last", "m": "gen", "n": "gen"}.get(
                c["xp"], "first" if c["xp"] == "k0" else "last" if c["xp"] == "k%d" % (c["n"] - 1) else "gen")))
            if tie and not c["exact"]:
                ctx.skip("despike: a decision within 1e-9 of its threshold")
                continue
            if tie:
                ctx.count("branch:despike-exact-tie")
            if c["maxiter"] > 0 and s.niter == c["maxiter"]:
                ctx.count("branch:despike-maxiter-reached")
            if got != nom:
                if not c["exact"] and ((c["tv"] is None and c["ts"] == 0) or (c["tv"] is not None and c["tv"] <= 0)):
                    # no positive threshold and a window that is not 2^k + 1 points: on a flat stretch the code compares rounding
                    # noise with rounding noise (exactly: 0 > 0)
                    ctx.skip("despike: no positive threshold, statistics not exact - flat windows are decided by rounding noise")
                    continue
                ctx.disagree(fnm, inp, got, nom)
            elif not np.array_equal(np.asarray(s.x), x[~np.asarray(s.pv)]):
                ctx.disagree(fnm + "-returned-signal", inp, np.asarray(s.x).tolist(), x[~np.asarray(s.pv)].tolist())


# ----- psdmod's row maximum, resample's storage types ---------------------------------------------------------

def _corr_psdmod_dtypes(ctx, drv):
    from pyyeti import dsp, psd

    rng = ctx.rng
    cases = []
    req = []
    for _ in range(ctx.pick(3, 12)):
        sig = np.random.default_rng(rng.randint(0, 10 ** 6)).normal(size=rng.choice([1200, 2000]))
        sr, nper, ts_ = 400.0, rng.choice([50, 100]), rng.choice([0.5, 1.0])
        f, p, pmap, t = psd.psdmod(sig, sr, nperseg=nper, timeslice=ts_, tsoverlap=0.5, getmap=True)
        cases.append((p, pmap))
        req.append("pmx " + " ; ".join(_bits(row) for row in pmap))
    names = ["int16", "int32", "int64", "uint8", "bool", "list", "float32", "float64"]
    req += ["rdt " + ("float32" if nm == "float32" else "float64" if nm == "float64" else "int") for nm in names]
    rep = drv.ask(req)
    for (p, pmap), r in zip(cases, rep):
        ctx.case(("pmx", pmap.shape, float(p[0])), nontrivial=pmap.shape[1] > 1, branch="psdmod:row-maximum")
        if r in ("raises", "bad-op") or not np.array_equal(_unbits(r), p):
            ctx.disagree("psdmod-row-maximum", {"shape": list(pmap.shape)}, np.asarray(p).tolist()[:6], r[:80])
    nprng = ctx.np_rng(31)
    for nm, r in zip(names, rep[len(cases):]):
        m_mean, m_buf, m_out = r.split()
        nums = nprng.integers(0, 2 if nm == "bool" else 200, size=12)
        typed = [int(v) for v in nums] if nm == "list" else nums.astype(getattr(np, "bool_" if nm == "bool" else nm))
        mean_t = str(np.mean(np.atleast_1d(typed), axis=-1, keepdims=True).dtype)
        ok = True
        for pq in ((3, 1), (1, 2), (3, 2), (1, 1)):
            out, fir = dsp.resample(typed, pq[0], pq[1], pts=3, getfir=True)
            ok = ok and str(out.dtype) == m_out and str(fir.dtype) == "float64"
            ref = dsp.resample(nums.astype(float), pq[0], pq[1], pts=3)
            ok = ok and np.allclose(np.asarray(out, dtype=float), ref, rtol=0, atol=1e-4 if nm == "float32" else 1e-9)
        ctx.case(("rdt", nm), nontrivial=nm != "float64", branch="resample-storage:" + ("int" if m_mean == "float64" and nm not in ("float64",) else nm))
        if not ok or mean_t != m_mean or m_buf != "float64":
            ctx.disagree("resample-storage-types", {"dtype": nm}, {"mean": mean_t}, {"mean": m_mean, "buffer": m_buf, "out": m_out})


# ----- fixtime's time base -----------------------------------------------------------------

def _gen_told_for_tnew(rng):
    """(sr, sorted dyadic told) covering the branches of _mk_initial_tnew / _get_time_shifts"""
    kind = rng.choice(["fixtime", "fixtime", "fixtime", "alternating", "drift", "halfspan", "short"])
    if kind == "fixtime":
        c = _gen_fixtime(rng)
        t = sorted(c["t"])
        return c["sr"], t, "fixtime-" + c["kind"]
    sr = 2 ** rng.choice([0, 1, 2, 3, 4])
    u = GRID // sr
    n = rng.randint(2, 40)
    t0 = rng.randint(-400, 400)
    if kind == "alternating":      # every step is off by half a step: all points are turning points
        steps = [u // 2 if k % 2 else 3 * u // 2 for k in range(n - 1)]
    elif kind == "drift":          # steps 9/8 of nominal: inside the 1/4-step tolerance, lengths mismatch
        steps = [u + u // 8] * (n - 1)
    elif kind == "halfspan":       # (told[-1] - told[0])*sr = k + 1/2: the tie of round()
        steps = [u] * (n - 2) + [u + u // 2] if n > 2 else [u + u // 2]
    else:
        n = rng.randint(2, 4)
        steps = [rng.choice([u, u, 2 * u, u // 4, 5 * u // 4, 3 * u // 4]) for _ in range(n - 1)]
    ts = [t0]
    for st in steps:
        ts.append(ts[-1] + st)
    return sr, [v / GRID for v in ts], kind


def _cmp_tnew(tn, rep, dt):
    """compare a returned time vector with the model's reply; -> (ok, exact?, model dict)"""
    a, b, al, delt, mm = rep.split("|")
    mt = _unq(a)
    m = {"tnew": mt, "tp": [int(x) for x in b.split()], "align": al == "1", "delt": Fraction(delt), "mismatch": mm == "1"}
    den = m["delt"].denominator
    dyadic = den & (den - 1) == 0 and den <= 2 ** 30
    if len(mt) != len(tn):
        return False, dyadic, m
    it = [Fraction(float(x)) for x in tn]
    if dyadic:
        return it == mt, True, m
    tol = Fraction(1, 10 ** 9) * Fraction(dt)
    return all(abs(x - y) <= tol for x, y in zip(it, mt)), False, m


def _corr_tnew(ctx, drv):
    from pyyeti import dsp

    rng = ctx.rng
    cases = [(1, [0.0, 1.0, 5.0, 6.0], "doc"), (1, [0.0, 4.0], "doc"), (8, (np.arange(10) / 8).tolist(), "uniform"),
             (1, [0.0, 2.5], "halfspan"), (1, [0.0, 1.0, 2.0, 3.5], "halfspan"), (2, [0.0, 0.5, 1.0, 1.75], "halfspan")]
    cases += [_gen_told_for_tnew(rng) for _ in range(ctx.pick(1500, 12000))]
    rep = drv.ask(["mkt %s | %s" % (_q(sr), _qs(t)) for sr, t, _ in cases])
    for (sr, t, kind), r in zip(cases, rep):
        told = np.array(t, dtype=float)
        dt = 1 / sr
        inp = {"sr": sr, "told": t}
        try:
            with warnings.catch_warnings():
                _quiet()
                tn, tp = dsp._mk_initial_tnew(told.copy(), sr, dt, np.diff(told))
            impl = "ok"
        except (ValueError, IndexError) as e_:
            impl = "raises"
        if impl == "raises" or r == "raises":
            ctx.case(("tnew", sr, tuple(t)), nontrivial=False, branch="tnew:raises")
            if impl != r:
                ctx.disagree("mk-initial-tnew", inp, impl, r)
            continue
        ok, exact, m = _cmp_tnew(tn, r, dt)
        span = Fraction(t[-1]) - Fraction(t[0])
        half = (span * sr) % 1 == Fraction(1, 2)
        br = "no-align" if not m["align"] else "align-length-mismatch" if m["mismatch"] else "align-mean"
        ctx.case(("tnew", sr, tuple(t)), nontrivial=br != "align-mean" or m["delt"] != 0 or half, branch="tnew:" + br)
        ctx.count("branch:tnew-" + br)
        if half:
            ctx.count("branch:tnew-round-half-tie")
        if exact:
            ctx.count("branch:tnew-exact-compare")
        if m["delt"] != 0:
            ctx.count("branch:tnew-shifted")
        if not ok or [int(i) for i in tp] != m["tp"]:
            ctx.disagree("mk-initial-tnew", inp, {"tnew": np.asarray(tn).tolist()[:10], "len": len(tn), "tp": [int(i) for i in tp][:12]},
                         {"tnew": [float(x) for x in m["tnew"][:10]], "len": len(m["tnew"]), "tp": m["tp"][:12], "delt": str(m["delt"])})


# ----- band edges (rescale._get_fl_fu and the input-scale test) -------------------------------

def _corr_edges(ctx, drv):
    if _EDGE_SRC is None:
        ctx.skip("rescale's edge code was not found in the source text (translator obligation is broken)")
        return False
    get_fl_fu, in_edges = _EDGE_SRC
    rng = ctx.rng
    nprng = ctx.np_rng(29)
    cases = [([0.0, 5.0, 10.0], "lin"), ([1.0, 2.0, 4.0, 8.0], "log"), ([1.0, 2.0, 3.0 + 3e-13], "nearlin"),
             ([1.0, 2.0, 3.0 + 1e-9], "nearlin"), ([1.0, 2.0], "lin")]
    for _ in range(ctx.pick(600, 5000)):
        kind = rng.choice(["lin", "lintol", "nearlin", "nearlin", "log"])
        cases.append((_gen_scale(rng, nprng, kind), kind))
    req = []
    for c, kind in cases:
        req += ["edges " + _bits(c), "inedges " + _bits(c), "edgesq " + _qs(c), "inedgesq " + _qs(c)]
    rep = drv.ask(req)
    for k, (c, kind) in enumerate(cases):
        arr = np.array(c, dtype=float)
        with np.errstate(all="ignore"):
            FL, FU = get_fl_fu(arr.copy())
            FLi, FUi = in_edges(arr.copy())
        dev = _lin_dev(c)
        zone = "exact" if dev == 0 else "below-tol" if dev < 1e-12 else "above-tol"
        ctx.case(("edges", tuple(c)), nontrivial=zone != "exact", branch="edges:" + zone)
        if kind == "nearlin" and zone != "exact":
            ctx.count("branch:edges-nearlin-" + zone)
        inp = {"centres": c}
        for nm, (a, b), r in (("edges-get-fl-fu", (FL, FU), rep[4 * k]), ("edges-input-scale", (FLi, FUi), rep[4 * k + 1])):
            ml, mu, flag = r.split("|")
            ml, mu = _unbits(ml), _unbits(mu)
            lin = flag == "1"
            scale = float(np.max(np.abs(arr))) + 1.0
            good = (np.array_equal(a, ml) and np.array_equal(b, mu)) if lin else (_close(a, ml, scale) and _close(b, mu, scale))
            if not good:
                ctx.disagree(nm, inp, {"FL": np.asarray(a).tolist(), "FU": np.asarray(b).tolist()}, {"FL": ml.tolist(), "FU": mu.tolist(), "linear": lin})
            ctx.count("branch:%s-%s" % (nm, "linear" if lin else "log"))
        for nm, (a, b), r in (("edges-get-fl-fu-rational", (FL, FU), rep[4 * k + 2]), ("edges-input-scale-rational", (FLi, FUi), rep[4 * k + 3])):
            if r == "nonlinear" or zone != "exact":
                continue
            ml, mu = r.split("|")
            if [Fraction(float(x)) for x in a] != _unq(ml) or [Fraction(float(x)) for x in b] != _unq(mu):
                # exact only when the float arithmetic was exact: dyadic centres
                if all(Fraction(x).denominator <= 2 ** 20 for x in c):
                    ctx.disagree(nm, inp, {"FL": np.asarray(a).tolist(), "FU": np.asarray(b).tolist()}, {"FL": ml, "FU": mu})
            else:
                ctx.count("branch:edges-exact-rational")
    return True


# ----- get_freq_oct ----------------------------------------------------------------------------

def _gen_oct(rng):
    n = rng.choice([1, 3, 6, 12, 2, 24])
    s = rng.choice([0.0, -1.0, 0.8, 1.0, 5.0, 20.0, 505.0, 10 ** rng.uniform(-1, 3)])
    e = max(s, 1.0) * rng.choice([1.0, 1.01, 1.3, 2.0, 10.0, 100.0, 10 ** rng.uniform(0, 2.5)])
    return {"n": n, "s": s, "e": e, "exact": rng.random() < 0.5, "trim": rng.choice(["outside", "center", "inside", "band"]),
            "anchor": rng.choice([None, None, 2.0, 100.0, 0.5])}


def _oct_near_tie(c):
    """is a trimming decision or the band count within rounding of a tie? (then log2/pow kernels decide)"""
    n, ex = c["n"], c["exact"]
    a = c["anchor"] or (1000.0 if ex else 1.0)
    s = c["s"] if c["s"] > 0 else 1.0
    step = math.log(2.0) / n if ex else math.log(10.0) * 3 / (10 * n)
    for v in (s, c["e"]):
        x = math.log(v / a) / step          # position in bands; centres at integers, edges at half-integers
        for y in (x, x * 2):
            if abs(y - round(y)) < 1e-9 * max(1.0, abs(y)):
                return True
    return False


def _corr_oct(ctx, drv):
    from pyyeti import psd

    rng = ctx.rng
    cases = [{"n": 3, "s": 505.0, "e": 900.0, "exact": False, "trim": "outside", "anchor": None},
             {"n": 3, "s": 505.0, "e": 900.0, "exact": False, "trim": "center", "anchor": None},
             {"n": 3, "s": 505.0, "e": 900.0, "exact": True, "trim": "outside", "anchor": None},
             {"n": 6, "s": 0.8, "e": 2.6, "exact": True, "trim": "outside", "anchor": 2.0}]
    cases += [_gen_oct(rng) for _ in range(ctx.pick(500, 4000))]
    req = []
    for c in cases:
        args = [float(c["n"]), c["s"], c["e"]] + ([c["anchor"]] if c["anchor"] is not None else [])
        req.append("oct %d %s | %s" % (c["exact"], {"outside": "o", "band": "o", "center": "c", "inside": "i"}[c["trim"]], _bits(args)))
    rep = drv.ask(req)
    for c, r in zip(cases, rep):
        try:
            with np.errstate(all="ignore"):
                F, FL, FU = psd.get_freq_oct(c["n"], (c["s"], c["e"]), exact=c["exact"], trim=c["trim"], anchor=c["anchor"])
            impl = "ok"
        except ValueError:
            impl = "value-error"
        tie = _oct_near_tie(c)
        br = "oct:%s:%s" % ("exact" if c["exact"] else "approx", "outside" if c["trim"] == "band" else c["trim"])
        if impl != "ok" or r == "value-error":
            ctx.case(("oct", json.dumps(c, sort_keys=True)), nontrivial=False, branch="oct:value-error")
            if impl != r and not tie:
                ctx.disagree("get-freq-oct", c, impl, r[:60])
            continue
        a, b, d = [_unbits(x) for x in r.split("|")]
        if len(a) != len(F):
            if tie:
                ctx.skip("get_freq_oct: a trimming decision within rounding of a tie")
            else:
                ctx.disagree("get-freq-oct", c, {"len": len(F), "F": F.tolist()[:6]}, {"len": len(a), "F": a.tolist()[:6]})
            continue
        ctx.case(("oct", json.dumps(c, sort_keys=True)), nontrivial=True, branch=br)
        if c["anchor"] is not None:
            ctx.count("branch:oct-anchor-given")
        if c["s"] <= 0:
            ctx.count("branch:oct-frange0-nonpositive")
        sc = float(np.max(F)) if len(F) else 1.0
        if not (_close(F / sc, a / sc, 1.0) and _close(FL / sc, b / sc, 1.0) and _close(FU / sc, d / sc, 1.0)):
            if tie and not _close(F / sc, a / sc, 1.0):
                ctx.skip("get_freq_oct: a trimming decision within rounding of a tie")
                continue
            ctx.disagree("get-freq-oct", c, {"F": F.tolist()[:6], "FL": FL.tolist()[:6], "FU": FU.tolist()[:6]},
                         {"F": a.tolist()[:6], "FL": b.tolist()[:6], "FU": d.tolist()[:6]})


def correspondence(ctx):
    drv = ctx.driver("C19")
    _corr_index_rules(ctx, drv)
    _corr_fixtime(ctx, drv)
    _corr_fixfull(ctx, drv)
    _corr_helpers(ctx, drv)
    _corr_psdmod_dtypes(ctx, drv)
    _corr_tnew(ctx, drv)
    _corr_resample(ctx, drv)
    _corr_psd(ctx, drv)
    have_edges = _corr_edges(ctx, drv)
    _corr_rescale(ctx, drv)
    _corr_oct(ctx, drv)
    ctx.exhaustive = False
    if ctx.disagreements:
        return      # already broken: a disagreement can keep a case from reaching the place where its branch is counted
    ctx.require_branches(([
        "branch:edges-nearlin-below-tol", "branch:edges-nearlin-above-tol", "branch:edges-get-fl-fu-linear",
        "branch:edges-get-fl-fu-log", "branch:edges-input-scale-linear", "branch:edges-input-scale-log",
        "branch:edges-exact-rational", "edges:exact", "edges:below-tol", "edges:above-tol",
    ] if have_edges else []) + [
        "fixtime-full:auto:nospikes:nobase", "fixtime-full:auto:spikes:base", "fixtime-full:sr:spikes:nobase", "fixtime-full:sr:nospikes:base",
        "fixtime-full:only-dropouts", "fixtime-full:raises", "psdmod:row-maximum", "resample-storage:int", "resample-storage:float32",
        "branch:fixtime-auto-average", "branch:fixtime-auto-mode", "branch:fixtime-auto-rate-differs-from-nominal",
        "branch:fixtime-auto-slow-resolution", "branch:fixtime-base", "branch:fixtime-delspikes-despike",
        "branch:fixtime-delspikes-despike_diff", "branch:fixtime-delspikes-simple", "branch:fixtime-dropval-given",
        "branch:fixtime-dropval-not-finite", "branch:fixtime-dt-size-warning", "branch:fixtime-full-exact-time-base",
        "branch:fixtime-loners-filled", "branch:fixtime-spikes-removed", "branch:fixtime-time-exactly-3-sigma",
        "branch:despike-exact-tie", "branch:despike-maxiter-reached", "branch:sr-calcs-equal-times",
        "del-loners:filled", "del-loners:unchanged", "despike:first", "despike:gen", "despike:last", "despike_diff:first",
        "despike_diff:last", "despike_diff:raises", "sgfilter:f", "sgfilter:m", "sgfilter:l", "sgfilter:n", "sgfilter:index",
        "sr-calcs:average:dsr5", "sr-calcs:average:slow", "sr-calcs:mode:dsr5", "sr-calcs:mode:slow",
        "branch:tnew-no-align", "branch:tnew-align-length-mismatch", "branch:tnew-align-mean", "branch:tnew-round-half-tie",
        "branch:tnew-exact-compare", "branch:tnew-shifted", "branch:fixtime-tnew-end-to-end",
        "branch:fixtime-outlier-time", "branch:fixtime-dropout-and-outlier-time", "branch:fixtime-dropval-dropout",
        "branch:resample-upsample-q1", "branch:resample-constant-input", "branch:resample-integer-dtype-upsampled",
        "branch:resample-dtype-float32", "branch:resample-dtype-list",
        "branch:rescale-nearlin-below-tol", "branch:rescale-nearlin-above-tol",
        "oct:exact:outside", "oct:exact:center", "oct:exact:inside", "oct:approx:outside", "oct:approx:center",
        "oct:approx:inside", "oct:value-error", "branch:oct-anchor-given", "branch:oct-frange0-nonpositive",
        "branch:index-tie", "branch:index-out-of-range", "branch:index-duplicate-times",
        "branch:closest-wraps-to-minus-one", "branch:numba-for-else-zeros",
        "branch:fixtime-previous-tol0", "branch:resample-p>1-and-q>1", "branch:resample-tnew-noninteger-length",
        "branch:area-slope:-1", "branch:area-slope:inside-1e-8-band", "branch:area-slope:between-1e-8-and-1e-5",
        "branch:area-slope:near-1-outside-band",
        "branch:rescale-first-band-straddles-input-edge", "branch:rescale-last-band-straddles-input-edge",
        "branch:rescale-trimmed", "rescale-exact-rational-cases",
        "rescale:in-lin:out-lin:ext-1", "rescale:in-lin:out-log:ext-1", "rescale:in-log:out-lin:ext-0",
        "rescale:in-log:out-log:ext-1", "rescale:in-lintol:out-lin:ext-0",
    ])


# ---------------------------------------------------------------------------------------
# model-free oracle

def _or_fixtime(ctx, c):
    """fixtime: exactly uniform time base; every sample is the nearest / previous input sample;
    already-uniform data unchanged."""
    r = _run_fixtime(c)
    if isinstance(r[0], str):
        return
    tn, yn, drops = r
    if drops is None:
        return
    # the valid input samples, by brute force: neither drop-outs nor times more than 3 sigma from the mean
    tc, yc, ref, tie = _clean_ref(c)
    if len(tc) == 0 or tie:
        return
    dt = 1.0 / c["sr"]
    inp = dict(c)
    if drops != ref:
        both = bool(ref["dropouts"]) and bool(ref["outtimes"])
        ctx.fail("fixtime-alldrops-bookkeeping" + ("-dropout-and-outlier-time" if both else ""),
                 "fixinfo.alldrops does not list the drop-outs / the times more than 3 sigma from the mean / their union "
                 "as positions in the record as given", inp, drops, ref)
        return
    k = np.arange(len(tn))
    if len(tn) != len(yn) or not np.all(np.abs((tn - tn[0]) - k * dt) <= 1e-9 * dt):
        ctx.fail("fixtime-nonuniform-time-base", "fixtime's time vector is not tnew[0] + k/sr", inp, tn.tolist()[:12], "uniform, step %r" % dt)
        return
    # the documented span rule: round((t_end - t_0) * sr) + 1 points (Python's round: halves to even)
    L = int(round(float((tc[-1] - tc[0]) * c["sr"]))) + 1
    if len(tn) != L:
        half = ((Fraction(float(tc[-1])) - Fraction(float(tc[0]))) * c["sr"]) % 1 == Fraction(1, 2)
        ctx.fail("fixtime-time-base-length" + ("-half-step-tie" if half else ""),
                 "fixtime's uniform time vector does not have round((t_end - t_0)*sr) + 1 points", inp, len(tn), L)
        return
    # the expected sample for every new time, by brute force over the cleaned input
    want = []
    for t in tn:
        if c["hold"]:
            ok = np.nonzero(tc - dt * c["tol"] <= t)[0]
            want.append(yc[ok[-1]] if len(ok) else yc[0])
        else:
            d = np.abs(tc - t)
            cand = np.nonzero(d == d.min())[0]
            tmin = tc[cand].min()  # ties go to the earlier time
            cand = [i for i in cand if tc[i] == tmin]
            # several samples at that same time: any of them is "the nearest"
            want.append([yc[i] for i in cand])
    bad = None
    for j, (g, w) in enumerate(zip(yn, want)):
        if isinstance(w, list):
            if not any((g == x) or (g != g and x != x) for x in w):
                bad = (j, g, w)
                break
        elif not (g == w or (g != g and w != w)):
            bad = (j, g, w)
            break
    uniform = len(tc) >= 2 and np.all(np.diff(tc) == dt)
    if bad is not None:
        if c["hold"]:
            tie = bool(np.any(tc - dt * c["tol"] == tn[bad[0]]))
            fam = "fixtime-previous-value-tie" if tie else "fixtime-previous-value"
            what = ("fixtime(hold_previous_value=True) does not return the last input sample with time <= t"
                    + (" (new time equal to an old time)" if tie else ""))
        else:
            d = np.abs(tc - tn[bad[0]])
            tie = int(np.sum(d == d.min())) > 1
            fam = "fixtime-nearest-tie" if tie else "fixtime-nearest"
            what = "fixtime does not return the input sample nearest in time" + (" (tie: the earlier sample is documented)" if tie else "")
        ctx.fail(fam, what, inp, {"j": bad[0], "t": float(tn[bad[0]]), "got": "%r" % bad[1]}, {"want": ["%r" % v for v in np.atleast_1d(bad[2])]})
        return
    if uniform and (not c["hold"] or c["tol"] < 1.0):
        if len(tn) != len(tc) or not np.array_equal(tn, tc) or not np.array_equal(yn, yc, equal_nan=True):
            ctx.fail("fixtime-uniform-changed", "already-uniform data is not returned unchanged", inp,
                     {"t": tn.tolist()[:12], "y": ["%r" % v for v in yn.tolist()[:12]]}, {"t": tc.tolist()[:12], "y": ["%r" % v for v in yc.tolist()[:12]]})


def _or_spec(ctx, spec):
    from pyyeti import psd
    from scipy.integrate import quad

    arr = np.array(spec)
    inp = {"spec": spec}
    with np.errstate(all="ignore"):
        a = float(psd.area(arr)[0])
    sl = _slopes(spec)
    ref = 0.0
    for ((f1, p1), (f2, p2)), s in zip(zip(spec, spec[1:]), sl):
        v, _ = quad(lambda u: p1 * math.exp((s + 1) * u) * f1, 0.0, math.log(f2 / f1), epsabs=0, epsrel=1e-13, limit=200)
        ref += v
    # the repaired code (threshold 1e-8) is within ~3.5e-8 of the integral inside its band and
    # within a few ulp/|s+1| outside; the former 1e-5 threshold was off by up to 3e-5
    rtol = _area_rtol(spec, base=1e-9, c=4e-15)
    if any(0 < abs(s + 1) < 1e-8 for s in sl):
        rtol += 1e-7
    if not abs(a - ref) <= rtol * abs(ref):
        near = [s for s in sl if 0 < abs(s + 1) < 1e-5]
        if near and abs(a - ref) <= 1e-4 * abs(ref):
            ctx.fail("area-slope-within-1e-5-of-minus-one",
                     "psd.area uses p1*f1*log(f2/f1) for a slope that is near but not equal to -1: relative error |s+1|*ln(f2/f1)/2",
                     inp, a, ref)
        else:
            fam = "area-slope-minus-one" if any(abs(s + 1) < 1e-8 for s in sl) else "area-integral"
            ctx.fail(fam, "psd.area differs from the integral of the log-log interpolation", inp, a, ref)
    # ... and against the integral of psd.interp itself (48-point Gauss-Legendre in ln f per segment)
    gx, gw = np.polynomial.legendre.leggauss(48)
    xs, ws = [], []
    for (f1, _), (f2, _) in zip(spec, spec[1:]):
        L = math.log(f2 / f1)
        u = 0.5 * L * (gx + 1.0)
        x = np.clip(f1 * np.exp(u), f1, f2)
        xs.append(x)
        ws.append(0.5 * L * gw * x)
    with np.errstate(all="ignore"):
        vals = psd.interp(arr, np.concatenate(xs)).ravel()
    integ = float(np.sum(vals * np.concatenate(ws)))
    if not abs(a - integ) <= (rtol + 1e-10) * abs(integ):
        if not any(0 < abs(s_ + 1) < 1e-5 for s_ in sl) or abs(a - integ) > 1e-4 * abs(integ):
            ctx.fail("area-vs-integral-of-interp", "psd.area differs from the numerical integral of psd.interp(spec, f) over the specification's range",
                     inp, a, integ)
    if len(spec) > 2:
        k = len(spec) // 2
        with np.errstate(all="ignore"):
            a1 = float(psd.area(arr[:k + 1])[0])
            a2 = float(psd.area(arr[k:])[0])
        if not abs(a - (a1 + a2)) <= 1e-12 * (abs(a1) + abs(a2)):
            ctx.fail("area-additivity", "area(spec) != area(spec[:k+1]) + area(spec[k:])", dict(inp, k=k), a, a1 + a2)
        # two PSD columns at once
        with np.errstate(all="ignore"):
            a12 = psd.area(np.column_stack([arr, arr[::-1, 1]]))
            ar = float(psd.area(np.column_stack([arr[:, 0], arr[::-1, 1]]))[0])
        if not (a12[0] == a and a12[1] == ar):
            ctx.fail("area-columns", "area of a two-column specification differs from the single-column areas", inp, a12.tolist(), [a, ar])
    for lin in (False, True):
        with np.errstate(all="ignore"):
            v = psd.interp(arr, arr[:, 0], linear=lin).ravel()
            out = psd.interp(arr, [arr[0, 0] * 0.5, arr[-1, 0] * 1.5], linear=lin).ravel()
        if not np.all(np.abs(v - arr[:, 1]) <= 1e-12 * arr[:, 1]):
            ctx.fail("interp-breakpoints-" + ("linear" if lin else "log"), "interp does not reproduce the specification at its own frequencies",
                     dict(inp, linear=lin), v.tolist(), arr[:, 1].tolist())
        if not np.all(out == 0):
            ctx.fail("interp-outside", "interp is not zero outside the specification", dict(inp, linear=lin), out.tolist(), [0, 0])
    # interior points follow the constant-dB/octave law
    (f1, p1), (f2, p2) = spec[0], spec[1]
    x = math.sqrt(f1 * f2)
    with np.errstate(all="ignore"):
        v = float(psd.interp(arr, [x]).ravel()[0])
    if not abs(v - math.sqrt(p1 * p2)) <= 1e-10 * math.sqrt(p1 * p2):
        ctx.fail("interp-loglog", "interp at the geometric mean of two break points is not the geometric mean of the PSD values", inp, v, math.sqrt(p1 * p2))


def _overlap_integral(FLin, FUin, P, a, b):
    return float(np.sum(P * np.maximum(0.0, np.minimum(b, FUin) - np.maximum(a, FLin))))


def _or_rescale(ctx, c):
    from pyyeti import psd

    P, F, freq = np.array(c["P"]), np.array(c["F"]), np.array(c["freq"])
    try:
        with np.errstate(all="ignore"):
            po, fo, msv, ms = psd.rescale(P, F, freq=freq, extendends=c["ext"])
    except (ValueError, IndexError):
        return
    d = np.diff(F)
    FLin, FUin = (F - d[0] / 2, F + d[0] / 2) if np.all(d == d[0]) else _edges_ref(F)
    oL, oU = _edges_ref(freq)
    sel = [i for i in range(len(freq)) if freq[i] in set(fo.tolist())]
    if len(sel) != len(fo) or len(fo) == 0:
        return
    oL, oU = oL[sel], oU[sel]
    total = float(np.sum(P * (FUin - FLin)))
    inp = {kk: c[kk] for kk in ("P", "F", "freq", "ext")}
    fam_base = "rescale"
    for i in range(len(fo)):
        a, b = oL[i], oU[i]
        inside = a >= FLin[0] and b <= FUin[-1]
        cov_a, cov_b = max(a, FLin[0]), min(b, FUin[-1])
        if cov_b - cov_a <= 1e-6 * (b - a):
            continue
        integral = _overlap_integral(FLin, FUin, P, a, b)
        if inside or not c["ext"]:
            want_ms, want_psd = integral, integral / (b - a)
            fam = fam_base + ("-inside-band" if inside else "-end-band-extendends-off")
        else:
            want_psd = integral / (cov_b - cov_a)
            want_ms = want_psd * (b - a)
            fam = fam_base + "-end-band-extendends-on"
        tol = 1e-9 * total * max(1.0, (b - a) / (cov_b - cov_a))
        if not (abs(ms[i] - want_ms) <= tol and abs(po[i] - want_psd) <= tol / (cov_b - cov_a)):
            ctx.fail(fam, "rescale does not preserve the mean-square content of an output band "
                          "(band mean-square != integral of the piecewise-constant input PSD over the band)",
                     dict(inp, band=i, edges=[float(a), float(b)]), {"ms": float(ms[i]), "psd": float(po[i])}, {"ms": want_ms, "psd": want_psd})
            return
    if not abs(msv - float(np.sum(ms))) <= 1e-12 * max(abs(msv), 1e-300) * len(ms):
        ctx.fail(fam_base + "-msv", "msv is not the sum of the band mean-squares", inp, float(msv), float(np.sum(ms)))
    if not c["ext"] and oL[0] <= FLin[0] and oU[-1] >= FUin[-1] and len(fo) == len(freq):
        if not abs(msv - total) <= 1e-9 * total:
            ctx.fail(fam_base + "-total", "output bands cover the input range but the total mean-square is not conserved", inp, float(msv), total)


def _gen_rescale_oct(rng, nprng):
    kin = rng.choice(["lin", "log"])
    F = np.array(_gen_scale(rng, nprng, kin, n=rng.randint(10, 60)))
    if F[-1] < 3:
        F = F + 2.0
    P = [float(Fraction(rng.randint(1, 64), 8)) for _ in F]
    return {"P": P, "F": F.tolist(), "n_oct": rng.choice([1, 3, 6, 12]), "ext": rng.random() < 0.5}


def _or_rescale_oct(ctx, c):
    from pyyeti import psd

    P, F, n_oct, ext = np.array(c["P"]), np.array(c["F"]), c["n_oct"], c["ext"]
    with np.errstate(all="ignore"):
        po, fo, msv, ms = psd.rescale(P, F, n_oct=n_oct, extendends=ext)
    d = np.diff(F)
    FLin, FUin = (F - d[0] / 2, F + d[0] / 2) if np.all(d == d[0]) else _edges_ref(F)
    fac = 2.0 ** (1.0 / (2 * n_oct))
    inp = {"P": P.tolist(), "F": F.tolist(), "n_oct": n_oct, "ext": ext}
    # exact octave scale anchored at 1000 Hz
    kk = np.log2(fo / 1000.0) * n_oct
    if not (np.all(np.abs(kk - np.round(kk)) < 1e-9) and np.all(np.abs(np.diff(np.round(kk)) - 1) == 0)):
        ctx.fail("get-freq-oct-scale", "rescale(n_oct=) centre frequencies are not consecutive 1000*2^(k/n)", inp, fo.tolist()[:8], "1000*2**(k/n)")
        return
    total = float(np.sum(P * (FUin - FLin)))
    for i in range(len(fo)):
        a, b = fo[i] / fac, fo[i] * fac
        if a >= FLin[0] and b <= FUin[-1]:
            want = _overlap_integral(FLin, FUin, P, a, b)
            if not (abs(ms[i] - want) <= 1e-9 * total and abs(po[i] - want / (b - a)) <= 1e-9 * total / (b - a)):
                ctx.fail("rescale-n_oct-inside-band", "rescale(n_oct=) does not preserve the mean-square of an interior band",
                         dict(inp, band=i), {"ms": float(ms[i])}, {"ms": want})
                return
    ctx.count("oracle:rescale-n_oct")


def _or_oct(ctx, c):
    """get_freq_oct as documented: FU/FL = 2^(1/n) (10^(3/(10n))), F = sqrt(FL*FU), contiguous bands on the anchored
    grid, and the three trimming rules"""
    from pyyeti import psd

    n, ex, tr = c["n"], c["exact"], c["trim"]
    try:
        with np.errstate(all="ignore"):
            F, FL, FU = psd.get_freq_oct(n, (c["s"], c["e"]), exact=ex, trim=tr, anchor=c["anchor"])
    except ValueError:
        return
    if len(F) == 0:
        return
    R = 2.0 ** (1.0 / n) if ex else 10.0 ** (3.0 / (10 * n))
    a = c["anchor"] or (1000.0 if ex else 1.0)
    s = c["s"] if c["s"] > 0 else 1.0
    e = c["e"]
    rt = 1e-11

    def rel(x, y):
        return np.all(np.abs(np.asarray(x) - np.asarray(y)) <= rt * np.abs(np.asarray(y)))

    obs = {"F": F.tolist()[:4], "FL": FL.tolist()[:4], "FU": FU.tolist()[:4], "len": len(F)}
    if not rel(FU / FL, R):
        ctx.fail("get-freq-oct-band-ratio", "get_freq_oct: FU/FL is not 2^(1/n) (exact) / 10^(3/(10n))", c, obs, R)
        return
    if not rel(F * F, FL * FU):
        ctx.fail("get-freq-oct-centre-not-geometric-mean", "get_freq_oct: F is not sqrt(FL*FU)", c, obs, "F**2 == FL*FU")
        return
    if len(F) > 1 and not (rel(FU[:-1], FL[1:]) and rel(F[1:] / F[:-1], R)):
        ctx.fail("get-freq-oct-bands-not-contiguous", "get_freq_oct: consecutive bands do not share an edge / centres are not a geometric progression", c, obs, R)
        return
    kk = math.log(F[0] / a) / math.log(R)
    if abs(kk - round(kk)) > 1e-7 * max(1.0, abs(kk)):
        ctx.fail("get-freq-oct-anchor", "get_freq_oct: centre frequencies are not anchor * ratio^integer", c, obs, a)
        return
    if _oct_near_tie(c) or s > e:
        return
    g = 1.0 + 1e-9
    if tr in ("outside", "band"):
        ok = FL[0] <= s * g and s <= FU[0] * g and FL[-1] <= e * g and e <= FU[-1] * g
        what = "first band includes frange[0] and last band includes frange[-1]"
    elif tr == "center":
        ok = s <= F[0] * g and F[0] < s * R * g and F[-1] <= e * g and e < F[-1] * R * g
        what = "exactly the centre frequencies inside frange"
    else:
        ok = s <= FL[0] * g and FL[0] < s * R * g and FU[-1] <= e * g and e < FU[-1] * R * g
        what = "exactly the bands lying inside frange"
    if not ok:
        ctx.fail("get-freq-oct-trim-" + ("outside" if tr == "band" else tr), "get_freq_oct(trim=%r) does not return %s" % (tr, what), c,
                 {"first": [float(FL[0]), float(F[0]), float(FU[0])], "last": [float(FL[-1]), float(F[-1]), float(FU[-1])]}, [s, e])
    ctx.count("oracle:get-freq-oct")


def _gen_psd2time(rng):
    f0 = float(rng.choice([5, 10, 20, 35]))
    return {"f0": f0, "f1": f0 * float(rng.choice([1.5, 2, 4, 10])), "ppc": float(rng.choice([3, 4, 10, 2.5])),
            "df": rng.choice([None, f0 / 50, f0 / 7.3, 0.37]), "em": rng.choice(["interp", "rescale"]), "pseed": rng.randint(0, 10 ** 6),
            "lvl": [0.01 * rng.choice([0.5, 1.0, 2.0]), 0.1, 0.03]}


def _or_psd2time(ctx, c):
    """psd2time's conservation claim: the signal's mean-square is sum(PSD(f) * df) over its sinusoids; sr, N, time base"""
    from pyyeti import psd

    f0, f1, ppc, df = c["f0"], c["f1"], c["ppc"], c["df"]
    spec = np.array([[f0 * 0.5, c["lvl"][0]], [f0 * 1.3, c["lvl"][1]], [f1 * 2, c["lvl"][2]]])
    with warnings.catch_warnings():
        _quiet()
        sig, sr, t = psd.psd2time(spec, f0, f1, ppc=ppc, df=df, gettime=True, expand_method=c["em"], rng=np.random.default_rng(c["pseed"]))
    d = f0 / 100 if df is None else min(df, f0)
    N = int(np.ceil(f1 * ppc * (1 / d)))
    d = f1 * ppc / N
    d = f0 / np.floor(f0 / d)
    freq = np.arange(f0, f1 + d, d)
    with np.errstate(all="ignore"):
        lvl = psd.interp(spec, freq).ravel() if c["em"] == "interp" else psd.rescale(spec[:, 1], spec[:, 0], freq=freq)[0]
    want = float(np.sum(lvl * d))
    got = float(np.mean(sig ** 2))
    if len(sig) != N or abs(sr - N * d) > 1e-9 * sr or not np.allclose(t, np.arange(N) / sr, rtol=1e-12, atol=0):
        ctx.fail("psd2time-length-or-rate", "psd2time: number of points / sample rate / time vector differ from the documented N, N*df, arange(N)/sr",
                 c, [len(sig), float(sr)], [N, N * d])
    elif not abs(got - want) <= 1e-9 * want:
        ctx.fail("psd2time-mean-square", "psd2time: mean-square of the signal is not sum(PSD(f)*df) over its frequencies", c, got, want)
    ctx.count("oracle:psd2time")


def _or_psdmod(ctx, c):
    """psdmod = maximum over the time slices of Welch PSDs; one slice covering the signal = Welch itself"""
    from pyyeti import psd
    import scipy.signal as signal

    sig = np.random.default_rng(c["mseed"]).normal(size=c["len"])
    sr, nper = c["sr"], c["nperseg"]
    f, p = psd.psdmod(sig, sr, nperseg=nper, timeslice=c["len"] / sr, tsoverlap=0.5)
    f2, p2 = signal.welch(sig, sr, nperseg=nper)
    if not (np.array_equal(f, f2) and np.allclose(p, p2, rtol=1e-12, atol=0)):
        ctx.fail("psdmod-whole-signal-differs-from-welch", "psdmod with one time slice covering the signal differs from scipy.signal.welch", c,
                 p.tolist()[:4], p2.tolist()[:4])
        return
    f, p, pm, t = psd.psdmod(sig, sr, nperseg=nper, timeslice=c["slice"], tsoverlap=0.5, getmap=True)
    if not np.array_equal(p, pm.max(axis=1)):
        ctx.fail("psdmod-not-max-of-map", "psdmod is not the maximum over the columns of its PSD map", c, p.tolist()[:4], pm.max(axis=1).tolist()[:4])
    ctx.count("oracle:psdmod")


def _or_nanspec(ctx, spec, row):
    """proc_psd_spec: rows whose frequency is NaN are deleted (area and interp are unchanged by them)"""
    from pyyeti import psd

    arr = np.array(spec)
    dirty = np.insert(arr, row, [np.nan, 7.0], axis=0)
    x = np.sqrt(arr[:-1, 0] * arr[1:, 0])
    with np.errstate(all="ignore"):
        a, b = psd.area(arr), psd.area(dirty)
        i1, i2 = psd.interp(arr, x), psd.interp(dirty, x)
    if not (np.array_equal(a, b) and np.array_equal(i1, i2)):
        ctx.fail("spec-nan-frequency-row", "a specification row with NaN frequency is not ignored by area/interp", {"spec": spec, "nanrow": row},
                 [b.tolist(), i2.ravel().tolist()[:4]], [a.tolist(), i1.ravel().tolist()[:4]])
    ctx.count("oracle:spec-nan-row")


def _or_spec_float32(ctx, spec):
    """a specification stored in single precision: area and interp must agree with the same numbers as float64 to single
    precision; -> True if a failure was reported"""
    from pyyeti import psd

    a64 = np.array(spec, dtype=np.float64)
    a32 = a64.astype(np.float32)
    if not np.array_equal(a32.astype(np.float64), a64):
        return False
    x = np.sqrt(a64[:-1, 0] * a64[1:, 0])
    with np.errstate(all="ignore"):
        ar32, ar64 = psd.area(a32), psd.area(a64)
        i32, i64 = np.asarray(psd.interp(a32, x.astype(np.float32))).ravel(), psd.interp(a64, x).ravel()
    if not np.allclose(ar32, ar64, rtol=1e-5, atol=0):
        near = any(abs(sl + 1) < 1e-5 for sl in _slopes([tuple(r) for r in a64.tolist()]))
        ctx.fail("area-float32-slope-minus-one" if near else "psd-spec-dtype",
                 "psd.area of a specification stored as float32 differs from the area of the same numbers as float64"
                 + (" (a -3 dB/octave segment whose computed slope misses the 1e-8 test in single precision contributes (f2*p2 - f1*p1)/(s+1) = 0)"
                    if near else ""), {"spec32": [list(r) for r in a64.tolist()]}, np.asarray(ar32, dtype=float).tolist(), ar64.tolist())
        return True
    if not np.allclose(i32, i64, rtol=1e-4, atol=0):
        ctx.fail("psd-spec-dtype", "psd.interp of a specification stored as float32 differs from the same numbers as float64",
                 {"spec32": [list(r) for r in a64.tolist()]}, i32.tolist(), i64.tolist())
        return True
    return False


def _or_dtypes(ctx, inp):
    """storage type of the inputs of fixtime / area / interp / rescale: integer arrays, single precision, Python lists -
    the result must be that of the same numbers as float64"""
    from pyyeti import dsp, psd

    rng = np.random.default_rng(inp["tseed"])
    n = int(rng.integers(8, 40))
    # fixtime: integer time tags (sr = 1) with gaps, integer data
    t = np.cumsum(rng.choice([1, 1, 1, 1, 2, 3], size=n)).astype(np.int64)
    y = rng.integers(0, 250, size=n)
    with warnings.catch_warnings():
        _quiet()
        ref = dsp.fixtime((t.astype(float), y.astype(float)), 1, verbose=False)
        for tt, yy, nm in ((t, y, "int64"), (t.astype(np.int16), y.astype(np.uint8), "int16/uint8"), (t.tolist(), y.tolist(), "list"),
                           (t.astype(np.float32), y.astype(np.float32), "float32"), (t.astype(float), y.astype(np.int32), "float64/int32")):
            got = dsp.fixtime((tt, yy), 1, verbose=False)
            if not (np.array_equal(np.asarray(got[0], dtype=float), ref[0]) and np.array_equal(np.asarray(got[1], dtype=float), ref[1])):
                ctx.fail("fixtime-dtype", "fixtime of a record stored as %s differs from the same record as float64" % nm,
                         dict(inp, dtype=nm, t=t.tolist(), y=y.tolist()), [np.asarray(got[0]).tolist()[:8], np.asarray(got[1]).tolist()[:8]],
                         [ref[0].tolist()[:8], ref[1].tolist()[:8]])
                return
    # area / interp on an integer specification
    m = int(rng.integers(2, 6))
    f = np.cumsum(rng.integers(1, 40, size=m)) + 5
    p = rng.integers(1, 9, size=m)
    spec_i = np.column_stack([f, p])
    x = [float(v) for v in np.sqrt(f[:-1] * f[1:])]
    with np.errstate(all="ignore"):
        a_f = psd.area(spec_i.astype(float))
        i_f = psd.interp(spec_i.astype(float), x).ravel()
        if _or_spec_float32(ctx, spec_i.tolist()):
            return
        for sp, nm in ((spec_i, "int64 array"), (spec_i.astype(np.int32), "int32 array"), ((f.tolist(), p.tolist()), "lists")):
            rt = 1e-12
            a = psd.area(sp)
            i_ = np.asarray(psd.interp(sp, x)).ravel()
            if not (np.allclose(a, a_f, rtol=rt, atol=0) and np.allclose(i_, i_f, rtol=rt, atol=0)):
                ctx.fail("psd-spec-dtype", "area/interp of a specification stored as %s differs from the same numbers as float64" % nm,
                         dict(inp, dtype=nm, spec=spec_i.tolist()), [np.asarray(a).tolist(), i_.tolist()], [a_f.tolist(), i_f.tolist()])
                return
    # rescale with integer centre frequencies / levels
    F = np.arange(1, int(rng.integers(8, 30)))
    P = rng.integers(1, 9, size=len(F))
    freq = np.arange(2, len(F), 2)
    for ext in (True, False):
        with np.errstate(all="ignore"):
            r_f = psd.rescale(P.astype(float), F.astype(float), freq=freq.astype(float), extendends=ext)
            for (PP, FF, fq), nm in (((P, F, freq), "int64 arrays"), ((P.tolist(), F.tolist(), freq.tolist()), "lists"),
                                     ((P.astype(np.int16), F.astype(np.int16), freq.astype(np.int16)), "int16 arrays")):
                r_ = psd.rescale(PP, FF, freq=fq, extendends=ext)
                if not (np.allclose(r_[0], r_f[0], rtol=1e-12, atol=0) and np.allclose(r_[3], r_f[3], rtol=1e-12, atol=0)
                        and abs(r_[2] - r_f[2]) <= 1e-12 * abs(r_f[2])):
                    ctx.fail("rescale-dtype", "rescale of inputs stored as %s differs from the same numbers as float64" % nm,
                             dict(inp, dtype=nm, P=P.tolist(), F=F.tolist(), freq=freq.tolist(), ext=ext),
                             np.asarray(r_[0]).tolist()[:6], np.asarray(r_f[0]).tolist()[:6])
                    return
    ctx.count("oracle:dtypes")


def _gen_resample(rng):
    return {"n": rng.randint(1, 90), "p": rng.randint(1, 9), "q": rng.randint(1, 9), "pts": rng.choice([3, 5, 10, 10, 15]),
            "dseed": rng.randint(0, 10 ** 6), "offset": rng.choice([0.0, 5.0]), "fr": rng.choice([0.01, 0.02, 0.04])}


def _or_resample(ctx, inp):
    from pyyeti import dsp

    p, q, pts, ln = inp["p"], inp["q"], inp["pts"], inp["n"]
    nprng = np.random.default_rng(inp["dseed"])
    want_len = -((-ln * p) // q)
    g = math.gcd(p, q)
    pr, qr = p // g, q // g
    # constants: exactly (the mean is removed and added back); returned positions
    for cval in (3.0, -0.375, float(nprng.normal())):
        data = np.full(ln, cval)
        t = 0.5 + 0.25 * np.arange(float(max(2, ln)))
        out, tn = dsp.resample(data, p, q, pts=pts, t=t)
        if len(out) != want_len or len(tn) != want_len:
            ctx.fail("resample-length", "resample does not return ceil(n*p/q) samples", inp, [len(out), len(tn)], want_len)
            return
        exact = cval in (3.0, -0.375)
        if not (np.all(out == cval) if exact else np.all(np.abs(out - cval) <= 1e-14 * abs(cval))):
            ctx.fail("resample-constant", "a constant signal is not reproduced", dict(inp, value=cval), out.tolist()[:6], cval)
            return
    tn_true = 0.5 + 0.25 * np.arange(want_len) * qr / pr
    if not np.all(np.abs(tn - tn_true) <= 1e-12 * (1.0 + np.abs(tn_true))):
        what = ("resample(..., t=t) does not return positions spaced dt*q/p (n*p/q is not an integer)"
                if (ln * pr) % qr else "resample(..., t=t) returns wrong sample positions")
        ctx.fail("resample-tnew-noninteger-length" if (ln * pr) % qr else "resample-tnew", what, inp,
                {"tnew[:4]": tn.tolist()[:4], "tnew[-1]": float(tn[-1])}, {"tnew[:4]": tn_true.tolist()[:4], "tnew[-1]": float(tn_true[-1])})
    # upsampling keeps the original samples: out[k*p'] = data[k*q'] (reduced p' >= q')
    data = nprng.normal(size=ln) + inp["offset"]
    out = dsp.resample(data, p, q, pts=pts)
    if pr >= qr:
        kept = out[::pr][: len(data[::qr])]
        ref = data[::qr][: len(kept)]
        if not np.all(np.abs(kept - ref) <= 1e-12 * max(1.0, np.abs(data).max())):
            ctx.fail("resample-upsample-keeps-samples", "upsampling does not retain the original samples", dict(inp, data=data.tolist()),
                     kept.tolist()[:8], ref.tolist()[:8])
            return
        ctx.count("oracle:resample-upsample")
    # storage type: integer counts, single precision, lists, 2-D - against the float64 result of the same numbers
    for dtn in _DTYPES:
        typed, nums = _typed_numbers(nprng, ln, dtn)
        tol = (1e-4 if dtn == "float32" else 1e-9) * max(1.0, float(np.abs(nums).max()))
        o_t = np.asarray(dsp.resample(typed, p, q, pts=pts), dtype=float)
        o_f = dsp.resample(nums, p, q, pts=pts)
        bad = o_t.shape != o_f.shape or not np.all(np.abs(o_t - o_f) <= tol)
        if not bad and pr >= qr:
            kept = o_t[::pr][: len(nums[::qr])]
            bad = not np.all(np.abs(kept - nums[::qr][: len(kept)]) <= max(tol, 1e-9 * max(1.0, float(np.abs(nums).max()))))
        if not bad and dtn != "list":
            t2 = np.column_stack([np.asarray(typed), np.asarray(typed)[::-1]])
            o0 = np.asarray(dsp.resample(t2, p, q, pts=pts, axis=0), dtype=float)
            o1 = np.asarray(dsp.resample(t2.T.copy(), p, q, pts=pts, axis=1), dtype=float)
            bad = o0.shape != (want_len, 2) or not np.all(np.abs(o0[:, 0] - o_f) <= tol) or not np.all(np.abs(o1.T - o0) <= tol)
        if bad:
            ctx.fail("resample-dtype-" + ("float32" if dtn == "float32" else "integer"),
                     "resampling numbers stored as %s differs from resampling the same numbers as float64 "
                     "(or does not keep the original samples when upsampling)" % dtn, dict(inp, dtype=dtn, data=nums.tolist()),
                     o_t.tolist()[:8], o_f.tolist()[:8])
            return
    ctx.count("oracle:resample-dtypes")
    # 2-D, axis handling
    d2 = nprng.normal(size=(ln, 3))
    o0 = dsp.resample(d2, p, q, pts=pts, axis=0)
    o1 = dsp.resample(d2.T.copy(), p, q, pts=pts, axis=1)
    if o0.shape != (want_len, 3) or not np.allclose(o0, o1.T, rtol=0, atol=1e-12 * max(1.0, np.abs(d2).max())):
        ctx.fail("resample-axis", "resampling along axis 0 differs from resampling the transpose along axis 1", inp, list(o0.shape), [want_len, 3])
        return
    # n-D data, every axis (positive and negative numbering): each fibre along `axis` is the 1-D result, every other
    # axis keeps its place (time x channel x case arrays; equal trailing sizes so that a swap of axes cannot hide)
    if ln <= 40:
        for shape in ((ln, 2, 2), (2, ln, 3), (3, 3, ln), (2, ln, 2, 2)):
            ax = shape.index(ln) if shape.count(ln) == 1 else [i for i, v in enumerate(shape) if v == ln][0]
            if shape.count(ln) != 1:
                continue
            dn = nprng.normal(size=shape) + inp["offset"]
            for axis in (ax, ax - len(shape)):
                on = dsp.resample(dn, p, q, pts=pts, axis=axis)
                want_shape = tuple(want_len if i == ax else v for i, v in enumerate(shape))
                ok = on.shape == want_shape
                if ok:
                    moved_in = np.moveaxis(dn, ax, -1).reshape(-1, ln)
                    moved_out = np.moveaxis(on, ax, -1).reshape(-1, want_len)
                    for fin, fout in zip(moved_in, moved_out):
                        if not np.allclose(dsp.resample(fin, p, q, pts=pts), fout, rtol=0, atol=1e-12 * max(1.0, np.abs(dn).max())):
                            ok = False
                            break
                if not ok:
                    ctx.fail("resample-axis-nd", "resampling a %d-D array along axis %d: a fibre is not the 1-D result in its own "
                             "place (or the other axes moved)" % (len(shape), axis), dict(inp, shape=list(shape), axis=axis),
                             list(on.shape), list(want_shape))
                    return
        ctx.count("oracle:resample-nd-axes")
    # band-limited accuracy vs pts: interior samples of a slow sinusoid against the true positions k*q/p
    n = 1200
    fr = inp["fr"]
    lim = min(1.0, pr / qr)
    x = np.arange(n)
    sig = np.sin(2 * np.pi * fr * lim * x + 0.3)
    o = dsp.resample(sig, p, q, pts=pts)
    pos = np.arange(len(o)) * qr / pr
    ref = np.sin(2 * np.pi * fr * lim * pos + 0.3)
    m = int(np.ceil(2 * pts * max(1.0, pr / qr))) + 2
    err = float(np.max(np.abs(o[m:-m] - ref[m:-m])))
    bound = {3: 6e-2, 5: 1e-5, 10: 5e-6, 15: 2e-6}[pts]
    if err > bound:
        ctx.fail("resample-accuracy-pts%d" % pts, "band-limited signal not interpolated to the accuracy set by the window length",
                 dict(inp, freq=fr * lim), err, "<= %g" % bound)
    # no aliasing when downsampling: content well above the new Nyquist rate is removed
    if pts >= 10 and 0.45 >= 1.6 * 0.5 * pr / qr:
        sig = np.sin(2 * np.pi * 0.45 * x + 0.2)
        o = dsp.resample(sig, p, q, pts=pts)
        amp = float(np.max(np.abs(o[m:-m])))
        if amp > 1e-5:
            ctx.fail("resample-aliasing", "downsampling lets content above the new Nyquist rate through (anti-aliasing cutoff)",
                     dict(inp, freq=0.45), amp, "<= 1e-5")
        ctx.count("oracle:resample-antialias")
    ctx.count("oracle:resample")


def _or_index_private(ctx, told, tnew, nb):
    """the helper routines against the documented rule, by brute force (strictly increasing told,
    new times inside the old range)"""
    from pyyeti import dsp

    tnew = [t for t in tnew if told[0] <= t <= told[-1]]
    if not tnew or len(told) < 2:
        return
    a, v = _f(told), _f(tnew)
    g1 = [int(i) for i in dsp._find_closest_times(a.copy(), v.copy())]
    g2 = [int(i) for i in dsp._find_closest_previous_times(a.copy(), v.copy())]
    brute1 = [min(range(len(told)), key=lambda i: (abs(told[i] - t), i)) for t in tnew]
    brute2 = [max([i for i in range(len(told)) if told[i] <= t], default=0) for t in tnew]
    inp = {"told": [str(x) for x in told], "tnew": [str(x) for x in tnew]}
    if g1 != brute1:
        tie = any(any(abs(x - t) == abs(y - t) and x != y for x in told for y in told) for t in tnew)
        ctx.fail("find-closest-times" + ("-tie" if tie else ""), "_find_closest_times does not return the nearest sample (ties: earlier)", inp, g1, brute1)
    if g2 != brute2:
        tie = any(t in told for t in tnew)
        ctx.fail("find-closest-previous-times" + ("-tie" if tie else ""), "_find_closest_previous_times does not return the last sample with time <= t", inp, g2, brute2)
    if tnew[0] < told[-1]:
        n1 = [int(i) for i in nb["_find_closest_times"](a.copy(), v.copy())]
        n2 = [int(i) for i in nb["_find_closest_previous_times"](a.copy(), v.copy())]
        if n1 != brute1 or n2 != brute2:
            ctx.fail("numba-variant-differs", "the numba variant (source text) of a closest-time routine differs from the documented rule", inp, [n1, n2], [brute1, brute2])
    ctx.count("oracle:index-rules")


def _gen_auto_record(rng):
    """a record in which at least 92 % of the steps are exactly 1/r and the rest are long gaps"""
    r = rng.choice([5, 10, 20, 50, 1, 2, 4, 0.5])
    n = rng.randint(60, 160)
    steps = [1.0 / r] * n
    for i in rng.sample(range(n), rng.randint(max(1, n // 20), max(1, (8 * n) // 100))):
        steps[i] = rng.choice([30, 45, 60]) / r
    return {"rate": r, "steps": steps, "t0": float(rng.randint(-20, 20)), "hold": rng.random() < 0.5}


def _or_fix_auto(ctx, c):
    """sr='auto': when more than 90 % of the time steps are one and the same 1/r the rate chosen is the most frequent
    rate to the resolution of the count (documented: at most 5 samples/s; the resolution is never coarser than the
    slowest rate present, which is below r): |sr - r| <= min(2.5, r/2 + 0.05) - not the average rate, which long gaps
    pull far below r"""
    from pyyeti import dsp

    t = c["t0"] + np.concatenate(([0.0], np.cumsum(c["steps"])))
    y = np.arange(len(t), dtype=float)
    with warnings.catch_warnings():
        _quiet()
        (tn, yn), info = dsp.fixtime((t, y), "auto", hold_previous_value=c["hold"], getall=True, verbose=False)
    share = sum(1 for s_ in c["steps"] if s_ == 1.0 / c["rate"]) / len(c["steps"])
    if share <= 0.905 or len(tn) < 2:
        return
    # the count works to a resolution set by the SLOWEST rate present (5, or that rate rounded to 0.1): when r sits half-way
    # between two multiples of it, rounding noise of 1/diff(t) splits the count between the two - not claimed
    slow = 1.0 / max(c["steps"])
    res = 5.0 if slow > 5 else round(10 * max(slow, 0.1)) / 10
    x = c["rate"] / res
    if abs((x - math.floor(x)) - 0.5) < 0.05:
        ctx.count("oracle:fixtime-auto-rate-between-two-count-bins")
        return
    step = float(np.mean(np.diff(tn)))
    lim = min(2.5, c["rate"] / 2 + 0.05) * (1 + 1e-9)
    if not abs(1.0 / step - c["rate"]) <= lim:
        ctx.fail("fixtime-auto-rate-not-most-frequent", "fixtime(sr='auto') does not choose (to the resolution of its count) the sample rate that more "
                 "than 90 % of the time steps have", c, {"sr": 1.0 / step, "sr_stats": [float(v) for v in info.sr_stats]},
                 {"sr": c["rate"], "within": lim})
    ctx.count("oracle:fixtime-auto")


def _or_fix_options(ctx, c):
    """`base`, `dropval`, despiking bookkeeping of fixtime on the public API"""
    from pyyeti import dsp

    st, r = _run_fixfull(c)
    if st != "ok" or r["early"]:
        return
    t_, y_, _sv = _sorted_record(c)
    pos = np.arange(len(t_)) if _sv is None else np.asarray(_sv)
    inp = {k: c[k] for k in c if k not in ("full",)}
    # every bookkeeping vector is made of record positions; alldrops contains the others
    ad = set(r["alldrops"])
    parts = set(r["dropouts"] or []) | set(r["spikes"] or []) | (set(r["outtimes"]) if c["delouttimes"] else set())
    if not parts <= ad or not ad <= set(range(len(t_))):
        ctx.fail("fixtime-alldrops-not-a-superset", "fixinfo.alldrops.alldrops does not contain dropouts, spikes and the deleted outlier times",
                 inp, sorted(ad)[:20], sorted(parts)[:20])
        return
    # dropval: exactly the samples within 1 % of it (or nan/inf) are drop-outs
    if c["deldrops"] and not c["delspikes"]:
        dv = _dropval_of(c)
        yy = _yarr(c)
        want = sorted(int(i) for i in np.nonzero(~np.isfinite(yy) | ((np.abs(yy - dv) < abs(dv) / 100) if math.isfinite(dv) else False))[0])
        near = math.isfinite(dv) and dv != 0 and np.any(np.abs(np.abs(yy[np.isfinite(yy)] - dv) - abs(dv) / 100) < 1e-9 * abs(dv))
        if r["dropouts"] != want and not near:
            ctx.fail("fixtime-dropval", "the drop-outs are not exactly the nan/inf samples and the samples within 1 % of `dropval`", inp, r["dropouts"], want)
            return
    # the samples returned are taken from what was not deleted
    kept_vals = _yarr(c)[sorted(set(range(len(t_))) - ad)]
    fin = r["yn"][np.isfinite(r["yn"])]
    if len(kept_vals) and not np.all(np.isin(fin, kept_vals)):
        ctx.fail("fixtime-returns-deleted-sample", "fixtime returns a sample that fixinfo.alldrops lists as deleted", inp,
                 ["%r" % v for v in fin[~np.isin(fin, kept_vals)][:5]], "a kept sample")
        return
    # base: same samples, time base moved by at most half a step onto base + k/sr
    if c["base"] is not None and len(r["tn"]) > 1:
        c0 = dict(c, base=None)
        st0, r0 = _run_fixfull(c0)
        if st0 == "ok" and not r0["early"] and len(r0["tn"]) == len(r["tn"]):
            dt = float(np.mean(np.diff(r0["tn"])))
            sh = r["tn"] - r0["tn"]
            k = (c["base"] - r["tn"][0]) / dt
            bad = (not np.array_equal(r["yn"], r0["yn"], equal_nan=True) or np.ptp(sh) > 1e-9 * dt + 1e-12 * (1 + abs(c["base"]))
                   or abs(sh[0]) > dt / 2 * (1 + 1e-9) + 1e-12 * (1 + abs(c["base"])) or abs(k - round(k)) > 1e-6)
            if bad:
                ctx.fail("fixtime-base", "fixtime(base=b): the samples differ from base=None, or the time base is not moved by at most half a step "
                         "onto b + k/sr", inp, {"shift": float(sh[0]), "k": float(k)}, {"abs(shift) <=": dt / 2, "k": "integer"})
                return
            ctx.count("oracle:fixtime-base")
    ctx.count("oracle:fixtime-options")


def _or_fix_fixed(ctx):
    """fixed inputs: a time exactly 3 sigma from the mean stays; fixing an already-fixed record changes nothing"""
    from pyyeti import dsp

    for tt in ([3, 16, 18, 19, 33, 39, 43, 45, 49, 52, 57, 58, 166], [14, 28, 34, 35, 36, 40, 44, 51, 54, 55, 56, 165]):
        t = np.array(tt, dtype=float)
        with warnings.catch_warnings():
            _quiet()
            (tn, yn), info = dsp.fixtime((t, np.arange(len(t), dtype=float)), 1, getall=True, verbose=False)
        mn, sg = Fraction(sum(tt), len(tt)), None
        var9 = 9 * sum((Fraction(x) - mn) ** 2 for x in tt) / (len(tt) - 1)
        assert (Fraction(tt[-1]) - mn) ** 2 == var9
        if len(info.alldrops.outtimes) != 0 or tn[-1] != t[-1]:
            ctx.fail("fixtime-outlier-time-exactly-3-sigma", "a time exactly 3 standard deviations from the mean (documented: MORE than 3) is treated as an outlier",
                     {"t": tt}, [int(i) for i in info.alldrops.outtimes], [])
    rng = ctx.rng
    for _ in range(ctx.pick(40, 300)):
        c = _gen_fixtime(rng)
        if c["hold"] and c["tol"] >= 1.0:
            continue
        r1 = _run_fixtime(c)
        if isinstance(r1[0], str) or r1[2] is None or len(r1[0]) < 2 or not np.isfinite(r1[1]).all():
            continue
        tn, yn = r1[0], r1[1]
        if not np.all(np.diff(tn) == 1.0 / c["sr"]):
            continue        # float time base not exactly uniform (shifted by a non-dyadic mean)
        c2 = dict(c, t=tn.tolist(), y=["%r" % float(v) for v in yn])
        r2 = _run_fixtime(c2)
        if isinstance(r2[0], str):
            continue
        if not (np.array_equal(r2[0], tn) and np.array_equal(r2[1], yn)):
            ctx.fail("fixtime-not-idempotent", "fixing an already-fixed record changes it", c, {"t": r2[0].tolist()[:8], "y": r2[1].tolist()[:8]},
                     {"t": tn.tolist()[:8], "y": yn.tolist()[:8]})
            return
        ctx.count("oracle:fixtime-idempotent")


def _or_despike(ctx, c):
    """the despikers on the API: the returned signal is the input without the flagged points; a signal in which nothing
    is flagged comes back unchanged and despiking it again changes nothing"""
    from pyyeti import dsp

    x = np.array(c["x"], dtype=float)
    for fnm, fn in (("despike", dsp.despike), ("despike_diff", dsp.despike_diff)):
        if fnm == "despike_diff" and c["xp"] not in ("f", "l", "k0"):
            continue
        if c["xp"] in ("l",) or c["xp"] == "k%d" % (c["n"] - 1):
            continue    # exclude_point='last' does not terminate on some records (reported separately)

        def call(v):
            with warnings.catch_warnings():
                _quiet()
                with np.errstate(all="ignore"):
                    return fn(v.copy(), c["n"], sigma=c["sigma"], maxiter=c["maxiter"], threshold_sigma=c["ts"], threshold_value=c["tv"],
                              exclude_point=_xp_py(c["xp"]))

        st, s1 = _guarded(lambda: call(x), 2)
        if st != "ok":
            continue
        pv = np.asarray(s1.pv, dtype=bool)
        if len(pv) != len(x) or not np.array_equal(np.asarray(s1.x), x[~pv]):
            ctx.fail(fnm + "-returned-signal", "%s does not return the input without exactly the flagged points" % fnm, dict(c, routine=fnm),
                     np.asarray(s1.x).tolist()[:12], x[~pv].tolist()[:12])
            return
        if not pv.any():
            if s1.niter != 1:
                ctx.fail(fnm + "-niter", "%s flags nothing but reports more than one iteration" % fnm, dict(c, routine=fnm), int(s1.niter), 1)
            continue
    ctx.count("oracle:despike")


def _or_despike_limits(ctx, c):
    """despike's documented limits: after ONE iteration (`maxiter=1`) `hilim`/`lolim` are `mean +- max(sigma*std, threshold)`;
    a point is an outlier when it lies BEYOND them.  exclude_point='middle' (all points tested at once): flagged <=> outside
    [lolim, hilim]; 'first' (the last outlier and the run before it): the last flagged point is outside its limits, every later
    point is inside or on them"""
    from pyyeti import dsp

    x = np.array(c["x"], dtype=float)
    for xp in ("middle", "first"):
        with warnings.catch_warnings():
            _quiet()
            with np.errstate(all="ignore"):
                s = dsp.despike(x.copy(), c["n"], sigma=c["sigma"], maxiter=1, threshold_value=c["tv"], exclude_point=xp)
        pv = np.asarray(s.pv, dtype=bool)
        out = (x > s.hilim) | (x < s.lolim)
        if xp == "middle":
            bad = not np.array_equal(pv, out)
        else:
            j = int(np.nonzero(pv)[0][-1]) if pv.any() else -1
            bad = (j >= 0 and not out[j]) or bool(out[j + 1:].any())
        if bad:
            tie = bool(np.any((x == s.hilim) | (x == s.lolim)))
            ctx.fail("despike-limit" + ("-tie" if tie else ""), "despike(maxiter=1, exclude_point=%r): the flagged points are not the points beyond hilim/lolim"
                     % xp + (" (a point exactly ON a limit is not beyond it)" if tie else ""), dict(c, routine="despike-limits", xp_name=xp),
                     {"pv": pv.astype(int).tolist(), "hilim": np.asarray(s.hilim).tolist()[:12]}, {"outside": out.astype(int).tolist()})
            return
    ctx.count("oracle:despike-limits")


def _or_rescale_const(ctx, c):
    """a constant PSD comes out constant (inside bands; with extendends in every band that overlaps the input)"""
    from pyyeti import psd

    F, freq = np.array(c["F"]), np.array(c["freq"])
    P = np.full(len(F), 2.5)
    try:
        with np.errstate(all="ignore"):
            po, fo, msv, ms = psd.rescale(P, F, freq=freq, extendends=True)
    except (ValueError, IndexError):
        return
    d = np.diff(F)
    FLin, FUin = (F - d[0] / 2, F + d[0] / 2) if np.all(d == d[0]) else _edges_ref(F)
    oL, oU = _edges_ref(freq)
    sel = [i for i in range(len(freq)) if freq[i] in set(np.asarray(fo).tolist())]
    if len(sel) != len(fo):
        return
    for k, i in enumerate(sel):
        cov = min(oU[i], FUin[-1]) - max(oL[i], FLin[0])
        if cov <= 1e-6 * (oU[i] - oL[i]):
            continue
        if k not in (0, len(sel) - 1) and not (oL[i] >= FLin[0] and oU[i] <= FUin[-1]):
            continue
        if not abs(po[k] - 2.5) <= 1e-9 * 2.5 * max(1.0, (oU[i] - oL[i]) / cov):
            ctx.fail("rescale-constant-psd", "a constant PSD does not come out constant after rescale (extendends=True)", {kk: c[kk] for kk in ("F", "freq")},
                     float(po[k]), 2.5)
            return
    ctx.count("oracle:rescale-constant")


def _or_resample_gcd(ctx, inp):
    """a common factor of p and q changes nothing; the result is float64 whatever the storage of the data"""
    from pyyeti import dsp

    data = np.random.default_rng(inp["dseed"]).normal(size=inp["n"])
    a = dsp.resample(data, inp["p"], inp["q"], pts=inp["pts"])
    for k in (2, 3):
        b = dsp.resample(data, k * inp["p"], k * inp["q"], pts=inp["pts"])
        if a.shape != b.shape or not np.array_equal(a, b):
            ctx.fail("resample-common-factor", "resample(data, k*p, k*q) differs from resample(data, p, q)", dict(inp, k=k), b.tolist()[:6], a.tolist()[:6])
            return
    ints = (data * 50).astype(np.int32)
    if dsp.resample(ints, inp["p"], inp["q"], pts=inp["pts"]).dtype != np.float64:
        ctx.fail("resample-dtype-integer", "resampling integer data does not return float64", dict(inp, dtype="int32"),
                 str(dsp.resample(ints, inp["p"], inp["q"], pts=inp["pts"]).dtype), "float64")
    ctx.count("oracle:resample-gcd")


def _hint_inputs(hints):
    out = {"fixtime": [], "spec": [], "rescale": [], "oct": []}
    for h in hints[:200]:
        i = h.get("input")
        if not isinstance(i, dict):
            continue
        if "hold" in i and "t" in i:
            out["fixtime"].append(i)
        elif "told" in i and "sr" in i and not isinstance(i["told"][0], str):
            for hold in (False, True):
                out["fixtime"].append({"t": list(i["told"]), "y": ["%r" % float(k) for k in range(len(i["told"]))], "sr": i["sr"], "hold": hold,
                                       "tol": 1e-3, "deldrops": True, "delouttimes": False, "kind": "hint"})
        elif "trim" in i and "exact" in i:
            out["oct"].append(i)
        elif "spec" in i:
            out["spec"].append([tuple(r) for r in i["spec"]])
        elif "freq" in i and "F" in i:
            out["rescale"].append(i)
    return out


def search(ctx, hints):
    rng = ctx.rng
    nprng = ctx.np_rng(23)
    h = _hint_inputs(hints)
    nb = _numba_source(ctx.repo)
    # fixtime ------------------------------------------------------------------------
    fx = list(h["fixtime"][:40])
    for sr in (1, 8):
        for hold, tol in ((False, 1e-3), (True, 0.0), (True, 1.0 / 1024), (True, 0.5)):
            fx.append({"t": (np.arange(10) / sr).tolist(), "y": ["%r" % float(v) for v in range(1, 11)], "sr": sr, "hold": hold,
                       "tol": tol, "deldrops": True, "delouttimes": True, "kind": "uniform"})
    fx.append({"t": [0.0, 1.0, 5.0, 6.0], "y": ["1.0", "2.0", "3.0", "4.0"], "sr": 1, "hold": False, "tol": 1e-3,
               "deldrops": True, "delouttimes": True, "kind": "gaps"})
    fx.append({"t": [0.0, 1.0, 5.0, 6.0], "y": ["1.0", "2.0", "3.0", "4.0"], "sr": 1, "hold": True, "tol": 1e-3,
               "deldrops": True, "delouttimes": True, "kind": "gaps"})
    fx += [_gen_fixtime(rng) for _ in range(ctx.pick(1200, 8000))]
    for c in fx:
        _or_fixtime(ctx, c)
        ctx.count("oracle:fixtime")
        if len(ctx.failures) > 12:
            return
    for hnt in hints[:60]:
        i = hnt.get("input")
        if isinstance(i, dict) and i.get("full"):
            _or_fix_options(ctx, i)
            if i.get("sr_opt") == "auto" and "t" in i:
                tt = np.sort(np.array(i["t"], dtype=float))
                if len(tt) > 2:
                    _or_fix_auto(ctx, {"rate": i["sr"], "steps": np.diff(tt).tolist(), "t0": float(tt[0]), "hold": i["hold"]})
    _or_fix_fixed(ctx)
    for _ in range(ctx.pick(60, 500)):
        _or_fix_auto(ctx, _gen_auto_record(rng))
    for _ in range(ctx.pick(250, 2000)):
        _or_fix_options(ctx, _gen_fixfull(rng))
        if len(ctx.failures) > 12:
            return
    for _ in range(ctx.pick(150, 1200)):
        exact = rng.random() < 0.5
        n_ = rng.choice([3, 5, 9] if exact else [3, 5, 9, 4, 7, 15])
        _or_despike(ctx, {"x": _gen_spiky(rng, rng.randint(max(6, n_ + 2), 36), exact), "n": n_, "xp": rng.choice(["f", "f", "m", "k0", "k1"]),
                          "tv": rng.choice([None, 4.0, 2.0, 8.0]), "ts": float(rng.choice([2, 0, 1])), "sigma": rng.choice([8, 2, 3]),
                          "maxiter": rng.choice([-1, -1, 1, 2])})
    _or_despike_limits(ctx, {"x": [2.0, 2, 2, 2, 6, 2, 2, 2, 2, 7, 2, 2, 2, 2, 2], "n": 5, "sigma": 8, "tv": 4.0})
    for _ in range(ctx.pick(150, 1000)):
        n_ = rng.choice([3, 5, 9])
        _or_despike_limits(ctx, {"x": _gen_spiky(rng, rng.randint(n_ + 3, 30), True), "n": n_, "sigma": rng.choice([8, 2, 1]),
                                 "tv": float(rng.choice([4, 2, 8, 3, 5, 16]))})
    for _ in range(ctx.pick(800, 6000)):
        told = _gen_told(rng, strict=True)
        _or_index_private(ctx, told, _gen_tnew(rng, told), nb)
    # psd ------------------------------------------------------------------------------
    specs = list(h["spec"][:40])
    specs += [[(20.0, 0.0053), (150.0, 0.04), (600.0, 0.04), (2000.0, 0.0036)], [(1.0, 1.0), (2.0, 0.5)], [(5.0, 2.0), (40.0, 0.25), (80.0, 0.125)],
              [(1.0, 1.0), (1000.0, 1000.0 ** (-1 + 9e-6))], [(1.0, 1.0), (1000.0, 1000.0 ** (-1 + 4e-9))]]
    specs += [_gen_spec(rng, nprng)[0] for _ in range(ctx.pick(500, 4000))]
    for sp in specs:
        _or_spec(ctx, sp)
        ctx.count("oracle:spec")
        if len(ctx.failures) > 12:
            return
    rs = list(h["rescale"][:40])
    doc_F = (np.arange(0, 10.1, 0.25)).tolist()
    for ext in (True, False):
        rs.append({"P": [1.0] * 41, "F": doc_F, "freq": [0.0, 5.0, 10.0], "ext": ext, "kin": "lin", "kout": "lin"})
        rs.append({"P": [float(1 + (i % 5)) for i in range(41)], "F": doc_F, "freq": [0.5, 2.5, 4.5, 6.5], "ext": ext, "kin": "lin", "kout": "lin"})
    rs += [_gen_rescale(rng, nprng) for _ in range(ctx.pick(1200, 8000))]
    for c in rs[:ctx.pick(300, 2000)]:
        _or_rescale_const(ctx, c)
    for c in rs:
        _or_rescale(ctx, c)
        ctx.count("oracle:rescale")
        if len(ctx.failures) > 12:
            return
    for _ in range(ctx.pick(150, 1200)):
        _or_rescale_oct(ctx, _gen_rescale_oct(rng, nprng))
    # get_freq_oct, psd2time, psdmod, NaN rows -------------------------------------------------
    octs = [{"n": 3, "s": 505.0, "e": 900.0, "exact": ex, "trim": tr, "anchor": None} for ex in (False, True) for tr in ("outside", "center", "inside")]
    octs = list(h["oct"][:40]) + octs + [_gen_oct(rng) for _ in range(ctx.pick(400, 3000))]
    for c in octs:
        _or_oct(ctx, c)
        if len(ctx.failures) > 12:
            return
    for _ in range(ctx.pick(10, 60)):
        _or_psd2time(ctx, _gen_psd2time(rng))
    for _ in range(ctx.pick(2, 8)):
        _or_psdmod(ctx, {"mseed": rng.randint(0, 10 ** 6), "len": 4000, "sr": 400.0, "nperseg": rng.choice([100, 200]), "slice": rng.choice([1.0, 2.0])})
    for sp in specs[:ctx.pick(60, 400)]:
        if len(sp) >= 2:
            _or_nanspec(ctx, sp, rng.randrange(0, len(sp) + 1))
    # single-precision specifications; the first one is finding area-float32-slope-minus-one's reproducer
    for sp in ([[42.0, 8.0], [48.0, 7.0]], [[1.0, 1.0], [2.0, 0.5]], [[10.0, 4.0], [20.0, 2.0], [40.0, 1.0]], [[20.0, 1.0], [40.0, 4.0], [80.0, 2.0]]):
        _or_spec_float32(ctx, sp)
    for _ in range(ctx.pick(25, 200)):
        _or_dtypes(ctx, {"tseed": rng.randint(0, 10 ** 6)})
    # resample ------------------------------------------------------------------------
    _or_resample(ctx, {"n": 89, "p": 3, "q": 7, "pts": 10, "dseed": 1, "offset": 0.0, "fr": 0.02})  # F32's input
    for _ in range(ctx.pick(40, 300)):
        _or_resample_gcd(ctx, _gen_resample(rng))
    for _ in range(ctx.pick(250, 2000)):
        _or_resample(ctx, _gen_resample(rng))
        if len(ctx.failures) > 12:
            return


def replay(ctx, data):
    f = data.get("failure") or {}
    i = f.get("input") or {}
    fam = f.get("family", "")
    sub = type(ctx)(ctx.prop, ctx.tier, ctx.seed)
    if i.get("full"):
        _or_fix_options(sub, i)
    elif "steps" in i and "rate" in i:
        _or_fix_auto(sub, i)
    elif i.get("routine") == "despike-limits":
        _or_despike_limits(sub, i)
    elif "routine" in i and "xp" in i:
        _or_despike(sub, i)
    elif fam.startswith("fixtime-outlier-time-exactly") or fam == "fixtime-not-idempotent":
        _or_fix_fixed(sub)
    elif fam == "rescale-constant-psd":
        _or_rescale_const(sub, i)
    elif fam in ("resample-common-factor",) or (fam == "resample-dtype-integer" and "k" not in i and i.get("dtype") == "int32"):
        _or_resample_gcd(sub, i)
    elif "hold" in i and "t" in i:
        _or_fixtime(sub, i)
    elif "spec32" in i:
        _or_spec_float32(sub, i["spec32"])
    elif "tseed" in i:
        _or_dtypes(sub, {"tseed": i["tseed"]})
    elif "nanrow" in i:
        _or_nanspec(sub, [tuple(r) for r in i["spec"]], i["nanrow"])
    elif "spec" in i:
        _or_spec(sub, [tuple(r) for r in i["spec"]])
    elif "trim" in i:
        _or_oct(sub, i)
    elif "pseed" in i:
        _or_psd2time(sub, i)
    elif "mseed" in i:
        _or_psdmod(sub, i)
    elif "n_oct" in i:
        _or_rescale_oct(sub, i)
    elif "freq" in i and "F" in i:
        _or_rescale(sub, i)
    elif "dseed" in i:
        _or_resample(sub, i)
    elif "told" in i and "tnew" in i:
        _or_index_private(sub, [Fraction(x) for x in i["told"]], [Fraction(x) for x in i["tnew"]], _numba_source(ctx.repo))
    for g in sub.failures:
        if g["family"] == fam:
            return g
    return sub.failures[0] if sub.failures else None
