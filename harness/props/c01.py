"""C01 — exact time-domain solution for piecewise-linear / constant forcing (DESIGN.md 6/C01).

Tie: numeric correspondence between the Lean model (lean/PyYetiVerif/Model/SuCoef.lean,
SuPartition.lean, run at Float through Drivers/C01.lean) and
  (a) pyyeti.ode.get_su_coef / SolveUnc._get_complex_su_coefs      (coefficients, per regime, cut-offs)
  (p) the partition vectors of SolveUnc / SolveExp2 instances        (exact)
  (b) SolveUnc(...).tsolve over the option grid, uncoupled real path (histories)
  (c) SolveUnc coupled path / pre_eig / SolveExp2 / SolveExp1 on systems BUILT FROM modal data, so
      the model's closed form mapped through the chosen mode shapes is the reference.
  (q, r) the coupled path / SolveExp2 driven by the implementation's own pc / E, P, Q; static initial state, M^-1 F and
      acceleration by the model's Gaussian elimination (over Q / at Float)
  (x) SolveExp1 (own E, P, Q; and exactly over Q on dyadic E, P, Q), force dtypes
  (e) pre_eig (own phi; and exactly over Q on diagonal systems where la.eigh is exact)
  (u) uncoupled equations with complex-dtype coefficients (complex-eigenvalue path, undamped rigid-body recurrence)
and a translator (harness/translate/c01_sucoefcuts.py) that regenerates the cut-off literals of the regime dispatch.
Floats travel as bit patterns, rationals as num/den.  The oracle (`search`) never touches the model.
"""
import json
import math
import os
import struct
import warnings

import numpy as np

from fractions import Fraction

from runner import Infra, TieBroken

ID = "C01"
LEAN_MODULES = [
    "PyYetiVerif.Props.C01",
    "PyYetiVerif.Props.C01Part",
    "PyYetiVerif.Props.C01Static",
    "PyYetiVerif.Props.C01Unique",
    "PyYetiVerif.Props.C01Coupled",
    "PyYetiVerif.Props.C01Delconj",
    "PyYetiVerif.Props.C01Exp",
    "PyYetiVerif.Props.C01Exp1",
    "PyYetiVerif.Props.C01Rb",
    "PyYetiVerif.Props.C01StaticC",
    "PyYetiVerif.Props.C01PreEig",
    "PyYetiVerif.Props.C01Cuts",
    "PyYetiVerif.Props.C01CplxUnc",
    "PyYetiVerif.Props.C01CplxUncFixed",
    "PyYetiVerif.Audit.C01",
]
AUDIT_FILE = "PyYetiVerif/Audit/C01.lean"
THEOREMS = [
    "PyYetiVerif.C01." + n
    for n in (
        "su_solves_ode_under su_solves_ode_over su_solves_ode_crit su_solves_ode_rb su_solves_ode_rb_damped "
        "su_solves_ode su_coef_eq order0_exact rigidVelo_velocity_exact rf_static run_exact run_length "
        "accel_eom mNone_eq_mOne cplx_solves_ode cplx_coef_eq cplx_small_exact partition_ok rb_order_agrees "
        # partition bookkeeping, second part (Props/C01Part.lean)
        "el_order_agrees partition_auto_ok small_unc_iff small_coupled_iff mkSlice_spec slicesFlag_iff "
        # initial conditions and rf rows (Props/C01Static.lean)
        "rf_static_rows static_ic_ok explicit_ic zero_ic "
        # uniqueness (Props/C01Unique.lean)
        "isSol_unique su_solves_ode_unique run_exact_unique "
        # coupled path (Props/C01Coupled.lean, Props/C01Delconj.lean)
        "decoupled_recovers coupled_step_exact coupled_run_exact sol2R_exists delconj_recovers coupled_run_exact_real "
        "oscKept_spec "
        # SolveExp2 (Props/C01Exp.lean)
        "exp2_step_exact exp2_run_exact freeA_spec "
        # SolveExp1 (Props/C01Exp1.lean)
        "exp1_step_exact exp1_run_exact exp1_history_not_converted exp1_velo_is_derivative exp1_init zeroA_spec "
        # rigid-body recurrence of the coupled path (Props/C01Rb.lean)
        "rb_step_is_rigid_regime rb_step_exact rb_run_is_runUnc rb_run_exact "
        # linear solves of the coupled paths (Props/C01StaticC.lean)
        "lin_solve_spec mass_solve_spec static_ic_coupled_is_equilibrium static_ic_coupled_accel_zero accel_coupled_eom "
        # pre_eig (Props/C01PreEig.lean)
        "pre_eig_solution_is_solution pre_eig_mass_forms_agree pre_eig_damping_forms_agree pre_eig_ic_consistent "
        "pre_eig_ic_is_phiT_M pre_eig_first_sample "
        # cut-offs as the source spells them (Props/C01Cuts.lean, about Generated/SuCoefCuts.lean)
        "cuts_as_documented crit_regimes_partition classify_elastic_spec classify_rb_spec classify_auto_rb_iff "
        # uncoupled equations with complex-dtype coefficients: rigid-body rows, finding F61 (Props/C01CplxUnc.lean)
        "complex_unc_rb_row_is_undamped isSol_unit_mass_scale complex_unc_rb_exact_partial "
        "complex_unc_damped_rb_counterexample complex_recovery_real_part complex_dtype_real_system_response_is_real "
        # candidate repair of finding F61 (Props/C01CplxUncFixed.lean, about Model/SuCoefCplxUncFixed.lean: the PATCHED
        # rigid-body rows of corpus/c01_f61_candidate_fix.diff; /repo is unpatched, the current model stays)
        "isSol_unit_mass_scale_damped complex_unc_rb_exact_fixed rb_step_unit_mass runUnc_map_of_step "
        "complex_unc_rb_fixed_is_real_path complex_unc_rb_fixed_velo_exact complex_unc_rb_fixed_undamped_unchanged "
        "complex_unc_damped_rb_counterexample_fixed complex_unc_rb_rows_fixed_spec"
    ).split()
]
TRUSTED = [
    "correspondence harness harness/props/c01.py (|impl-model| <= 1e-9*scale, scale = largest magnitude among the "
    "added terms; streams through eig/expm 1e-9*scale*cond of the eigenvectors; closed-form stream 1e-7*scale*cond(phi); "
    "EXACT over the rationals in the streams exp1x (SolveExp1 recurrence on dyadic E, P, Q) and pex (pre_eig on diagonal "
    "systems with masses 4^j), exact bit patterns for classifications, partitions and dtypes)",
    "translator harness/translate/c01_sucoefcuts.py (Python ast, no execution): the literals of the regime tests of "
    "get_su_coef, _get_complex_su_coefs, _make_rb_el -> Generated/SuCoefCuts.lean, with the comparison operators checked",
    "numpy/libm exp, sin, cos, sqrt, pow at Float (1-ulp differences between numpy and Lean's C library calls)",
    "scipy.linalg.eig / inv (coupled path), la.eigh (pre_eig) and expmint.getEPQ are not modelled: they enter the "
    "theorems as hypotheses (DelconjSpec: the eigen-decomposition rebuilt from pc.lam, pc.ur, pc.ur_inv diagonalises A "
    "and is inverted by ur_inv; ExpSpec: E, P, Q are exp(Ah) and its two integrals; eigh: phi' M phi = 1, phi' K phi "
    "diagonal) and these hypotheses are measured on the implementation's own pc / E, P, Q / phi on every run with plain "
    "numpy / scipy.linalg.expm (residual <= 1e-9*cond, resp. 1e-8; exactly over Q in the pex stream)",
    "LAPACK's linear solves (np.linalg.solve, la.solve, lu_factor + lu_solve) are represented in the model by Gaussian "
    "elimination with partial pivoting (Model/FreqGauss.lean, shared with C02, proved to return a solution over any "
    "field: lin_solve_spec); the driver runs it over Q on the exact values of the doubles (static initial state, "
    "la.solve(phi, d0) in the pex stream) and at Float (M^-1 F, acceleration); agreement with LAPACK is numeric",
    "switch errors of the cut-offs (|w2/wo2| < 1e-8 treated as critical, |lam| < 5e-5 treated as zero, "
    "abs(k) < 0.005 treated as rigid, the two damped-rigid-body cut-offs), the (w h)^-3 cancellation of the uncoupled "
    "coefficients and the (|lam| h)^-2 cancellation of the complex coefficients Ae, Be are floating-point facts: "
    "measured (boundary oracle against a 60-digit reference), not proved",
]
RULE = (
    "(a) one case = one scalar mode (m|None, b, k, h, rb flag, rf flag) drawn per regime (rigid, rigid-damped "
    "velocity-only, rigid-damped full, under, critical, over, rf) plus both sides of every cut-off (nextafter / "
    "ulp jitter around wo2 = 0.005, |rat| = 1e-8, |C| = 1e-5/sqrt(h), |C| = 10(1e-10/h)^(1/3), |lam| = 5e-5); "
    "non-trivial = a dynamic regime (not rf) with h > 0; distinct by the input bit patterns. (p) one case = "
    "(n, rb, rf, small-k flags), exhaustive for n <= 4 in the thorough tier; (p2) one case = coupled non-rf k, b "
    "(n <= 6, entries on both sides of the 0.005 tolerance, in rows only / columns only / k only / b only) x rf set, "
    "rb auto-detected; non-trivial = both rb and el non-empty. (b) one case = a modal system (n <= 6 "
    "modes of mixed regimes, contiguous or interleaved rb/el/rf order) x order x mass packaging x rb given/auto x "
    "static_ic x d0/v0, nt <= 24 samples; non-trivial = at least one dynamic mode and nt >= 3. (c) one case = modal "
    "data + a well-conditioned mode-shape matrix, compared on five solver variants. (q) one case = a coupled system "
    "(general M, symmetric / skew / mixed / no damping, gyroscopically coupled zero-stiffness DOF, or built from modal "
    "data with block rigid-body modes) x order x d0/v0/static_ic; the Lean model is run on the implementation's own "
    "pc.lam, ur, ur_inv, the static initial state, M^-1 F and the acceleration by the model's elimination; "
    "cond(eigenvectors) > 1e6 skipped and counted; a mode with 5e-5 <= |lam| and |lam| h < 1e-3 is "
    "outside the conditioning domain (Ae, Be lose (|lam| h)^-2 digits by cancellation): skipped and counted, tolerance "
    "graded by (1e-2/(|lam| h))^2 for 1e-3 <= |lam| h < 1e-2 (same rule in the oracle). (r) the same systems (any damping, singular "
    "stiffness allowed) and uncoupled ones with rf modes through SolveExp2, the Lean model run on its own E, P, Q. "
    "(x) one case = a first-order system (state matrix of a second-order system / random / nilpotent A, n <= 6) x order x "
    "force dtype (float64, int64, float32) x d0 given or not, SolveExp1 on its own E, P, Q; (x-exact) n <= 3, nt <= 6, "
    "E, P, Q, A with entries j/4, forces whole or half numbers: compared as rationals. (e) one case = a symmetric "
    "system x mass form (None, 1-D, 2-D) x damping form (1-D, 2-D) x SolveUnc / SolveExp2 x d0, v0, static_ic with "
    "pre_eig=True, the model driven by the implementation's own phi; (e-exact) diagonal systems with masses 4^j, modal "
    "stiffnesses 2^j (one may be 0: a rigid-body mode), first sample only (nt = 1): compared as rationals. (u) one case = an "
    "uncoupled system whose m, b or k has a complex dtype (zero imaginary parts or a loss factor 1e-3..5e-2) x order x rb "
    "auto/explicit x damped / undamped rigid-body modes x static_ic. Oracle extra: 44 fixed boundary cases at "
    "constant*(1 -+ 1e-3) and 3x, 9x each documented cut-off (one mode against a 60-digit reference; rb=None against the "
    "documented rule; a coupled system with an eigenvalue at the 5e-5 test)"
)
ASSUMPTIONS = [
    "mass is non-singular and the rb/rf partitions are given in modal space (documented domain)",
    "theorems are over the reals / complexes (linear-solve theorems over any field); Float / Rat evaluation is used "
    "only in the correspondence check",
    "coupled-path theorems: the kept eigen-data satisfy DelconjSpec (rebuilt decomposition: U V = 1, V U = 1, "
    "A U = U diag(lam), real modes real, small-eigenvalue branch only for zero eigenvalues); SolveExp2 / SolveExp1 "
    "theorems: E, P, Q satisfy ExpSpec (E = exp(A h), P, Q its hold integrals); pre_eig theorems: phi' M phi = 1, "
    "phi' K phi = diag(w); all measured per run, not proved of scipy",
    "complex_unc_rb_exact_partial: the rigid-body row of an uncoupled complex-dtype system is undamped (b = 0); the "
    "damped row is open finding F61 (complex_unc_damped_rb_counterexample shows the hypothesis is necessary)",
]
PARTIAL = (
    "partial: (1) scipy.linalg.eig/inv, la.eigh (pre_eig) and expmint's Pade evaluation are not modelled: "
    "decoupled_recovers / delconj_recovers / coupled_run_exact_real, exp2_step_exact / exp2_run_exact, exp1_step_exact / "
    "exp1_run_exact and pre_eig_solution_is_solution are proved *given* the eigen-decomposition, resp. E = exp(Ah), P, Q, "
    "resp. phi' M phi = 1, phi' K phi = diag(w) (the hypotheses are measured on the implementation's own values each run, "
    "exactly over Q on the diagonal pre_eig cases; Props/C07 proves the series-level content of E, P, Q); LAPACK's "
    "solves are Gaussian elimination in the model (proved to solve: lin_solve_spec), LAPACK itself is tied numerically; "
    "(2) the rigid-damped velocity-only regime is exact for the velocity only (by design of the source: "
    "rigidVelo_velocity_exact states the displacement defect); (3) uncoupled equations with complex-dtype coefficients: "
    "rigid-body rows are proved exact only when undamped (complex_unc_rb_exact_partial; the damped row is open finding "
    "F61 with a proved counterexample; a repair candidate exists, corpus/c01_f61_candidate_fix.diff, for whose rows the "
    "full statement is proved without the hypothesis b = 0: complex_unc_rb_exact_fixed, about "
    "Model/SuCoefCplxUncFixed.lean, tied to the patched text by corpus/c01_f61_candidate_check.py - it is NOT the "
    "model of /repo until the patch is applied); the elastic rows run the full modal recurrence (conjugate pairs are deleted "
    "only for real systems since repair 4a72d85, finding F62: complex_recovery_real_part, "
    "complex_dtype_real_system_response_is_real; regression guard in the oracle); "
    "(4) cd_as_force (off-diagonal damping as force) belongs to C08 / C17, it is outside this property and not modelled "
    "here; (5) the cut-off constants are translated from the source and pinned (cuts_as_documented, "
    "crit_regimes_partition, classify_*_spec), but the switch errors they cause (|lam| < 5e-5, |w2/wo2| < 1e-8, "
    "abs(k) < 0.005, the damped-rigid-body cut-offs) and the cancellation below w*h = 1e-2 are floating-point facts: "
    "measured (boundary oracle, 60-digit reference), not proved; (6) for the coupled, SolveExp2 and pre_eig paths the "
    "composition static solve -> stepping -> acceleration -> recovery is chained by the harness from the model's pieces "
    "(each piece is a Lean definition with its theorem); only the uncoupled real path and the complex uncoupled path "
    "are composed inside the driver"
)
MANIFEST = {
    "level_text": "Proof (Lean 4, kernel-checked, standard axioms only) about ONE polymorphic transcription of "
    "get_su_coef and of the SolveUnc / SolveExp2 / SolveExp1 recurrences. Uncoupled path: for each regime (under-, over-, "
    "critically damped, rigid, damped rigid) the closed form built from the code's own F, G, Fp, Gp solves "
    "m a + b v + k x = p + s t with the initial conditions; the code's A, B, Ap, Bp make one step equal to that solution "
    "at t = h (order 1 and 0); the solution is unique (Groenwall, Mathlib), so every sample of the recurrence is the end "
    "state of THE solution started at the previous sample (run_exact_unique); the returned acceleration satisfies the "
    "equation of motion. Coupled path: if A U = U diag(lam), U V = 1, the modal recurrence with the code's Fe, Ae, Be "
    "mapped back through U is the state of THE solution of z' = A z + [M^-1 f; 0] (decoupled_recovers), the d / v blocks "
    "are those of the second-order equation (coupled_step_exact, coupled_run_exact), for real systems the "
    "kept-conjugate recurrence recovers exactly that real solution (delconj_recovers, coupled_run_exact_real), and its "
    "rigid-body recurrence is the rigid regime of get_su_coef at unit mass, hence exact (rb_step_is_rigid_regime, "
    "rb_run_exact). SolveExp2 and SolveExp1: given E = exp(Ah) and the two hold integrals, every sample of the E/P/Q "
    "recurrence is the end state of THE solution (exp2_*, exp1_step_exact, exp1_run_exact), SolveExp1's history is "
    "float64 for every force dtype and its v is the derivative (exp1_history_not_converted, exp1_velo_is_derivative). "
    "pre_eig: if phi' M phi = 1 and phi' K phi = diag(w), a solution of the modal system maps through phi to a solution "
    "of the physical system for every form of mass and damping (pre_eig_solution_is_solution), and the first sample is "
    "the d0, v0 that were passed (pre_eig_ic_consistent, pre_eig_first_sample). Linear solves: the model's elimination "
    "returns a solution over any field; the coupled static initial state satisfies K d0 = F0 on the elastic rows with "
    "zero rigid-body rows and zero elastic acceleration, and the coupled acceleration satisfies M a + B v + K d = F "
    "(static_ic_coupled_is_equilibrium, static_ic_coupled_accel_zero, accel_coupled_eom). Cut-offs: the literals of the "
    "regime tests are translated from the source on every run; they are the documented values and the three elastic tests "
    "partition the line (cuts_as_documented, crit_regimes_partition, classify_elastic_spec, classify_rb_spec). Bookkeeping: "
    "rb/el/rf partition [0,n) for explicit and auto-detected rb, nonrf[_rb] = rb and nonrf[_el] = el in order, _mk_slice "
    "converts exactly the contiguous ranges; static_ic gives k d0 = F0, v0 = 0, a0 = 0 on elastic rows, rf rows are the "
    "static solution. Uncoupled complex-dtype systems: the rigid-body rows are the undamped recurrence (exact iff the row "
    "is undamped: open finding F61 with proved counterexample; for the candidate repair of F61 the full statement is "
    "proved of the patched rows, complex_unc_rb_exact_fixed, complex_unc_rb_fixed_is_real_path - these theorems are about "
    "the patch, not about /repo). The same definitions run at Float (and over Q where "
    "the arithmetic is exact) and are compared with get_su_coef, SolveUnc.tsolve (option grid), the coupled path, "
    "pre_eig, SolveExp2, SolveExp1 and the complex uncoupled path on every run.",
    "level_note": "Trusted: Lean kernel; propext, Classical.choice, Quot.sound; the Python harness and the cut-off "
    "translator; libm. Partial: scipy's eig / inv / eigh and expmint's Pade evaluation are hypotheses of the coupled, "
    "SolveExp2, SolveExp1 and pre_eig theorems, measured on the implementation's own values on every run (not proved); "
    "LAPACK's solves are tied numerically to the model's proved elimination; for the coupled / SolveExp2 / pre_eig paths "
    "the chaining of the model's pieces is done by the harness; cut-off switch errors and cancellation below "
    "w*h = 1e-2 are measured (60-digit reference at the boundaries), not proved; cd_as_force belongs to C08/C17. "
    "The ..._fixed theorems (candidate repair of F61) are tied to the PATCHED source only by "
    "corpus/c01_f61_candidate_check.py (evidence in corpus/c01_f61_candidate_evidence.json) and by "
    "`C01_F61_FIXED_MODEL=1 PYYETI_REPO=<patched tree> ./check C01`; on /repo the check keeps the current model and "
    "prints KNOWN-FINDING for F61.",
    "technique": "Lean 4 proof (HasDerivAt of closed forms through one polymorphic definition, field_simp/ring "
    "identities, induction over steps, Mathlib ODE uniqueness, Matrix algebra over C for the decoupling and the "
    "conjugate-pair reduction, variation of constants for E/P/Q, congruence argument for pre_eig, proved Gaussian "
    "elimination for the linear solves) + translator (Python ast) for the cut-off literals + differential correspondence "
    "at Float and exactly over Q (including streams in which the model is driven by the implementation's own eig / expm "
    "/ eigh results, with the hypotheses of the theorems measured) + model-free oracle (solver agreement, scipy-expm "
    "reference, 60-digit one-mode reference at the cut-off boundaries, step-subdivision invariance, option invariance, "
    "static equilibrium, EOM residual)",
}

NAMES = "F G A B Fp Gp Ap Bp".split()


# ---------------------------------------------------------------------------------------
# translator: the regime cut-offs of the source -> lean/PyYetiVerif/Generated/SuCoefCuts.lean


def translate(ctx):
    from translate import c01_sucoefcuts as tr

    try:
        c = tr.run(ctx.repo, ctx.lean)
    except tr.Unparsable as e:
        raise TieBroken("cut-offs of get_su_coef / _get_complex_su_coefs / _make_rb_el: %s" % e)
    ctx.extra["cutoffs_of_the_source"] = c
    return ["SuCoefCuts"]


# ---------------------------------------------------------------------------------------
# transport


def bits(x):
    return str(struct.unpack("<Q", struct.pack("<d", float(x)))[0])


def unbits(s):
    return struct.unpack("<d", struct.pack("<Q", int(s)))[0]


def _ode():
    from pyyeti import ode

    return ode


def _quiet():
    warnings.simplefilter("ignore")
    np.seterr(all="ignore")


# ---------------------------------------------------------------------------------------
# stream (a): coefficients


def _scales(regime, m, b, k, h):
    """largest magnitude among the terms added to form each coefficient (independent of pyYeti)."""
    mm = 1.0 if m is None else m
    wo2 = k / mm
    C = (b / mm) / 2
    sc = {}
    if regime in ("under", "over"):
        # the magnitudes of the terms actually added (sin/cos/exp evaluated, signs dropped)
        w2 = abs(wo2 - C * C)
        w = math.sqrt(w2)
        t0 = abs(1 / (h * k * w))
        t2 = abs(2 * w * C / wo2)
        if regime == "under":
            ex = math.exp(-C * h)
            c_, s_ = abs(math.cos(w * h)) * ex, abs(math.sin(w * h)) * ex
            t1 = abs((w2 - C * C) / wo2)
        else:
            e1, e2 = math.exp(-h * (C - w)), math.exp(-h * (C + w))
            # esinh is itself a difference: its own terms enter with a weight that covers a few ulps of them
            c_, s_ = (e1 + e2) / 2, abs(e1 - e2) / 2 + 1e-5 * (e1 + e2) / 2
            t1 = abs((w2 + C * C) / wo2)
        dis = t0 * ((t1 + h * abs(C)) * s_ + (t2 + h * w) * c_ + t2 + w * h)
        vel = t0 * ((abs(C) + h * abs(wo2)) * s_ + w * c_ + w)
        fg = c_ + abs(C) / w * s_
        sc = dict(F=fg, G=s_ / w, A=dis, B=dis, Fp=abs(wo2 / w) * s_, Gp=fg, Ap=vel, Bp=vel)
    elif regime == "crit":
        hb = abs(h * C)
        t0 = abs(1 / (h * k))
        e = max(1.0, math.exp(-C * h))
        dis = t0 / abs(C) * (4 + 3 * hb + hb * hb) * e
        vel = t0 * (2 + hb + hb * hb) * e
        sc = dict(F=e * (1 + hb), G=h * e, A=dis, B=dis, Fp=C * C * h * e, Gp=e * (1 + hb), Ap=vel, Bp=vel)
    elif regime in ("rigid", "rigidVelo", "rigidFull"):
        sc = dict(F=1.0, G=h, A=h * h / 3 / abs(mm), B=h * h / 6 / abs(mm), Fp=1.0, Gp=1.0,
                  Ap=h / 2 / abs(mm), Bp=h / 2 / abs(mm))
        if regime != "rigid":
            beta = 2 * C
            ibm = abs(1 / (beta * mm))
            ibh = abs(1 / (beta * h))
            ibbh = abs(1 / (beta * beta * h))
            e = max(1.0, math.exp(-beta * h))
            sc.update(Gp=e, Ap=ibm * (ibh + (1 + ibh) * e), Bp=ibm * (1 + ibh * (e + 1)))
            if regime == "rigidFull":
                dis = ibm * ((abs(1 / beta) + ibbh) * e + h / 2 + ibbh)
                sc.update(G=(1 + e) / abs(beta), A=dis, B=dis)
    else:  # rf
        sc = dict(F=1.0, G=1.0, A=1.0, B=abs(1 / k), Fp=1.0, Gp=1.0, Ap=1.0, Bp=1.0)
    return sc


def _py_regime(m, b, k, h, rbflag):
    """regime label used only for generation statistics and family names (not a model)."""
    mm = 1.0 if m is None else m
    wo2 = k / mm
    C = (b / mm) / 2
    if rbflag == "1" or (rbflag == "n" and wo2 < 0.005):
        return "rb"
    rat = (wo2 - C * C) / wo2 if wo2 else float("nan")
    return "under" if rat >= 1e-8 else "crit" if abs(rat) < 1e-8 else "over"


def _gen_coef_cases(ctx, rng):
    """list of (m|None, b, k, h, rbflag, rfflag, tag)"""
    N = ctx.pick(3000, 30000)
    out = []

    def mass():
        return None if rng.random() < 0.3 else float(10 ** rng.uniform(-2, 2))

    def step():
        return float(10 ** rng.uniform(-4, 0))

    for _ in range(N):  # elastic regimes, w*h mostly in the promised domain
        m = mass()
        mm = 1.0 if m is None else m
        h = step()
        wh = 10 ** rng.uniform(-2, 1.3) if rng.random() < 0.85 else 10 ** rng.uniform(-4, -2)
        wn = wh / h
        kind = rng.integers(0, 5)
        z = [0.0, rng.uniform(0, 0.999), 1.0, rng.uniform(1.001, 6.0), 10 ** rng.uniform(-5, -1)][kind]
        k = mm * wn * wn
        b = 2 * mm * z * wn
        if kind == 2:
            # exactly critical in floating point is rare: build b from k so that C*C is close to wo2
            b = 2 * mm * math.sqrt(k / mm)
        rbf = "0" if (k / mm < 0.005 or rng.random() < 0.5) else "n"
        out.append((m, b, k, h, rbf, "0", "regime"))
    for _ in range(N // 2):  # rigid-body regimes
        m = mass()
        mm = 1.0 if m is None else m
        h = step()
        k = 0.0 if rng.random() < 0.5 else mm * rng.uniform(0, 0.0049)
        r = rng.random()
        if r < 0.25:
            C = 0.0
        elif r < 0.5:
            C = (1e-5 / math.sqrt(h)) * 10 ** rng.uniform(-3, 0)
        elif r < 0.75:
            lo, hi = 1e-5 / math.sqrt(h), 10 * (1e-10 / h) ** (1 / 3)
            C = lo * (hi / lo) ** rng.uniform(0.01, 0.99)
        else:
            C = 10 * (1e-10 / h) ** (1 / 3) * 10 ** rng.uniform(0.01, 3)
        if rng.random() < 0.1:
            C = -C
        rbf = "n" if rng.random() < 0.5 else "1"
        if rbf == "1" and rng.random() < 0.3:
            k = mm * 10 ** rng.uniform(-2, 4)  # explicit rb: k is ignored
        out.append((m, 2 * mm * C, k, h, rbf, "0", "rb"))
    # cut-offs, both sides -----------------------------------------------------------
    for _ in range(ctx.pick(300, 3000)):
        h = step()
        # |C| = 1e-5/sqrt(h): m None so that C = b/2 is exact
        cut = 1e-5 / np.sqrt(h)
        for c in (np.nextafter(cut, 0), cut, np.nextafter(cut, 1)):
            out.append((None, float(2 * c), 0.0, h, "n", "0", "cut:velo"))
        cut = 10 * (1e-10 / h) ** (1 / 3)
        for c in (np.nextafter(cut, 0), cut, np.nextafter(cut, 1)):
            out.append((None, float(2 * c), 0.0, h, "1", "0", "cut:disp"))
        # wo2 = 0.005 (auto detection), with and without a mass
        m = mass()
        mm = 1.0 if m is None else m
        k0 = 0.005 * mm
        for j in (-2, -1, 0, 1, 2):
            kk = k0
            for _i in range(abs(j)):
                kk = np.nextafter(kk, 1 if j > 0 else 0)
            out.append((m, 2 * mm * 0.01 * rng.random(), float(kk), h, "n", "0", "cut:rb"))
        # |rat| = 1e-8 on both signs; w0*h of order one so that the regimes are numerically distinct
        m = mass()
        mm = 1.0 if m is None else m
        wn = rng.uniform(1.0, 3.0) / h
        k = mm * wn * wn
        for sgn in (1.0, -1.0):
            for _i in range(3):
                rat = sgn * 1e-8 * (1 + rng.uniform(-3e-7, 3e-7) * (rng.random() < 0.7))
                b = 2 * mm * math.sqrt((k / mm) * (1 - rat))
                out.append((m, b, k, h, "0", "0", "cut:crit"))
    # residual flexibility and the partition error ----------------------------------------
    for _ in range(ctx.pick(60, 600)):
        m = mass()
        mm = 1.0 if m is None else m
        out.append((m, rng.uniform(0, 5), mm * 10 ** rng.uniform(2, 8), step(), "0", "1", "rf"))
    out.append((None, 0.0, 0.0, 0.01, "0", "0", "error"))     # elastic with k = 0 and b = 0: NaN ratio
    out.append((None, 0.0, 100.0, 0.01, "1", "1", "error"))   # rb and rf at once
    out.append((None, 0.0, 0.001, 0.01, "n", "1", "error"))   # auto rb and rf at once
    return out


def _impl_coef(case):
    from pyyeti.ode._utilities import get_su_coef

    m, b, k, h, rbf, rff, _ = case
    mv = None if m is None else np.array([m, m])
    # a second, plain elastic mode keeps `np.any(pvel)` true as in real use; index 0 is the case
    bv = np.array([b, 0.3])
    kv = np.array([k, 50.0 * (1.0 if m is None else m)])
    rb = None if rbf == "n" else (np.array([0]) if rbf == "1" else np.array([], int))
    rf = np.array([0]) if rff == "1" else None
    try:
        c = get_su_coef(mv, bv, kv, h, rb, rf)
    except ValueError as e:
        return "partition-error" if "Partitioning problem" in str(e) else "value-error"
    return [float(getattr(c, n)[0]) for n in NAMES] + [int(c.pvrb[0]), int(bool(c.pvrb_damped[0]))]


def _corr_coef(ctx, drv):
    rng = ctx.np_rng(1)
    cases = _gen_coef_cases(ctx, rng)
    req = ["coef %s %s %s %s %s %s" % ("none" if m is None else bits(m), bits(b), bits(k), bits(h), rbf, rff)
           for (m, b, k, h, rbf, rff, _) in cases]
    rep = drv.ask(req)
    worst = {}
    for case, r in zip(cases, rep):
        m, b, k, h, rbf, rff, tag = case
        impl = _impl_coef(case)
        inp = {"stream": "coef", "m": m, "b": b, "k": k, "h": h, "rb": rbf, "rf": rff}
        t = r.split()
        regime = t[0]
        ctx.case((bits(b), bits(k), bits(h), m, rbf, rff),
                 nontrivial=regime not in ("rf", "partition-error"), branch="coef:" + regime)
        ctx.count("coef-tag:" + tag)
        if regime in ("under", "over", "crit"):
            mm = 1.0 if m is None else m
            wh = math.sqrt(abs(k / mm - ((b / mm) / 2) ** 2)) * h if regime != "crit" else math.sqrt(k / mm) * h
            if wh < 1e-2:
                ctx.count("coef:graded-region(w*h<1e-2)")
        if isinstance(impl, str) or regime == "partition-error" or r == "bad-op":
            if impl != r:
                ctx.disagree("coef-error-kind", inp, impl, r)
            continue
        mv = [unbits(x) for x in t[1:]]
        m_pvrb = 1 if regime.startswith("rigid") else 0
        m_damped = 1 if regime in ("rigidVelo", "rigidFull") else 0
        if (impl[8], impl[9]) != (m_pvrb, m_damped):
            ctx.disagree("coef-classification", inp, {"pvrb": impl[8], "pvrb_damped": impl[9]}, regime)
            continue
        try:
            sc = _scales(regime, m, b, k, h)
        except (ZeroDivisionError, OverflowError, ValueError):
            sc = {n_: 0.0 for n_ in NAMES}
        if regime in ("rigid", "rf"):
            # rational formulas, the same operations in the same order: the doubles must be EQUAL
            ctx.count("coef:exact-compared")
            if any(not (iv == xv or (iv != iv and xv != xv)) for iv, xv in zip(impl[:8], mv)):
                ctx.disagree("coef-" + regime + "-exact", inp, dict(zip(NAMES, impl[:8])), dict(zip(NAMES, mv)))
            continue
        for n, iv, xv in zip(NAMES, impl[:8], mv):
            s = max(sc[n], abs(iv), abs(xv))
            if not (math.isfinite(iv) and math.isfinite(xv)):
                if not (iv == xv or (iv != iv and xv != xv)):
                    ctx.disagree("coef-" + regime, inp, {n: iv}, {n: xv})
                continue
            err = abs(iv - xv) / s if s else 0.0
            key = regime + "." + n
            worst[key] = max(worst.get(key, 0.0), err)
            if err > 1e-9:
                ctx.disagree("coef-" + regime, inp, {n: iv}, {n: xv, "regime": regime})
                break
    ctx.sample({"stream": "coef", "worst_scaled_error": {k: float("%.2e" % v) for k, v in sorted(worst.items())
                                                         if k.endswith((".A", ".Bp", ".F"))}})
    # complex coefficients -------------------------------------------------------------
    ode = _ode()
    cc = []
    for _ in range(ctx.pick(1500, 15000)):
        h = float(10 ** rng.uniform(-4, 0))
        r = rng.random()
        if r < 0.6:
            wn = 10 ** rng.uniform(-2, 1.3) / h
            z = rng.uniform(0, 1.5)
            lam = complex(-z * wn, wn * math.sqrt(abs(1 - z * z))) if z < 1 else complex(-z * wn + wn * math.sqrt(z * z - 1), 0)
        elif r < 0.8:
            lam = complex(*(10 ** rng.uniform(-7, -3) * rng.standard_normal(2)))
        else:
            c = 5.0e-5
            lam = complex(rng.choice([-1, 1]) * float(rng.choice([np.nextafter(c, 0), c, np.nextafter(c, 1)])), 0.0)
        cc.append((lam, h))
    rep = drv.ask(["cplx %s %s %s" % (bits(l.real), bits(l.imag), bits(h)) for l, h in cc])
    from types import SimpleNamespace

    for (lam, h), r in zip(cc, rep):
        pc = SimpleNamespace()
        ode.SolveUnc._get_complex_su_coefs(None, pc, np.array([lam, -1.0 + 2j]), h)
        t = r.split()
        small = t[0] == "1"
        ctx.case((lam, h), nontrivial=True, branch="cplx:" + ("small" if small else "regular"))
        vals = [unbits(x) for x in t[1:]]
        mod = [complex(vals[0], vals[1]), complex(vals[2], vals[3]), complex(vals[4], vals[5])]
        imp = [complex(pc.Fe[0]), complex(pc.Ae[0]), complex(pc.Be[0])]
        ilam = 1 / abs(lam) if lam else 0.0
        s_ab = max(ilam * ilam / h * (1 + abs(mod[0])), ilam * (1 + abs(mod[0])), h)
        for n, a, b_, s in zip(("Fe", "Ae", "Be"), imp, mod, (max(1.0, abs(mod[0])), s_ab, s_ab)):
            if abs(a - b_) > 1e-9 * s:
                ctx.disagree("cplx-coef", {"stream": "cplx", "lam": [lam.real, lam.imag], "h": h}, {n: a}, {n: b_})
                break


# ---------------------------------------------------------------------------------------
# stream (p): partition vectors (exact)


def _idx(x, n):
    if isinstance(x, slice):
        return list(range(*x.indices(n)))
    return [int(i) for i in np.asarray(x).ravel()]


def _part_cases(ctx, rng):
    cases = []
    nmax = ctx.pick(3, 4)
    import itertools

    for n in range(1, nmax + 1):
        for lab in itertools.product("ser", repeat=n):  # s: rb (small k), e: elastic, r: rf
            rf = [i for i in range(n) if lab[i] == "r"]
            rbs = [i for i in range(n) if lab[i] == "s"]
            cases.append((n, None, rf, rbs))
            cases.append((n, rbs, rf, rbs))
    for _ in range(ctx.pick(150, 1500)):
        n = int(rng.integers(2, 9))
        lab = rng.choice(list("sseeer"), n)
        rf = [i for i in range(n) if lab[i] == "r"]
        rbs = [i for i in range(n) if lab[i] == "s"]
        given = None if rng.random() < 0.4 else list(rbs)
        if given is not None and rng.random() < 0.3:
            given = [int(i) for i in rng.permutation(given)]
        cases.append((n, given, rf, rbs))
    return cases


def _corr_part(ctx, drv):
    ode = _ode()
    rng = ctx.np_rng(2)
    cases = _part_cases(ctx, rng)
    req = []
    for n, rb, rf, small in cases:
        req.append("part %d %s %s %s" % (
            n,
            "n" if rb is None else " ".join([str(len(rb))] + [str(i) for i in rb]),
            " ".join([str(len(rf))] + [str(i) for i in rf]),
            " ".join("1" if i in small else "0" for i in range(n))))
    rep = drv.ask(req)
    for (n, rb, rf, small), r in zip(cases, rep):
        k = np.array([0.001 if i in small else 100.0 + i for i in range(n)])
        k[rf] = 1e6
        b = np.zeros(n)
        parts = r.split("|")
        model = [[int(x) for x in p.split()] for p in parts[:7]] + [parts[7] == "1"]
        inp = {"stream": "part", "n": n, "rb": rb, "rf": rf, "small": small}
        for cls in ("SolveExp2", "SolveUnc"):
            try:
                s = getattr(ode, cls)(None, b, k, 0.01, rb=rb, rf=rf)
            except (ValueError, IndexError) as e:
                ctx.disagree("partition-raises", dict(inp, solver=cls), type(e).__name__ + ": " + str(e)[:80], model)
                break
            impl = [_idx(s.nonrf, n), _idx(s.rf, n), _idx(s.rb, n), _idx(s.el, n), _idx(s._rb, n - len(rf)),
                    _idx(s._el, n - len(rf))]
            if impl != model[:6] or bool(s.slices) != model[7]:
                ctx.disagree("partition", inp, impl + [bool(s.slices)], model)
                break
            if cls == "SolveUnc" and n - len(rf) > 0:
                # what __init__ handed to get_su_coef as `rbmodes`, observed through pc.pvrb
                pv = [int(i) for i in np.nonzero(s.pc.pvrb)[0]]
                if pv != sorted(model[6]):
                    ctx.disagree("partition-coefRb", inp, pv, model[6])
                    break
        nontriv = bool(rf) or (rb is not None and rb != sorted(rb))
        ctx.case((n, tuple(rb) if rb is not None else None, tuple(rf), tuple(small)), nontrivial=nontriv,
                 branch="part:" + ("auto" if rb is None else "given"))
        if rf and small and min(rf) < max(small):
            ctx.count("part:rf-below-rb")


# ---------------------------------------------------------------------------------------
# system specs shared by stream (b), stream (c) and the oracle


def _gen_modal(rng, n=None, oracle=False, allow_rf=True, allow_rb=True, allow_crit=True, layout=None):
    """modal data: lists m(None|list), b, k, labels per mode, h.  `oracle`: well-conditioned only."""
    n = int(rng.integers(1, 7)) if n is None else n
    h = float(10 ** rng.uniform(-3, -1))
    kinds = []
    for _ in range(n):
        r = rng.random()
        if allow_rb and r < 0.2:
            kinds.append("rb")
        elif allow_rf and r < 0.35:
            kinds.append("rf")
        else:
            kinds.append("el")
    if "el" not in kinds and "rb" not in kinds:
        kinds[0] = "el"
    layout = layout or ("contiguous" if rng.random() < 0.5 else "interleaved")
    if layout == "contiguous":
        kinds.sort(key=lambda s: {"rb": 0, "el": 1, "rf": 2}[s])
    has_m = rng.random() < 0.6
    m, b, k, sub = [], [], [], []
    for kd in kinds:
        mm = float(10 ** rng.uniform(-1, 1)) if has_m else 1.0
        if kd == "rb":
            r = rng.random()
            kk = 0.0
            if r < 0.5 or (oracle and r < 0.6):
                C, s = 0.0, "rb-undamped"
            elif oracle or r < 0.7:
                C, s = rng.uniform(0.1, 4.0) / (2 * h), "rb-damped-full"
            elif r < 0.85:
                lo, hi = 1e-5 / math.sqrt(h), 10 * (1e-10 / h) ** (1 / 3)
                C, s = lo * (hi / lo) ** rng.uniform(0.05, 0.95), "rb-damped-velo"
            else:
                C, s = (1e-5 / math.sqrt(h)) * 10 ** rng.uniform(-2, -0.1), "rb-light"
            bb = 2 * mm * C
            if not oracle and rng.random() < 0.3:
                kk = mm * rng.uniform(0, 0.004) * min(1.0, 1 / mm)  # |k| < 0.005 and k/m < 0.005
        elif kd == "rf":
            kk, bb, s = mm * 10 ** rng.uniform(4, 7), float(rng.uniform(0, 2)), "rf"
        else:
            wh = 10 ** rng.uniform(-1.2 if oracle else -1.9, 1.2)
            wn = wh / h
            r = rng.random()
            if r < 0.55:
                z, s = rng.uniform(0, 0.9), "under"
            elif r < 0.7 and allow_crit:
                z, s = 1.0, "crit"
            elif r < 0.9:
                z, s = rng.uniform(1.1, 4.0), "over"
            else:
                z, s = 0.0, "undamped"
            kk = mm * wn * wn
            bb = 2 * mm * z * wn
            if s == "crit":
                bb = 2 * mm * math.sqrt(kk / mm)
            if kk < 0.01 or kk / mm < 0.01:  # keep clear of the rb auto-detection tolerance
                kk = mm * max(1.0, 1 / mm) * 0.02 * (1 + rng.random())
                bb = 2 * mm * 0.1 * math.sqrt(kk / mm)
                s = "under"
        m.append(mm)
        b.append(float(bb))
        k.append(float(kk))
        sub.append(s)
    return {"n": n, "h": h, "m": m if has_m else None, "b": b, "k": k, "kinds": kinds, "sub": sub,
            "layout": layout}



def _gen_ic_vec(rng, n, p_none, scale=1.0):
    """None, EXACT zeros (an explicit zero start must be honoured, e.g. together with static_ic), partly zero, or random"""
    u = rng.random()
    if u < p_none:
        return None
    v = rng.standard_normal(n) * scale
    if u < p_none + 0.12:
        v[:] = 0.0
    elif u < p_none + 0.2:
        v[rng.random(n) < 0.5] = 0.0
    return [float(x) for x in v]


def _gen_sys(ctx, rng, oracle=False, **kw):
    s = _gen_modal(rng, oracle=oracle, **kw)
    n = s["n"]
    nt = int(rng.integers(2, 25))
    s["order"] = int(rng.integers(0, 2))
    s["rb"] = None if rng.random() < 0.5 else [i for i in range(n) if s["kinds"][i] == "rb"]
    s["rf"] = [i for i in range(n) if s["kinds"][i] == "rf"]
    s["static"] = bool(rng.random() < 0.3)
    s["d0"] = _gen_ic_vec(rng, n, 0.45)
    s["v0"] = _gen_ic_vec(rng, n, 0.45, 0.1 / s["h"])
    F = rng.standard_normal((n, nt)) * 10 ** rng.uniform(-1, 2)
    if rng.random() < 0.15:
        F[:, 0] = 0.0
    s["F"] = [[float(x) for x in row] for row in F]
    s["pack"] = str(rng.choice(["1d", "2d", "mixed"]))
    return s


def _rf_below_rb(s):
    rbs = [i for i in range(s["n"]) if s["kinds"][i] == "rb"] if s.get("rb") is None else list(s["rb"])
    return bool(rbs) and bool(s["rf"]) and min(s["rf"]) < max(rbs)


def _mats(s, pack=None):
    pack = pack or s.get("pack", "1d")
    m = None if s["m"] is None else np.array(s["m"], float)
    b = np.array(s["b"], float)
    k = np.array(s["k"], float)
    if pack == "2d":
        m = None if m is None else np.diag(m)
        b, k = np.diag(b), np.diag(k)
    elif pack == "mixed":
        b = np.diag(b)
    return m, b, k


def _arr(x):
    return None if x is None else np.array(x, float)


def _run_impl(s, cls="SolveUnc", pack=None, **over):
    ode = _ode()
    m, b, k = _mats(s, pack)
    a = dict(rb=s["rb"], rf=s["rf"] or None, order=s["order"])
    a.update(over)
    try:
        sol = getattr(ode, cls)(m, b, k, s["h"], **a).tsolve(np.array(s["F"], float), _arr(s["d0"]), _arr(s["v0"]),
                                                           s["static"])
    except ValueError as e:
        return "err:partition" if "Partitioning problem" in str(e) else "err:value:" + str(e)[:60]
    except IndexError:
        return "err:index"
    return sol


def _sys_request(s):
    n = s["n"]
    nt = len(s["F"][0])
    t = ["sys", str(s["order"]), bits(s["h"]), str(n)]
    if s["m"] is None:
        t.append("none")
    else:
        t += ["vec"] + [bits(x) for x in s["m"]]
    t += [bits(x) for x in s["b"]] + [bits(x) for x in s["k"]]
    t += ["n"] if s["rb"] is None else [str(len(s["rb"]))] + [str(i) for i in s["rb"]]
    t += [str(len(s["rf"]))] + [str(i) for i in s["rf"]]
    t.append("1" if s["static"] else "0")
    for v in (s["d0"], s["v0"]):
        t += ["n"] if v is None else ["y"] + [bits(x) for x in v]
    t.append(str(nt))
    for row in s["F"]:
        t += [bits(x) for x in row]
    return " ".join(t)


def _sys_reply(r, n, nt):
    if not r.startswith("ok "):
        return r
    v = np.array([unbits(x) for x in r.split()[1:]])
    return v[: n * nt].reshape(n, nt), v[n * nt: 2 * n * nt].reshape(n, nt), v[2 * n * nt:].reshape(n, nt)


def _row_regime(m, b, k, h, isrb):
    """regime label used only to pick the scale terms (not compared with anything)"""
    if isrb:
        C = abs((b / m) / 2)
        if C <= 1e-5 / math.sqrt(h):
            return "rigid"
        return "rigidVelo" if C <= 10 * (1e-10 / h) ** (1 / 3) else "rigidFull"
    return _py_regime(m, b, k, h, "0")


def _hist_scale(s, d, v, a):
    """row-wise scale: the largest magnitude among the terms that form each quantity, including the
    terms inside the coefficients (`_scales`)"""
    n = s["n"]
    F = np.abs(np.array(s["F"], float)).max(axis=1)
    m = np.ones(n) if s["m"] is None else np.array(s["m"], float)
    b, k = np.array(s["b"], float), np.array(s["k"], float)
    D = np.abs(d).max(axis=1)
    V = np.abs(v).max(axis=1)
    rbs = [i for i in range(n) if s["kinds"][i] == "rb"] if s["rb"] is None else s["rb"]
    sd, sv = np.zeros(n), np.zeros(n)
    for i in range(n):
        if i in s["rf"]:
            sd[i], sv[i] = D[i] + 1e-300, 1.0
            continue
        try:
            sc = _scales(_row_regime(m[i], b[i], k[i], s["h"], i in rbs), m[i], b[i], k[i], s["h"])
        except (ZeroDivisionError, OverflowError, ValueError):
            sd[i] = sv[i] = float("inf")
            continue
        sd[i] = max(D[i], sc["F"] * D[i] + sc["G"] * V[i] + (sc["A"] + sc["B"]) * F[i]) + 1e-300
        sv[i] = max(V[i], sc["Fp"] * D[i] + sc["Gp"] * V[i] + (sc["Ap"] + sc["Bp"]) * F[i]) + 1e-300
        sd[i] = max(sd[i], sc["G"] * sv[i])  # an error of the velocity enters the displacement through G
    sa = (F + np.abs(b) * sv + np.abs(k) * sd) / np.abs(m) + 1e-300
    return sd, sv, sa


def _corr_hist(ctx, drv):
    rng = ctx.np_rng(3)
    N = ctx.pick(2000, 20000)
    specs = _corpus(ctx) + [_gen_sys(ctx, rng) for _ in range(N)]
    # the option grid on one fixed small system: order x pack x rb x static x ic
    base = _gen_sys(ctx, rng, n=4, layout="contiguous")
    for order in (0, 1):
        for pack in ("1d", "2d", "mixed"):
            for rbg in (False, True):
                for static in (False, True):
                    for ic in (False, True):
                        s = dict(base)
                        s.update(order=order, pack=pack, static=static,
                                 rb=[i for i in range(4) if base["kinds"][i] == "rb"] if rbg else None,
                                 d0=[0.1, -0.2, 0.3, 0.05] if ic else None,
                                 v0=[1.0, 0.5, -0.5, 0.0] if ic else None)
                        specs.append(s)
    rep = drv.ask([_sys_request(s) for s in specs])
    worst = 0.0
    for s, r in zip(specs, rep):
        n, nt = s["n"], len(s["F"][0])
        model = _sys_reply(r, n, nt)
        impl = _run_impl(s)
        dyn = sum(1 for kd in s["kinds"] if kd != "rf")
        ctx.case(json.dumps(s, sort_keys=True), nontrivial=dyn > 0 and nt >= 3,
                 branch="hist:order%d" % s["order"])
        for tag in {"hist:" + x for x in s["sub"]} | {"hist:layout-" + s["layout"], "hist:pack-" + s["pack"],
                                                        "hist:m-" + ("none" if s["m"] is None else "given"),
                                                        "hist:rb-" + ("auto" if s["rb"] is None else "given"),
                                                        "hist:static" if s["static"] and s["d0"] is None else "hist:explicit-or-zero-ic"}:
            ctx.count(tag)
        inp = dict(s, stream="hist")
        if isinstance(model, str) or isinstance(impl, str):
            ctx.count("hist:" + (model if isinstance(model, str) else "impl-error"))
            if not (isinstance(model, str) and isinstance(impl, str) and impl == model):
                ctx.disagree("hist-error-kind", inp, impl if isinstance(impl, str) else "ok",
                             model if isinstance(model, str) else "ok")
            continue
        sd, sv, sa = _hist_scale(s, model[0], model[1], model[2])
        # differences come from 1-ulp exp/sin/cos differences in the coefficients and grow at most
        # linearly with the number of steps
        tol = 1e-9
        bad = None
        for nm, iv, mv, sc in (("d", impl.d, model[0], sd), ("v", impl.v, model[1], sv), ("a", impl.a, model[2], sa)):
            e = np.abs(iv - mv) / sc[:, None]
            if not np.all(np.isfinite(iv) == np.isfinite(mv)):
                bad = (nm, "non-finite pattern differs")
                break
            e = np.where(np.isfinite(e), e, 0.0)
            worst = max(worst, float(e.max()))
            if e.max() > tol:
                i, j = np.unravel_index(np.argmax(e), e.shape)
                bad = (nm, {"row": int(i), "col": int(j), "impl": float(iv[i, j]), "model": float(mv[i, j])})
                break
        if bad:
            ctx.disagree("hist-" + bad[0], inp, bad[1], "model history")
    ctx.sample({"stream": "hist", "worst_scaled_error": float("%.2e" % worst), "systems": len(specs)})


# ---------------------------------------------------------------------------------------
# stream (c): coupled path, pre_eig, SolveExp2, SolveExp1 against the closed form


def _phi(rng, n):
    q, _ = np.linalg.qr(rng.standard_normal((n, n)))
    return q * rng.uniform(0.6, 1.6, n)[None, :]


def _physical(s, phi):
    """M, B, K with phi' M phi = diag(m) etc."""
    ip = np.linalg.inv(phi)
    m = np.ones(s["n"]) if s["m"] is None else np.array(s["m"], float)
    M = ip.T @ np.diag(m) @ ip
    B = ip.T @ np.diag(s["b"]) @ ip
    K = ip.T @ np.diag(s["k"]) @ ip
    return M, B, K


def _gen_coupled(ctx, rng, oracle=False):
    """elastic, well separated, non-critical modes (the eigen path needs a diagonalisable A)"""
    for _ in range(100):
        n = int(rng.integers(2, 6))
        s = _gen_modal(rng, n=n, oracle=True, allow_rf=False, allow_rb=False, allow_crit=False)
        m = np.ones(n) if s["m"] is None else np.array(s["m"])
        # all masses one in modal space: the mode shapes are then mass-normalised (pre_eig's phi)
        s["k"] = [float(x) for x in np.array(s["k"]) / m]
        s["b"] = [float(x) for x in np.array(s["b"]) / m]
        s["m"] = None
        wn = np.sqrt(np.array(s["k"]))
        z = np.array(s["b"]) / (2 * wn)
        lam = []
        for w_, z_ in zip(wn, z):
            if z_ < 1:
                lam += [complex(-z_ * w_, w_ * math.sqrt(1 - z_ * z_))]
            else:
                lam += [-z_ * w_ + w_ * math.sqrt(z_ * z_ - 1), -z_ * w_ - w_ * math.sqrt(z_ * z_ - 1)]
        lam = np.array(lam, complex)
        sep = min([abs(a - b) / max(abs(a), abs(b)) for i, a in enumerate(lam) for b in lam[i + 1:]] + [1.0])
        spread = wn.max() / wn.min()
        zmax = z.max()
        if sep > 0.08 and spread < 300 and zmax < 3.0 and (wn * s["h"]).max() < 8:
            break
    if rng.random() < 0.4:
        # undamped rigid-body modes: handled by pre_eig (auto-detected) and by the expm solvers; the plain
        # complex-eigenvalue path documents that it needs pre_eig for them and is skipped
        nrb = int(rng.integers(1, 3))
        n += nrb
        s["n"] = n
        s["k"] = [0.0] * nrb + s["k"]
        s["b"] = [0.0] * nrb + s["b"]
        s["kinds"] = ["rb"] * nrb + s["kinds"]
        s["sub"] = ["rb-undamped"] * nrb + s["sub"]
    nt = int(rng.integers(3, 20))
    s["order"] = int(rng.integers(0, 2))
    s["rb"], s["rf"], s["static"] = None, [], False
    s["d0"] = None if rng.random() < 0.3 else [float(x) for x in rng.standard_normal(n)]
    s["v0"] = None if rng.random() < 0.3 else [float(x) for x in rng.standard_normal(n) * 0.1 / s["h"]]
    s["F"] = [[float(x) for x in row] for row in rng.standard_normal((n, nt)) * 10 ** rng.uniform(-1, 2)]
    phi = _phi(rng, n)
    nrb = sum(1 for kd in s["kinds"] if kd == "rb")
    s["blockphi"] = bool(nrb and rng.random() < 0.6)
    if s["blockphi"]:
        # rigid-body modes not mixed with the elastic ones: the physical K and B have exactly zero rb rows and
        # columns, so the complex-eigenvalue path detects them itself and runs its own rigid-body recurrence
        phi = np.zeros((n, n))
        phi[:nrb, :nrb] = np.diag(rng.uniform(0.6, 1.6, nrb))
        phi[nrb:, nrb:] = _phi(rng, n - nrb)
    s["phi"] = [[float(x) for x in row] for row in phi]
    s["pack"] = "1d"
    return s


def _coupled_variants(s):
    """{name: (d, v, a) | error string} for the five exact solver variants on the physical system"""
    ode = _ode()
    phi = np.array(s["phi"])
    M, B, K = _physical(s, phi)
    F = np.array(s["F"], float)  # physical force
    d0, v0 = _arr(s["d0"]), _arr(s["v0"])
    out = {}

    def run(name, fn):
        try:
            with warnings.catch_warnings():
                warnings.simplefilter("ignore")
                sol = fn()
            out[name] = (np.asarray(sol.d), np.asarray(sol.v), np.asarray(sol.a))
        except Exception as e:  # noqa: BLE001 - reported as an observation
            out[name] = "err:%s:%s" % (type(e).__name__, str(e)[:80])

    o = s["order"]
    if min(s["k"]) > 0 or s.get("blockphi"):
        run("SolveUnc-coupled", lambda: ode.SolveUnc(M, B, K, s["h"], order=o).tsolve(F, d0, v0))
    run("SolveUnc-pre_eig", lambda: ode.SolveUnc(M, B, K, s["h"], order=o, pre_eig=True).tsolve(F, d0, v0))
    run("SolveExp2", lambda: ode.SolveExp2(M, B, K, s["h"], order=o).tsolve(F, d0, v0))
    run("SolveExp2-pre_eig", lambda: ode.SolveExp2(M, B, K, s["h"], order=o, pre_eig=True).tsolve(F, d0, v0))

    def exp1():
        n = s["n"]
        A = np.zeros((2 * n, 2 * n))
        A[:n, :n] = -np.linalg.solve(M, B)
        A[:n, n:] = -np.linalg.solve(M, K)
        A[n:, :n] = np.eye(n)
        f = np.vstack([np.linalg.solve(M, F), np.zeros_like(F)])
        y0 = np.concatenate([v0 if v0 is not None else np.zeros(n), d0 if d0 is not None else np.zeros(n)])
        sol = ode.SolveExp1(A, s["h"], order=o).tsolve(f, y0)
        from types import SimpleNamespace

        return SimpleNamespace(d=sol.d[n:], v=sol.d[:n], a=sol.v[:n])

    run("SolveExp1", exp1)
    return out, (M, B, K)


def _modal_spec(s):
    """the modal (uncoupled) problem equivalent to the physical one: q = inv(phi) x, force phi' F"""
    phi = np.array(s["phi"])
    t = dict(s)
    t["F"] = (phi.T @ np.array(s["F"], float)).tolist()
    t["d0"] = None if s["d0"] is None else np.linalg.solve(phi, np.array(s["d0"])).tolist()
    t["v0"] = None if s["v0"] is None else np.linalg.solve(phi, np.array(s["v0"])).tolist()
    return t


def _corr_coupled(ctx, drv):
    rng = ctx.np_rng(4)
    specs = [_gen_coupled(ctx, rng) for _ in range(ctx.pick(300, 3000))]
    rep = drv.ask([_sys_request(_modal_spec(s)) for s in specs])
    worst = {}
    for s, r in zip(specs, rep):
        n, nt = s["n"], len(s["F"][0])
        model = _sys_reply(r, n, nt)
        if isinstance(model, str):
            raise Infra("model refuses a coupled-stream system: " + model)
        phi = np.array(s["phi"])
        ref = [phi @ x for x in model]
        cond = np.linalg.cond(phi)
        var, _ = _coupled_variants(s)
        ctx.case(json.dumps(s, sort_keys=True), nontrivial=True, branch="coupled:order%d" % s["order"])
        if min(s["k"]) == 0:
            ctx.count("coupled:with-rigid-body-modes")
        if s.get("blockphi"):
            ctx.count("coupled:complex-path-rigid-body-recurrence")
        for name, res in var.items():
            ctx.count("coupled:" + name)
            inp = dict(s, stream="coupled", solver=name)
            if isinstance(res, str):
                ctx.disagree("coupled-" + name, inp, res, "closed form")
                continue
            wmax = math.sqrt(max(s["k"])) + max(s["b"])
            sd = np.abs(ref[0]).max() + s["h"] * np.abs(ref[1]).max() + 1e-300
            sv = np.abs(ref[1]).max() + wmax * sd
            sa = np.abs(ref[2]).max() + wmax * sv + np.abs(np.array(s["F"])).max() * (np.abs(phi).max() ** 2) * n
            # eig/expm based paths: 1e-7 graded by the conditioning of the mode shapes
            tol = 1e-7 * max(1.0, cond)
            for nm, iv, mv, sc in (("d", res[0], ref[0], sd), ("v", res[1], ref[1], sv), ("a", res[2], ref[2], sa)):
                e = float(np.abs(iv - mv).max() / sc)
                worst[name] = max(worst.get(name, 0.0), e)
                if not e <= tol:
                    ctx.disagree("coupled-" + name, inp, {nm: e}, {"tolerance": tol})
                    break
    ctx.sample({"stream": "coupled", "worst_scaled_error": {k: float("%.2e" % v) for k, v in worst.items()}})


# ---------------------------------------------------------------------------------------
# stream (p2): auto-detected rigid-body set of coupled systems (exact)


def _partc_cases(ctx, rng):
    tol = 0.005
    near = [0.0, tol, -tol, float(np.nextafter(tol, 0)), float(np.nextafter(tol, 1)), -float(np.nextafter(tol, 0)),
            -float(np.nextafter(tol, 1)), 0.0049, -0.0049, 0.0051, 1e-4, -2e-4]
    out = []
    for _ in range(ctx.pick(400, 4000)):
        n = int(rng.integers(2, 7))
        rf = sorted(int(i) for i in np.nonzero(rng.random(n) < 0.2)[0])
        if len(rf) > n - 2:
            rf = rf[: max(0, n - 2)]
        nr = n - len(rf)
        K = np.zeros((nr, nr))
        B = np.zeros((nr, nr))
        small = rng.random(nr) < 0.5  # candidate rigid-body positions
        for X in (K, B):
            for i in range(nr):
                for j in range(nr):
                    if small[i] or small[j]:
                        X[i, j] = float(rng.choice(near)) if rng.random() < 0.5 else 0.0
                    else:
                        X[i, j] = float(rng.standard_normal() * 50) if (i == j or rng.random() < 0.5) else 0.0
        if rng.random() < 0.3 and small.any():
            # one entry well above the tolerance in the row or in the column only, in k or in b only
            i = int(rng.choice(np.nonzero(small)[0]))
            j = int(rng.integers(0, nr))
            X = K if rng.random() < 0.5 else B
            if rng.random() < 0.5:
                X[i, j] = float(rng.choice([1.0, -1.0, 0.006, -0.006]))
            else:
                X[j, i] = float(rng.choice([1.0, -1.0, 0.006, -0.006]))
        off = ~np.eye(nr, dtype=bool)

        def diagonal(X):
            # the documented coupling test (ytools.isdiag on the full matrices, rf rows included: off-diagonal
            # <= 1e-12 * largest diagonal entry; the rf stiffness used below is 1e6)
            return np.abs(X[off]).max() <= 1e-12 * max(np.abs(np.diag(X)).max(), 1e6 if rf else 0.0)

        if diagonal(K) and diagonal(B):
            # keep the system coupled (otherwise the uncoupled test `abs(k) < tol` applies): an off-diagonal stiffness
            # entry below the rigid-body tolerance but far above the coupling tolerance
            K[0, 1] = 0.004 if (small[0] or small[1]) else 1.0
        out.append((n, rf, K, B))
    return out


def _corr_partc(ctx, drv):
    ode = _ode()
    rng = ctx.np_rng(6)
    cases = _partc_cases(ctx, rng)
    req = ["partc %d %s %s %s" % (n, " ".join([str(len(rf))] + [str(i) for i in rf]), _fmat(K), _fmat(B))
           for n, rf, K, B in cases]
    rep = drv.ask(req)
    for (n, rf, K, B), r in zip(cases, rep):
        nonrf = [i for i in range(n) if i not in rf]
        Kf, Bf = np.zeros((n, n)), np.zeros((n, n))
        Kf[np.ix_(nonrf, nonrf)] = K
        Bf[np.ix_(nonrf, nonrf)] = B
        for i in rf:
            Kf[i, i] = 1e6
        parts = r.split("|")
        model = [[int(x) for x in p_.split()] for p_ in parts[:7]] + [parts[7] == "1"]
        inp = {"stream": "partc", "n": n, "rf": rf, "k": K.tolist(), "b": B.tolist()}
        try:
            s = ode.SolveExp2(None, Bf, Kf, 0.01, rf=rf or None)
        except Exception as e:  # noqa: BLE001
            ctx.disagree("partition-coupled-raises", inp, type(e).__name__ + ": " + str(e)[:80], model)
            continue
        impl = [_idx(s.nonrf, n), _idx(s.rf, n), _idx(s.rb, n), _idx(s.el, n), _idx(s._rb, n - len(rf)),
                _idx(s._el, n - len(rf))]
        if impl != model[:6] or bool(s.slices) != model[7]:
            ctx.disagree("partition-coupled", inp, impl + [bool(s.slices)], model)
        else:
            try:
                with warnings.catch_warnings():
                    warnings.simplefilter("ignore")
                    u = ode.SolveUnc(None, Bf, Kf, 0.01, rf=rf or None)
                # get_su_eig shrinks kdof to the elastic set: kdof = nonrf[_el] = el (el_order_agrees)
                got = [_idx(u.rb, n), _idx(u.el, n), _idx(u.kdof, n)]
                if got != [model[2], model[3], model[3]]:
                    ctx.disagree("partition-coupled-SolveUnc", inp, got, [model[2], model[3], model[3]])
            except (np.linalg.LinAlgError, ValueError):
                ctx.count("partc:SolveUnc-eig-refuses")
        ctx.case((n, tuple(rf), K.tobytes(), B.tobytes()), nontrivial=bool(model[2]) and bool(model[3]),
                 branch="partc:auto")
        if model[2]:
            ctx.count("partc:with-rb")
        if rf:
            ctx.count("partc:with-rf")
        if model[7]:
            ctx.count("partc:slices")
        else:
            ctx.count("partc:no-slices")


# ---------------------------------------------------------------------------------------
# stream (q): coupled path of SolveUnc driven with the implementation's own eigen-decomposition
# stream (r): SolveExp2 driven with the implementation's own E, P, Q
# The Lean model (`coupledRun`, `rbStep`, `runExp`) gets pc.lam/ur/ur_inv (resp. E, P, Q) as the specification
# instance; the hypotheses of delconj_recovers / exp2_step_exact (DelconjSpec / ExpSpec) are measured on
# that instance with plain numpy/scipy; M^-1 F, the static initial state and the acceleration are computed here.


def _cbits(z):
    z = complex(z)
    return bits(z.real) + " " + bits(z.imag)


def _cmat(a):
    return " ".join(_cbits(z) for z in np.asarray(a, complex).ravel())


def _fmat(a):
    return " ".join(bits(x) for x in np.asarray(a, float).ravel())


def _gen_pc_specs(ctx, rng, n_general, n_modal):
    out = []
    tries = 0
    while len(out) < n_general and tries < 20 * n_general:
        tries += 1
        s = _gen_general(rng)
        if s["nz"] and not (s["style"] == "skew-on-zero-stiffness" and s["nz"] >= 2):
            continue
        s["static"] = bool(s["d0"] is None and s["nz"] == 0 and rng.random() < 0.5)  # K_ee must be non-singular
        out.append(s)
    for _ in range(n_modal):
        c = _gen_coupled(ctx, rng)
        if min(c["k"]) == 0 and not c.get("blockphi"):
            continue
        M, B, K = _physical(c, np.array(c["phi"]))
        if c.get("blockphi") and rng.random() < 0.5:
            c = dict(c, d0=None)  # static initial conditions together with rigid-body rows (which must start at zero)
        out.append({"kind": "general", "n": c["n"], "h": c["h"], "order": c["order"], "style": "modal", "nz": 0,
                    "M": M.tolist(), "B": B.tolist(), "K": K.tolist(), "F": c["F"], "d0": c["d0"], "v0": c["v0"],
                    "static": bool(c["d0"] is None and (c.get("blockphi") or rng.random() < 0.5)),
                    "blockphi": bool(c.get("blockphi")), "usys": c})
    return out


def _state_matrix(M, B, K):
    n = K.shape[0]
    Mi = np.linalg.inv(M)
    A = np.zeros((2 * n, 2 * n), np.result_type(M, B, K, float))
    A[:n, :n] = -Mi @ B
    A[:n, n:] = -Mi @ K
    A[n:, :n] = np.eye(n)
    return A


def _slow_mode_grade(lam, h):
    """SolveUnc's complex coefficients Ae, Be = O(h) are formed from terms of size 1/(lam^2 h): below |lam| h = 1e-2
    they lose (|lam| h)^-2 digits by cancellation (the coupled-path counterpart of the (w h)^-3 rule of the uncoupled
    path).  Returns None (out of scope: a mode with 5e-5 <= |lam| and |lam| h < 1e-3) or the factor by which
    tolerances are graded ((1e-2 / (|lam| h))^2 in the band 1e-3 <= |lam| h < 1e-2, else 1)."""
    a = np.abs(np.asarray(lam))
    a = a[a >= 5.0e-5]
    if a.size == 0:
        return 1.0
    lh = float(a.min() * h)
    if lh < 1e-3:
        return None
    return max(1.0, (1e-2 / lh) ** 2)


def _delconj_spec(pc, A):
    """the five conditions of DelconjSpec measured on the kept data: (residual, cond(fullU)) or a string"""
    lam = np.asarray(pc.lam)
    ur = np.vstack([np.asarray(pc.ur_v), np.asarray(pc.ur_d)])
    ui = np.hstack([np.asarray(pc.ur_inv_v), np.asarray(pc.ur_inv_d)])
    if np.any(lam.imag < 0):
        return "conjugates-not-deleted"
    cpx = lam.imag > 0
    U = np.hstack([ur / np.where(cpx, 2.0, 1.0)[None, :], np.conj(ur[:, cpx]) / 2.0])
    V = np.vstack([ui, np.conj(ui[cpx])])
    L = np.concatenate([lam, np.conj(lam[cpx])])
    if U.shape[0] != U.shape[1]:
        return "rebuilt-decomposition-not-square"
    cond = np.linalg.cond(U)
    nA = max(1.0, np.abs(A).max())
    res = max(np.abs(U @ V - np.eye(U.shape[0])).max(), np.abs(V @ U - np.eye(U.shape[0])).max(),
              np.abs(A @ U - U * L[None, :]).max() / (nA * max(1.0, np.abs(U).max())))
    re = ~cpx
    if re.any():
        res = max(res, np.abs(ur[:, re].imag).max() / max(1e-300, np.abs(ur).max()),
                  np.abs(ui[re].imag).max() / max(1e-300, np.abs(ui).max()))
    return float(res), float(cond)


def _drive(drv, gens):
    """run generator jobs in lockstep: each job yields a list of request lines and is sent the list of replies
    (one driver process per round, not per job); returns the jobs' return values in order"""
    results = [None] * len(gens)
    active = {}
    for i, g in enumerate(gens):
        try:
            active[i] = (g, next(g))
        except StopIteration as e:
            results[i] = e.value
    while active:
        order = list(active)
        flat = [r for i in order for r in active[i][1]]
        rep = drv.ask(flat)
        pos, nxt = 0, {}
        for i in order:
            g, reqs = active[i]
            mine = rep[pos:pos + len(reqs)]
            pos += len(reqs)
            try:
                nxt[i] = (g, g.send(mine))
            except StopIteration as e:
                results[i] = e.value
        active = nxt
    return results


def _fvals(r, what):
    if not r.startswith("ok"):
        raise Infra("model refuses %s: %s" % (what, r[:120]))
    return np.array([unbits(t) for t in r.split()[1:]])


def _qvals(r, what):
    """`ok n/d n/d …` -> list of Fractions"""
    if not r.startswith("ok"):
        raise Infra("model refuses %s: %s" % (what, r[:120]))
    out = []
    for t in r.split()[1:]:
        if "/" in t:
            a, b = t.split("/")
            out.append(Fraction(int(a), int(b)))
        else:
            out.append(t)
    return out


def _job_static_msolve(M, K, F, el, extra, static_wanted):
    """round 1 of the coupled jobs: the static initial state of the elastic rows over the rationals (`staticc`),
    M^-1 F on the index sets of `extra` at Float (`msolve`).  Yields one request list; returns (x | None, [M^-1 F …])"""
    reqs = []
    if static_wanted:
        ee = np.ix_(el, el)
        reqs.append("staticc %d %s %s" % (len(el), _fmat(K[ee]), _fmat(F[el, 0])))
    for idx in extra:
        if M is not None and len(idx):
            reqs.append("msolve %d %s %d %s" % (len(idx), _fmat(M[np.ix_(idx, idx)]), F.shape[1], _fmat(F[idx])))
    rep = yield reqs
    rep = list(rep)
    x = None
    if static_wanted:
        r = rep.pop(0)
        if r == "singular":
            return "singular", None
        x = np.array([float(q) for q in _qvals(r, "a static initial state")])
    sols = []
    for idx in extra:
        if M is not None and len(idx):
            r = rep.pop(0)
            if r == "singular":
                return "singular", None
            sols.append(_fvals(r, "a mass solve").reshape(len(idx), F.shape[1]))
        else:
            sols.append(F[idx].copy())
    return x, sols


def _job_unc_coupled(ctx, ts, M, B, K, F, d0, v0, static, tag="pc"):
    """the Lean model of SolveUnc's coupled path on the matrices the solver works with (`M` None: identity), driven
    by the implementation's own pc.lam / ur / ur_inv; every linear solve is done by the model (Gauss elimination:
    static initial state over Q, M^-1 F and the acceleration at Float).
    Returns {"d","v","a","cond"} | ("skip", why) | ("disagree", stream, impl, model)."""
    n, nt = F.shape
    h, o = ts.h, ts.order
    el, rb, kd = _idx(ts.el, n), _idx(ts.rb, n), _idx(ts.kdof, n)
    if kd != el:
        return ("disagree", tag + "-kdof", kd, el)
    pc = ts.pc
    Mm = np.eye(n) if M is None else M
    cond = 1.0
    if el:
        ee = np.ix_(el, el)
        sp = _delconj_spec(pc, _state_matrix(Mm[ee], B[ee], K[ee]))
        if isinstance(sp, str):
            return ("skip", tag + ": " + sp)
        res, c = sp
        if c > 1e6 or not pc.eig_success:
            return ("skip", tag + ": eigenvectors ill conditioned (cond > 1e6)")
        grade = _slow_mode_grade(pc.lam, h)
        if grade is None:
            return ("skip", tag + ": a mode with |lam| h < 1e-3 (cancellation in Ae, Be: out of the conditioning domain)")
        cond = c * grade
        ctx.count(tag + ":spec-checked")
        _note(tag + "-eig-spec-residual-over-cond", res / max(10.0, c))
        if not res <= 1e-9 * max(10.0, c):
            # the implementation's own decomposition does not satisfy the hypotheses of delconj_recovers
            return ("disagree", tag + "-eig-spec", {"residual": res, "cond": c}, "<= 1e-9*cond")
        if np.any(np.abs(np.asarray(pc.lam)) < 5e-5):
            ctx.count(tag + ":small-eigenvalue-branch")
    want_static = bool(d0 is None and static and el)
    x, sols = yield from _job_static_msolve(M, K, F, el, [el, rb], want_static)
    if isinstance(x, str):
        return ("disagree", tag + "-singular", "a solution", "the model's elimination meets a zero pivot")
    imf, rbf = sols
    dm0 = d0.copy() if d0 is not None else np.zeros(n)
    if want_static:
        dm0[el] = x
        ctx.count(tag + ":static-by-model")
    vm0 = v0.copy() if v0 is not None else np.zeros(n)
    reqs = []
    if el and nt:
        N = len(pc.lam)
        reqs.append("cpl %d %s %d %d %s %s %s %s %s %s %s %d %s" % (
            o, bits(h), len(el), N, _cmat(pc.lam), _cmat(pc.ur_v), _cmat(pc.ur_d), _cmat(pc.ur_inv_v),
            _cmat(pc.ur_inv_d), _fmat(dm0[el]), _fmat(vm0[el]), nt, _fmat(imf)))
    for i, g in enumerate(rb):
        reqs.append("rbrun %d %s %d %s %s %s" % (o, bits(h), nt, bits(dm0[g]), bits(vm0[g]), _fmat(rbf[i])))
    rep = list((yield reqs))
    d, v, a = np.zeros((n, nt)), np.zeros((n, nt)), np.zeros((n, nt))
    if el and nt:
        xx = _fvals(rep.pop(0), "a coupled system")
        d[el] = xx[: len(el) * nt].reshape(len(el), nt)
        v[el] = xx[len(el) * nt:].reshape(len(el), nt)
    for i, g in enumerate(rb):
        xx = _fvals(rep.pop(0), "a rigid-body run")
        d[g], v[g] = xx[:nt], xx[nt:]
    if el and nt:
        ee = np.ix_(el, el)
        rep = yield ["accelc %d %s %s %s %d %s %s %s" % (
            len(el), "none" if M is None else "mat " + _fmat(M[ee]), _fmat(B[ee]), _fmat(K[ee]), nt,
            _fmat(d[el]), _fmat(v[el]), _fmat(F[el]))]
        if rep[0] == "singular":
            return ("disagree", tag + "-singular", "an acceleration", "the model's elimination meets a zero pivot")
        a[el] = _fvals(rep[0], "an acceleration").reshape(len(el), nt)
    if rb:
        a[rb] = rbf
    return {"d": d, "v": v, "a": a, "cond": cond}


def _job_exp2(ctx, ts, M, B, K, F, d0, v0, static, tag="exp2"):
    """the Lean model of SolveExp2.tsolve on the matrices the solver works with, driven by its own E, P, Q; linear
    solves by the model.  rf rows (uncoupled only) are the static solution F / k."""
    n, nt = F.shape
    h, o = ts.h, ts.order
    kd, el, rf = _idx(ts.kdof, n), _idx(ts.el, n), _idx(ts.rf, n)
    if not kd:
        return ("skip", tag + ": no dynamic equation")
    Mm = np.eye(n) if M is None else M
    ks = len(kd)
    kk_ = np.ix_(kd, kd)
    A = _state_matrix(Mm[kk_], B[kk_], K[kk_])
    E = np.block([[ts.E_vv, ts.E_vd], [ts.E_dv, ts.E_dd]])
    P = np.asarray(ts.P)
    Q = np.asarray(ts.Q) if o == 1 else None
    Er, Pr, Qr = _epq_reference(A, h, o, ks)
    es = max(1.0, np.abs(Er).max())
    res = max(np.abs(E - Er).max() / es, np.abs(P - Pr).max() / (h * es),
              0.0 if Q is None else np.abs(Q - Qr).max() / (h * es))
    ctx.count(tag + ":spec-checked")
    _note(tag + "-epq-spec-residual", res)
    if not res <= 1e-8:
        # the implementation's own E, P, Q do not satisfy the hypotheses of exp2_step_exact
        return ("disagree", tag + "-epq-spec", {"residual": float(res)}, "<= 1e-8")
    want_static = bool(d0 is None and static and el)
    x, sols = yield from _job_static_msolve(M, K, F, el, [kd], want_static)
    if isinstance(x, str):
        return ("disagree", tag + "-singular", "a solution", "the model's elimination meets a zero pivot")
    imf = sols[0]
    dm0 = d0.copy() if d0 is not None else np.zeros(n)
    if want_static:
        dm0[el] = x
        ctx.count(tag + ":static-by-model")
    vm0 = v0.copy() if v0 is not None else np.zeros(n)
    rep = yield ["exp2 %d %d %s %s %s%s %s %d %s" % (
        o, ks, _fmat(E), _fmat(P), (_fmat(Q) + " ") if o == 1 else "", _fmat(dm0[kd]), _fmat(vm0[kd]), nt, _fmat(imf))]
    xx = _fvals(rep[0], "an exp2 system")
    d, v, a = np.zeros((n, nt)), np.zeros((n, nt)), np.zeros((n, nt))
    d[kd] = xx[: ks * nt].reshape(ks, nt)
    v[kd] = xx[ks * nt:].reshape(ks, nt)
    rep = yield ["accelc %d %s %s %s %d %s %s %s" % (
        ks, "none" if M is None else "mat " + _fmat(M[kk_]), _fmat(B[kk_]), _fmat(K[kk_]), nt,
        _fmat(d[kd]), _fmat(v[kd]), _fmat(F[kd]))]
    if rep[0] == "singular":
        return ("disagree", tag + "-singular", "an acceleration", "the model's elimination meets a zero pivot")
    a[kd] = _fvals(rep[0], "an acceleration").reshape(ks, nt)
    for g in rf:
        d[g] = F[g] / K[g, g]
    return {"d": d, "v": v, "a": a, "cond": 1.0, "kd": kd, "rf": rf}


def _compare_hist(sol, m, h, rows=None):
    """largest scaled differences of d, v, a between the implementation's solution and the model's: (name, error) of
    the first quantity above `tol`, else None; also returns the worst error"""
    d, v, a = m["d"], m["v"], m["a"]
    rows = list(range(d.shape[0])) if rows is None else rows
    sd = np.abs(d[rows]).max() + h * np.abs(v).max() + 1e-300
    sv = np.abs(v).max() + sd / h
    sa = np.abs(a).max() + sv / h
    out = []
    for nm, iv, mv, sc in (("d", np.asarray(sol.d)[rows], d[rows], sd), ("v", sol.v, v, sv), ("a", sol.a, a, sa)):
        iv = np.asarray(iv)
        if iv.shape != mv.shape:
            out.append((nm, float("inf")))
            continue
        out.append((nm, float(np.abs(iv - mv).max() / sc) if mv.size else 0.0))
    return out


def _corr_pc(ctx, drv):
    ode = _ode()
    rng = ctx.np_rng(7)
    specs = _gen_pc_specs(ctx, rng, ctx.pick(250, 2500), ctx.pick(120, 1200))
    jobs = []
    for s in specs:
        M, B, K, F = (np.array(s[x], float) for x in ("M", "B", "K", "F"))
        n, h, o = s["n"], s["h"], s["order"]
        d0, v0 = _arr(s["d0"]), _arr(s["v0"])
        inp = dict(s, stream="pc")
        ctx.case(json.dumps(s, sort_keys=True), nontrivial=F.shape[1] >= 3, branch="pc:order%d" % s["order"])
        ctx.count("pc:style-" + s["style"])
        if s.get("blockphi"):
            ctx.count("pc:with-rigid-body-modes")
        if s["static"]:
            ctx.count("pc:static-ic")
            if s.get("blockphi"):
                ctx.count("pc:static-ic-with-rigid-body-modes")
        try:
            with warnings.catch_warnings():
                warnings.simplefilter("ignore")
                ts = ode.SolveUnc(M, B, K, h, order=o)
                sol = ts.tsolve(F, d0, v0, static_ic=s["static"])
        except Exception as e:  # noqa: BLE001
            ctx.disagree("pc-raises", inp, "%s: %s" % (type(e).__name__, str(e)[:80]), "a solution")
            continue
        if ts.unc:
            ctx.skip("pc: system turned out uncoupled")
            continue
        rb = _idx(ts.rb, n)
        if bool(rb) != bool(s.get("blockphi")):
            ctx.disagree("pc-rb-detection", inp, rb, "rigid-body modes exactly for block mode shapes")
            continue
        jobs.append((s, inp, sol, _job_unc_coupled(ctx, ts, M, B, K, F, d0, v0, s["static"])))
    results = _drive(drv, [j[3] for j in jobs])
    worst = 0.0
    for (s, inp, sol, _), m in zip(jobs, results):
        if isinstance(m, tuple):
            if m[0] == "skip":
                ctx.skip(m[1])
            else:
                ctx.disagree(m[1], inp, m[2], m[3])
            continue
        tol = 1e-9 * max(10.0, m["cond"])
        for nm, e in _compare_hist(sol, m, s["h"]):
            worst = max(worst, e / max(10.0, m["cond"]))
            if not e <= tol:
                ctx.disagree("pc-" + nm, inp, {nm: e}, {"tolerance": tol})
                break
    ctx.sample({"stream": "pc", "worst_error_over_cond": float("%.2e" % worst), "systems": len(jobs)})


def _epq_reference(A, h, order, half):
    """E, P, Q of the hold problem from scipy's expm of the augmented matrix (independent of pyYeti)"""
    import scipy.linalg as sla

    m = A.shape[0]
    big = np.zeros((3 * m, 3 * m))
    big[:m, :m] = A
    big[:m, m:2 * m] = np.eye(m)
    big[m:2 * m, 2 * m:] = np.eye(m)
    X = sla.expm(big * h)
    E, I1, J = X[:m, :m], X[:m, m:2 * m], X[:m, 2 * m:]
    if order == 1:
        P, Q = I1 - J / h, J / h
    else:
        P, Q = I1, None
    return E, P[:, :half], (None if Q is None else Q[:, :half])


def _corr_exp2(ctx, drv):
    ode = _ode()
    rng = ctx.np_rng(8)
    specs = []
    for _ in range(ctx.pick(250, 2500)):
        s = _gen_general(rng)
        s["static"] = bool(s["d0"] is None and s["nz"] == 0 and rng.random() < 0.4)
        s["rb"], s["rf"] = None, []
        specs.append(s)
    for _ in range(ctx.pick(250, 2500)):
        u = _gen_sys(ctx, rng)
        m, b, k = _mats(u, "2d")
        specs.append({"kind": "general", "n": u["n"], "h": u["h"], "order": u["order"], "style": "uncoupled", "nz": 0,
                      "M": (np.eye(u["n"]) if m is None else m).tolist(), "B": b.tolist(), "K": k.tolist(),
                      "F": u["F"], "d0": u["d0"], "v0": u["v0"], "static": u["static"], "rb": u["rb"], "rf": u["rf"],
                      "unc": {"m": u["m"], "b": u["b"], "k": u["k"], "pack": u["pack"]}, "usys": u})
    jobs = []
    for s in specs:
        M, B, K, F = (np.array(s[x], float) for x in ("M", "B", "K", "F"))
        n, h, o = s["n"], s["h"], s["order"]
        d0, v0 = _arr(s["d0"]), _arr(s["v0"])
        inp = dict(s, stream="exp2")
        ctx.case(json.dumps(s, sort_keys=True), nontrivial=F.shape[1] >= 3, branch="exp2:order%d" % s["order"])
        ctx.count("exp2:style-" + s["style"])
        if s["rf"]:
            ctx.count("exp2:with-rf")
        if s["static"] and s["d0"] is None:
            ctx.count("exp2:static-ic")
        try:
            with warnings.catch_warnings():
                warnings.simplefilter("ignore")
                if "unc" in s:
                    u = s["unc"]
                    mm, bb, kk = _mats({"m": u["m"], "b": u["b"], "k": u["k"]}, u["pack"])
                    ts = ode.SolveExp2(mm, bb, kk, h, rb=s["rb"], rf=s["rf"] or None, order=o)
                    Mmod = None if mm is None else M
                else:
                    ts = ode.SolveExp2(M, B, K, h, order=o)
                    Mmod = M
                sol = ts.tsolve(F, d0, v0, static_ic=s["static"])
        except Exception as e:  # noqa: BLE001
            ctx.disagree("exp2-raises", inp, "%s: %s" % (type(e).__name__, str(e)[:80]), "a solution")
            continue
        jobs.append((s, inp, sol, _job_exp2(ctx, ts, Mmod, B, K, F, d0, v0, s["static"])))
    results = _drive(drv, [j[3] for j in jobs])
    worst = 0.0
    for (s, inp, sol, _), m in zip(jobs, results):
        if isinstance(m, tuple):
            if m[0] == "skip":
                ctx.skip(m[1])
            else:
                ctx.disagree(m[1], inp, m[2], m[3])
            continue
        bad = None
        for nm, e in _compare_hist(sol, m, s["h"], rows=m["kd"]):
            worst = max(worst, e)
            if not e <= 1e-9:
                bad = (nm, e)
                break
        rf = m["rf"]
        if bad is None and rf:
            e = float(np.abs(np.asarray(sol.d)[rf] - m["d"][rf]).max() / (np.abs(m["d"][rf]).max() + 1e-300))
            if not e <= 1e-12:
                bad = ("d-rf", e)
        if bad:
            ctx.disagree("exp2-" + bad[0], inp, {bad[0]: bad[1]}, {"tolerance": 1e-9})
    ctx.sample({"stream": "exp2", "worst_scaled_error": float("%.2e" % worst), "systems": len(jobs)})


# ---------------------------------------------------------------------------------------
# stream (x): SolveExp1.tsolve.  (x-num) on general first-order systems with the implementation's own E, P, Q (their
# specification measured against scipy's expm), force arrays of dtype float64 / int64 / float32; (x-exact) the
# recurrence itself over the rationals: E, P, Q, A replaced by small dyadic matrices (public members of the
# solver), small whole-numbered forces, so that no operation of the implementation rounds and the histories must be
# EQUAL to the model's evaluated over Q.


def _epq_full_reference(A, h, order):
    E, P, Q = _epq_reference(A, h, order, A.shape[0])
    return E, P, Q


def _gen_exp1(rng):
    n = int(rng.integers(1, 6))
    h = float(10 ** rng.uniform(-2.5, -0.5))
    style = str(rng.choice(["second-order", "random", "nilpotent"]))
    if style == "second-order":
        g = _gen_general(rng)
        while g["n"] > 3:
            g = _gen_general(rng)
        n, h = 2 * g["n"], g["h"]
        A = _state_matrix(*(np.array(g[x], float) for x in ("M", "B", "K")))
    elif style == "nilpotent":
        A = np.triu(rng.standard_normal((n, n)), 1) / h / 4
    else:
        style = "random"
        A = rng.standard_normal((n, n)) / h / 4 - np.eye(n) * rng.uniform(0, 1) / h
    nt = int(rng.integers(1, 16))
    dt = str(rng.choice(["float64", "float64", "int64", "float32"]))
    F = rng.standard_normal((n, nt)) * 10 ** rng.uniform(-1, 2)
    if dt != "float64":
        F = np.round(F * 4)
        if dt == "float32":
            F = F / 8
    return {"kind": "exp1", "n": n, "h": h, "order": int(rng.integers(0, 2)), "style": style, "A": A.tolist(),
            "F": F.tolist(), "dtype": dt, "d0": None if rng.random() < 0.35 else [float(x) for x in rng.standard_normal(n)]}


def _exp1_request(op, s, A, E, P, Q):
    n, nt = np.asarray(s["F"]).shape if np.asarray(s["F"]).ndim == 2 else (s["n"], 0)
    t = [op, str(s["order"]), s["dtype"], str(n), _fmat(A), _fmat(E), _fmat(P)]
    if s["order"] == 1:
        t.append(_fmat(Q))
    t += ["n"] if s["d0"] is None else ["y", _fmat(s["d0"])]
    t += [str(nt), _fmat(np.asarray(s["F"], float))]
    return " ".join(x for x in t if x != "")


def _corr_exp1(ctx, drv):
    ode = _ode()
    rng = ctx.np_rng(9)
    # ---- numeric, the implementation's own E, P, Q -------------------------------------------------
    specs = [_gen_exp1(rng) for _ in range(ctx.pick(300, 3000))]
    jobs, reqs = [], []
    for s in specs:
        A = np.array(s["A"], float)
        F = np.array(s["F"], float).reshape(s["n"], -1).astype(s["dtype"])
        inp = dict(s, stream="exp1")
        ctx.case(json.dumps(s, sort_keys=True), nontrivial=F.shape[1] >= 3, branch="exp1:order%d" % s["order"])
        ctx.count("exp1:dtype-" + s["dtype"])
        ctx.count("exp1:style-" + s["style"])
        ctx.count("exp1:d0-" + ("given" if s["d0"] is not None else "none"))
        try:
            with warnings.catch_warnings():
                warnings.simplefilter("ignore")
                ts = ode.SolveExp1(A, s["h"], order=s["order"])
                sol = ts.tsolve(F, _arr(s["d0"]))
        except Exception as e:  # noqa: BLE001
            ctx.disagree("exp1-raises", inp, "%s: %s" % (type(e).__name__, str(e)[:80]), "a solution")
            continue
        E, P = np.asarray(ts.E), np.asarray(ts.P)
        Q = np.asarray(ts.Q) if s["order"] == 1 else None
        Er, Pr, Qr = _epq_full_reference(A, s["h"], s["order"])
        es = max(1.0, np.abs(Er).max())
        res = max(np.abs(E - Er).max() / es, np.abs(P - Pr).max() / (s["h"] * es),
                  0.0 if Q is None else np.abs(Q - Qr).max() / (s["h"] * es))
        ctx.count("exp1:spec-checked")
        _note("exp1-epq-spec-residual", res)
        if not res <= 1e-8:
            # the implementation's own E, P, Q do not satisfy the hypotheses of exp1_step_exact
            ctx.disagree("exp1-epq-spec", inp, {"residual": float(res)}, "<= 1e-8")
            continue
        reqs.append(_exp1_request("exp1", s, A, E, P, Q))
        jobs.append((s, inp, sol, A, F))
    worst = 0.0
    for (s, inp, sol, A, F), r in zip(jobs, drv.ask(reqs)):
        t = r.split()
        if t[0] != "ok":
            raise Infra("model refuses an exp1-stream system: " + r[:100])
        n, nt = F.shape
        if (str(np.asarray(sol.d).dtype), str(np.asarray(sol.v).dtype)) != (t[1], t[2]):
            ctx.disagree("exp1-dtype", inp, [str(np.asarray(sol.d).dtype), str(np.asarray(sol.v).dtype)], t[1:3])
            continue
        x = np.array([unbits(u) for u in t[3:]])
        d, v = x[: n * nt].reshape(n, nt), x[n * nt:].reshape(n, nt)
        sd = np.abs(d).max() + 1e-300 if d.size else 1.0
        sv = (np.abs(A).max() * n * sd + np.abs(F).max() + 1e-300) if d.size else 1.0
        for nm, iv, mv, sc in (("d", sol.d, d, sd), ("v", sol.v, v, sv)):
            e = float(np.abs(np.asarray(iv, float) - mv).max() / sc) if mv.size else 0.0
            worst = max(worst, e)
            if not e <= 1e-9:
                ctx.disagree("exp1-" + nm, inp, {nm: e}, {"tolerance": 1e-9})
                break
    ctx.sample({"stream": "exp1", "worst_scaled_error": float("%.2e" % worst), "systems": len(jobs)})
    # ---- exact, dyadic E, P, Q, A ----------------------------------------------------------------------
    jobs, reqs = [], []
    for _ in range(ctx.pick(150, 1500)):
        n = int(rng.integers(1, 4))
        nt = int(rng.integers(1, 7))
        order = int(rng.integers(0, 2))
        dy = lambda shape, lim, den: rng.integers(-lim, lim + 1, shape) / den  # noqa: E731
        A, E, P, Q = dy((n, n), 6, 4.0), dy((n, n), 6, 4.0), dy((n, n), 6, 4.0), dy((n, n), 6, 4.0)
        dt = str(rng.choice(["float64", "int64", "float32"]))
        F = rng.integers(-4, 5, (n, nt)).astype(float)
        if dt == "float64":
            F = F / 2
        d0 = None if rng.random() < 0.4 else [float(x) for x in dy(n, 5, 2.0)]
        s = {"kind": "exp1x", "n": n, "h": 0.5, "order": order, "A": A.tolist(), "E": E.tolist(), "P": P.tolist(),
             "Q": Q.tolist(), "F": F.tolist(), "dtype": dt, "d0": d0}
        inp = dict(s, stream="exp1x")
        ctx.case(json.dumps(s, sort_keys=True), nontrivial=nt >= 2, branch="exp1x:order%d" % order)
        ctx.count("exp1x:dtype-" + dt)
        if nt == 1:
            ctx.count("exp1x:single-sample")
        try:
            ts = ode.SolveExp1(A, 0.5, order=order)
            ts.E, ts.P, ts.Q = E.copy(), P.copy(), (Q.copy() if order == 1 else 0.0)
            sol = ts.tsolve(F.reshape(n, nt).astype(dt), _arr(d0))
        except Exception as e:  # noqa: BLE001
            ctx.disagree("exp1x-raises", inp, "%s: %s" % (type(e).__name__, str(e)[:80]), "a solution")
            continue
        reqs.append(_exp1_request("exp1x", dict(s, F=F.reshape(n, nt).tolist()), A, E, P, Q))
        jobs.append((s, inp, sol, n, nt))
    for (s, inp, sol, n, nt), r in zip(jobs, drv.ask(reqs)):
        t = r.split()
        if t[0] != "ok":
            raise Infra("model refuses an exp1x-stream system: " + r[:100])
        if (str(np.asarray(sol.d).dtype), str(np.asarray(sol.v).dtype)) != (t[1], t[2]):
            ctx.disagree("exp1x-dtype", inp, [str(np.asarray(sol.d).dtype), str(np.asarray(sol.v).dtype)], t[1:3])
            continue
        q = [Fraction(int(a), int(b)) for a, b in (u.split("/") for u in t[3:])]
        impl = [Fraction(float(x)) for x in np.asarray(sol.d, float).ravel()] + \
               [Fraction(float(x)) for x in np.asarray(sol.v, float).ravel()]
        if np.asarray(sol.d).shape != (n, nt) or impl != q:
            k_ = next((i for i, (a, b) in enumerate(zip(impl, q)) if a != b), -1)
            ctx.disagree("exp1x-exact", inp, {"first-difference-at": k_, "impl": str(impl[k_]) if k_ >= 0 else "shape"},
                         {"model": str(q[k_]) if k_ >= 0 else [n, nt]})


# ---------------------------------------------------------------------------------------
# stream (e): pre_eig=True.  The Lean model of `_do_pre_eig` / `_init_dva` / `_solution` gets the implementation's own
# mode shapes phi (the result of la.eigh is an input of the model; its specification phi' M phi = 1,
# phi' K phi = diag(w) is measured), computes the modal damping, the modal force and the modal initial conditions
# (la.solve(phi, d0) by the model's elimination); the modal problem is then solved by the model of the path the
# solver takes (uncoupled closed form / complex-eigenvalue path / SolveExp2) and mapped back.
# (e-exact): diagonal systems with masses 4^j and dyadic stiffness: la.eigh is exact there (phi = a signed, scaled
# permutation), the whole first sample (initial state + acceleration, nt = 1) is compared EXACTLY over Q.


def _gen_preeig(rng):
    g = _gen_general(rng)
    while g["style"] == "skew-on-zero-stiffness":
        g = _gen_general(rng)
    n = g["n"]
    M, B, K = (np.array(g[x], float) for x in ("M", "B", "K"))
    K = (K + K.T) / 2
    mform = str(rng.choice(["none", "vec", "mat"]))
    if mform == "none":
        M = np.eye(n)
    elif mform == "vec":
        M = np.diag(rng.uniform(0.3, 3.0, n))
    bform = str(rng.choice(["vec", "mat"]))
    if bform == "vec":
        B = np.diag(np.abs(np.diag(B)) + rng.uniform(0, 0.5, n))
    if g["nz"]:
        # zero-stiffness DOF: rigid-body modes after the transformation only if the damping leaves them alone
        B[: g["nz"], :] = 0.0
        B[:, : g["nz"]] = 0.0
    g.update(kind="preeig", M=M.tolist(), B=B.tolist(), K=K.tolist(), mform=mform, bform=bform,
             solver=str(rng.choice(["SolveUnc", "SolveExp2"])),
             static=bool(g["d0"] is None and rng.random() < 0.5))
    return g


def _preeig_args(s):
    M, B, K = (np.array(s[x], float) for x in ("M", "B", "K"))
    m = None if s["mform"] == "none" else (np.diag(M).copy() if s["mform"] == "vec" else M)
    b = np.diag(B).copy() if s["bform"] == "vec" else B
    return m, b, K


def _job_preeig(ctx, s, ts, sol):
    M, B, K, F = (np.array(s[x], float) for x in ("M", "B", "K", "F"))
    n, nt = F.shape
    h = s["h"]
    d0, v0 = _arr(s["d0"]), _arr(s["v0"])
    phi = np.asarray(ts.phi, float)
    # the specification of la.eigh, measured on the implementation's own phi
    G = phi.T @ M @ phi
    W = phi.T @ K @ phi
    w = np.diag(W).copy()
    ks = max(1.0, np.abs(w).max())
    cond = float(np.linalg.cond(phi))
    res = max(np.abs(G - np.eye(n)).max(), np.abs(W - np.diag(w)).max() / ks)
    _note("pe-eigh-spec-residual", res)
    ctx.count("pe:eigh-spec-checked")
    if not res <= 1e-9 * max(10.0, cond):
        # the implementation's own mode shapes do not satisfy the hypotheses of pre_eig_solution_is_solution
        return ("disagree", "pe-eigh-spec", {"residual": float(res), "cond": cond}, "phi' M phi = 1, phi' K phi diagonal")
    if ts.m is not None:
        return ("disagree", "pe-mass", "m kept", "m = None after the transformation")
    breq = "vec " + _fmat(np.diag(B)) if s["bform"] == "vec" else "mat " + _fmat(B)
    rep = yield ["pe %d %s %s %s %s %d %s" % (
        n, breq, _fmat(phi), "n" if d0 is None else "y " + _fmat(d0), "n" if v0 is None else "y " + _fmat(v0),
        nt, _fmat(F))]
    if rep[0] == "singular":
        return ("disagree", "pe-singular", "a solution", "phi singular for the model's elimination")
    t = rep[0].split()[1:]
    bm = np.array([unbits(x) for x in t[: n * n]]).reshape(n, n)
    Fm = np.array([unbits(x) for x in t[n * n: n * n + n * nt]]).reshape(n, nt)
    t = t[n * n + n * nt:]
    q = []
    for _ in range(2):
        if t[0] == "n":
            q.append(None)
            t = t[1:]
        else:
            q.append(np.array([unbits(x) for x in t[1: n + 1]]))
            t = t[n + 1:]
    q0, qv0 = q
    Km = np.diag(w)
    if s["solver"] == "SolveExp2":
        m = yield from _job_exp2(ctx, ts, None, bm, Km, Fm, q0, qv0, s["static"], tag="pe")
    elif ts.unc:
        ctx.count("pe:modal-system-uncoupled")
        u = {"n": n, "h": h, "m": None, "b": [float(x) for x in np.diag(bm)], "k": [float(x) for x in w],
             "order": s["order"], "rb": None, "rf": [], "static": s["static"],
             "d0": None if q0 is None else q0.tolist(), "v0": None if qv0 is None else qv0.tolist(), "F": Fm.tolist()}
        rep = yield [_sys_request(u)]
        mm = _sys_reply(rep[0], n, nt)
        if isinstance(mm, str):
            return ("disagree", "pe-modal-model-refuses", "a solution", mm)
        m = {"d": mm[0], "v": mm[1], "a": mm[2], "cond": 1.0}
    else:
        m = yield from _job_unc_coupled(ctx, ts, None, bm, Km, Fm, q0, qv0, s["static"], tag="pe")
    if isinstance(m, tuple):
        return m
    rep = yield ["perec %d %s %d %s %s %s" % (n, _fmat(phi), nt, _fmat(m["d"]), _fmat(m["v"]), _fmat(m["a"]))]
    x = _fvals(rep[0], "a pre_eig recovery")
    return {"d": x[: n * nt].reshape(n, nt), "v": x[n * nt: 2 * n * nt].reshape(n, nt),
            "a": x[2 * n * nt:].reshape(n, nt), "cond": max(m["cond"], cond)}


def _corr_preeig(ctx, drv):
    ode = _ode()
    rng = ctx.np_rng(10)
    jobs = []
    for _ in range(ctx.pick(300, 3000)):
        s = _gen_preeig(rng)
        inp = dict(s, stream="pe")
        m, b, K = _preeig_args(s)
        F = np.array(s["F"], float)
        ctx.case(json.dumps(s, sort_keys=True), nontrivial=F.shape[1] >= 3, branch="pe:order%d" % s["order"])
        for tag in ("pe:mass-" + s["mform"], "pe:damping-" + s["bform"], "pe:" + s["solver"],
                    "pe:d0-" + ("given" if s["d0"] is not None else "none"),
                    "pe:v0-" + ("given" if s["v0"] is not None else "none")):
            ctx.count(tag)
        if s["static"]:
            ctx.count("pe:static-ic")
        try:
            with warnings.catch_warnings():
                warnings.simplefilter("ignore")
                ts = getattr(ode, s["solver"])(m, b, K, s["h"], order=s["order"], pre_eig=True)
                sol = ts.tsolve(F, _arr(s["d0"]), _arr(s["v0"]), static_ic=s["static"])
        except Exception as e:  # noqa: BLE001
            ctx.disagree("pe-raises", inp, "%s: %s" % (type(e).__name__, str(e)[:80]), "a solution")
            continue
        if not getattr(ts, "pre_eig", False):
            ctx.disagree("pe-not-done", inp, "pre_eig skipped", "pre_eig performed (a 2-D matrix is present)")
            continue
        if _idx(ts.rb, s["n"]):
            ctx.count("pe:with-rigid-body-modes")
        jobs.append((s, inp, sol, _job_preeig(ctx, s, ts, sol)))
    results = _drive(drv, [j[3] for j in jobs])
    worst = 0.0
    for (s, inp, sol, _), m in zip(jobs, results):
        if isinstance(m, tuple):
            if m[0] == "skip":
                ctx.skip(m[1])
            else:
                ctx.disagree(m[1], inp, m[2], m[3])
            continue
        tol = 1e-9 * max(10.0, m["cond"])
        for nm, e in _compare_hist(sol, m, s["h"]):
            worst = max(worst, e / max(10.0, m["cond"]))
            if not e <= tol:
                ctx.disagree("pe-" + nm, inp, {nm: e}, {"tolerance": tol})
                break
    ctx.sample({"stream": "pe", "worst_error_over_cond": float("%.2e" % worst), "systems": len(jobs)})
    # ---- exact: diagonal systems on which la.eigh is exact -------------------------------------------------------
    jobs, reqs = [], []
    for _ in range(ctx.pick(200, 2000)):
        n = int(rng.integers(2, 6))
        mform = str(rng.choice(["none", "vec", "mat"]))
        mass = np.ones(n) if mform == "none" else 4.0 ** rng.integers(-2, 3, n)
        # distinct modal stiffnesses k/m (so that the eigenvectors are determined), possibly one zero (rigid-body mode)
        # (powers of two: the static initial state F/k of the modal equations is then a dyadic number as well)
        wv = 2.0 ** rng.permutation(np.arange(-3, 4))[:n]
        if rng.random() < 0.4:
            wv[int(rng.integers(0, n))] = 0.0
        kd = wv * mass
        bform = str(rng.choice(["vec", "mat"]))
        bd = rng.integers(0, 6, n) / 4.0
        F0 = rng.integers(-4, 5, n).astype(float)
        if rng.random() < 0.15:
            F0[:] = 0.0
        d0 = None if rng.random() < 0.5 else [float(x) for x in rng.integers(-4, 5, n) / 2.0]
        v0 = None if rng.random() < 0.5 else [float(x) for x in rng.integers(-4, 5, n) / 2.0]
        s = {"kind": "pex", "n": n, "h": 0.25, "order": int(rng.integers(0, 2)), "mform": mform, "bform": bform,
             "m": mass.tolist(), "b": bd.tolist(), "k": kd.tolist(), "F0": F0.tolist(), "d0": d0, "v0": v0,
             "static": bool(rng.random() < 0.5), "solver": str(rng.choice(["SolveUnc", "SolveExp2"]))}
        inp = dict(s, stream="pex")
        ctx.case(json.dumps(s, sort_keys=True), nontrivial=True, branch="pex:" + s["solver"])
        for tag in ("pex:mass-" + mform, "pex:damping-" + bform):
            ctx.count(tag)
        if s["static"] and d0 is None:
            ctx.count("pex:static-ic")
        if np.any(wv == 0):
            ctx.count("pex:with-rigid-body-mode")
        m = None if mform == "none" else (mass.copy() if mform == "vec" else np.diag(mass))
        b = bd.copy() if bform == "vec" else np.diag(bd)
        K = np.diag(kd)
        try:
            with warnings.catch_warnings():
                warnings.simplefilter("ignore")
                ts = getattr(ode, s["solver"])(m, b, K, 0.25, order=s["order"], pre_eig=True)
                sol = ts.tsolve(F0[:, None], _arr(d0), _arr(v0), static_ic=s["static"])
        except Exception as e:  # noqa: BLE001
            ctx.disagree("pex-raises", inp, "%s: %s" % (type(e).__name__, str(e)[:80]), "a solution")
            continue
        phi = np.asarray(ts.phi, float)
        fr = lambda a: [[Fraction(float(x)) for x in row] for row in np.atleast_2d(a)]  # noqa: E731
        P_, Mq, Kq = fr(phi), fr(np.diag(mass)), fr(K)
        mul = lambda X, Y: [[sum(X[i][k] * Y[k][j] for k in range(n)) for j in range(n)] for i in range(n)]  # noqa: E731
        PT = [list(r) for r in zip(*P_)]
        G, Wq = mul(mul(PT, Mq), P_), mul(mul(PT, Kq), P_)
        if G != [[Fraction(int(i == j)) for j in range(n)] for i in range(n)] or \
                any(Wq[i][j] != 0 for i in range(n) for j in range(n) if i != j):
            # la.eigh not exact here (should not happen on these inputs): leave the case to the numeric stream
            ctx.skip("pex: la.eigh not exact on a diagonal dyadic system")
            continue
        w = [Wq[i][i] for i in range(n)]
        ctx.count("pex:eigh-exact")
        reqs.append("pex %d %s %s %s %s %s %s %s" % (
            n, ("vec " + _fmat(bd)) if bform == "vec" else ("mat " + _fmat(np.diag(bd))), _fmat(phi),
            _fmat([float(x) for x in w]), "1" if s["static"] else "0", "n" if d0 is None else "y " + _fmat(d0),
            "n" if v0 is None else "y " + _fmat(v0), _fmat(F0)))
        jobs.append((s, inp, sol, ts, w))
    for (s, inp, sol, ts, w), r in zip(jobs, drv.ask(reqs)):
        n = s["n"]
        if r == "singular":
            ctx.disagree("pex-singular", inp, "a solution", "phi singular for the model's elimination")
            continue
        q = _qvals(r, "a pex-stream system")
        bm, rest = q[: n * n], q[n * n:]
        tb = np.asarray(ts.b, float)
        tb = np.diag(tb) if tb.ndim == 1 else tb
        impl_b = [Fraction(float(x)) for x in tb.ravel()]
        tk = np.asarray(ts.k, float)
        tk = tk if tk.ndim == 1 else np.diag(tk)
        if impl_b != bm:
            ctx.disagree("pex-modal-damping", inp, [str(x) for x in impl_b], [str(x) for x in bm])
            continue
        if [Fraction(float(x)) for x in tk] != list(w):
            ctx.disagree("pex-modal-stiffness", inp, tk.tolist(), [str(x) for x in w])
            continue
        impl = [Fraction(float(x)) for arr in (sol.d, sol.v, sol.a) for x in np.asarray(arr, float)[:, 0]]
        if impl != rest:
            k_ = next(i for i, (a, b) in enumerate(zip(impl, rest)) if a != b)
            ctx.disagree("pex-exact", inp, {"quantity": "dva"[k_ // n], "row": k_ % n, "impl": str(impl[k_])},
                         {"model": str(rest[k_])})


# ---------------------------------------------------------------------------------------
# stream (u): SolveUnc.tsolve on UNCOUPLED equations with complex-dtype coefficients (zero or small non-zero imaginary
# parts).  They take the complex-eigenvalue path; its rigid-body rows are integrated by the undamped recurrence whatever
# their damping is (open finding F61) and the Lean model says exactly that (`cplxUncRbDV`), so this stream agrees with
# the implementation; the model-free oracle reports the damped rows under the family of F61.

F61 = "tsolve-unc-complex-dtype-damped-rigid-body-mode-damping-ignored"
# Candidate repair of F61 (corpus/c01_f61_candidate_fix.diff): /repo is unpatched, so the model of this stream is the
# current one (driver request `cu`: undamped rigid-body rows).  With C01_F61_FIXED_MODEL=1 the stream asks `cufix`
# instead (the same request answered with the PATCHED rigid-body rows, Model/SuCoefCplxUncFixed.lean, theorems in
# Props/C01CplxUncFixed.lean): `C01_F61_FIXED_MODEL=1 PYYETI_REPO=<patched tree> ./check C01` is the model swap
# the integrator makes permanent (default of this switch) once the patch is applied to /repo.
_CU_OP = "cufix" if os.environ.get("C01_F61_FIXED_MODEL") == "1" else "cu"
# found by this check, repaired in /repo (fix: commit 4a72d85): kept as a regression guard
FIXED_F62 = "tsolve-unc-complex-dtype-conjugate-pairs-deleted-spurious-imaginary-part"


def _gen_cu(rng):
    s = _gen_modal(rng, n=int(rng.integers(1, 6)), oracle=True, allow_rf=False, allow_crit=False)
    n = s["n"]
    nt = int(rng.integers(2, 20))
    s["order"] = int(rng.integers(0, 2))
    s["rb"] = None if rng.random() < 0.5 else [i for i in range(n) if s["kinds"][i] == "rb"]
    s["rf"] = []
    s["static"] = bool(rng.random() < 0.3)
    s["d0"] = _gen_ic_vec(rng, n, 0.45)
    s["v0"] = _gen_ic_vec(rng, n, 0.45, 0.1 / s["h"])
    s["F"] = [[float(x) for x in row] for row in rng.standard_normal((n, nt)) * 10 ** rng.uniform(-1, 2)]
    s["kind"] = "cplx-unc"
    # which array carries the complex dtype, and the loss factor of the stiffness (0: zero imaginary parts)
    s["carrier"] = str(rng.choice(["k", "b", "m"])) if s["m"] is not None else str(rng.choice(["k", "b"]))
    s["eta"] = 0.0 if rng.random() < 0.5 else float(10 ** rng.uniform(-3, -1.3))
    if s["eta"]:
        s["carrier"] = "k"
    return s


def _cu_args(s):
    m = None if s["m"] is None else np.array(s["m"], float)
    b = np.array(s["b"], float)
    k = np.array(s["k"], float)
    if s["carrier"] == "k":
        k = k * (1 + 1j * s["eta"])
    elif s["carrier"] == "b":
        b = b.astype(complex)
    else:
        m = m.astype(complex)
    return m, b, k


def _cc(a):
    return " ".join(_cbits(z) for z in np.asarray(a, complex).ravel())


def _corr_cu(ctx, drv):
    ode = _ode()
    rng = ctx.np_rng(12)
    jobs, reqs = [], []
    for _ in range(ctx.pick(200, 2000)):
        s = _gen_cu(rng)
        n, h, o = s["n"], s["h"], s["order"]
        m, b, k = _cu_args(s)
        F = np.array(s["F"], float)
        nt = F.shape[1]
        inp = dict(s, stream="cu")
        ctx.case(json.dumps(s, sort_keys=True), nontrivial=nt >= 3, branch="cu:order%d" % o)
        for tag in ("cu:carrier-" + s["carrier"], "cu:imaginary-" + ("zero" if not s["eta"] else "nonzero"),
                    "cu:rb-" + ("auto" if s["rb"] is None else "given"), "cu:m-" + ("none" if m is None else "given")):
            ctx.count(tag)
        for sub in set(s["sub"]):
            if sub.startswith("rb"):
                ctx.count("cu:" + sub)
        if s["static"] and s["d0"] is None:
            ctx.count("cu:static-ic")
        try:
            with warnings.catch_warnings():
                warnings.simplefilter("ignore")
                ts = ode.SolveUnc(m, b, k, h, rb=s["rb"], order=o)
                sol = ts.tsolve(F, _arr(s["d0"]), _arr(s["v0"]), static_ic=s["static"])
        except Exception as e:  # noqa: BLE001
            ctx.disagree("cu-raises", inp, "%s: %s" % (type(e).__name__, str(e)[:80]), "a solution")
            continue
        if not (ts.unc and ts.systype is complex):
            ctx.disagree("cu-path", inp, [bool(ts.unc), str(ts.systype)], "uncoupled, complex systype")
            continue
        el = _idx(ts.el, n)
        pc = ts.pc
        cond = 1.0
        if el:
            mm = np.ones(len(el)) if m is None else m[el]
            A = _state_matrix(np.diag(mm), np.diag(b[el]), np.diag(k[el]))
            lam = np.asarray(pc.lam)
            U = np.vstack([np.asarray(pc.ur_v), np.asarray(pc.ur_d)])
            V = np.hstack([np.asarray(pc.ur_inv_v), np.asarray(pc.ur_inv_d)])
            if U.shape[0] != U.shape[1]:
                # conjugate eigenvalue pairs are deleted only for real systems (repair 4a72d85, finding F62): for a
                # complex systype the model runs the full modal recurrence with the complex recovery
                ctx.disagree("cu-conjugates-deleted", inp, "pc holds %d of %d eigenvalues" % (len(lam), U.shape[0]),
                             "no deletion for a complex systype")
                continue
            else:
                cond = float(np.linalg.cond(U))
                res = max(np.abs(U @ V - np.eye(len(lam))).max(), np.abs(V @ U - np.eye(len(lam))).max(),
                          np.abs(A @ U - U * lam[None, :]).max() / (max(1.0, np.abs(A).max()) * max(1.0, np.abs(U).max())))
            grade = _slow_mode_grade(lam, h)
            if cond > 1e6 or not pc.eig_success or grade is None:
                ctx.skip("cu: eigenvectors ill conditioned or a slow mode outside the conditioning domain")
                continue
            ctx.count("cu:spec-checked")
            _note("cu-eig-spec-residual-over-cond", res / max(10.0, cond))
            if not res <= 1e-9 * max(10.0, cond):
                ctx.disagree("cu-eig-spec", inp, {"residual": float(res), "cond": cond}, "<= 1e-9*cond")
                continue
            cond *= grade
            pcs = "%d %s %s %s %s %s" % (len(lam), _cmat(lam), _cmat(pc.ur_v), _cmat(pc.ur_d), _cmat(pc.ur_inv_v),
                                         _cmat(pc.ur_inv_d))
        else:
            pcs = "0"
        t = [_CU_OP, str(o), bits(h), str(n)]
        t += ["none"] if m is None else ["vec", _cc(m)]
        t += [_cc(b), _cc(k)]
        t += ["n"] if s["rb"] is None else [str(len(s["rb"]))] + [str(i) for i in s["rb"]]
        t.append("1" if s["static"] else "0")
        for v in (s["d0"], s["v0"]):
            t += ["n"] if v is None else ["y", _cc(v)]
        t += [str(nt), _cc(F), pcs]
        reqs.append(" ".join(x for x in t if x != ""))
        jobs.append((s, inp, sol, cond))
    worst = 0.0
    for (s, inp, sol, cond), r in zip(jobs, drv.ask(reqs)):
        if not r.startswith("ok"):
            ctx.disagree("cu-model-refuses", inp, "a solution", r[:80])
            continue
        n, nt = s["n"], len(s["F"][0])
        x = np.array([unbits(u) for u in r.split()[1:]])
        z = (x[0::2] + 1j * x[1::2]).reshape(3, n, nt)
        hh = s["h"]
        sd = np.abs(z[0]).max() + hh * np.abs(z[1]).max() + 1e-300
        sv = np.abs(z[1]).max() + sd / hh
        sa = np.abs(z[2]).max() + sv / hh
        tol = 1e-9 * max(10.0, cond)
        for nm, iv, mv, sc in (("d", sol.d, z[0], sd), ("v", sol.v, z[1], sv), ("a", sol.a, z[2], sa)):
            e = float(np.abs(np.asarray(iv) - mv).max() / sc)
            worst = max(worst, e / max(10.0, cond))
            if not e <= tol:
                ctx.disagree("cu-" + nm, inp, {nm: e}, {"tolerance": tol})
                break
    ctx.sample({"stream": "cu", "worst_error_over_cond": float("%.2e" % worst), "systems": len(jobs)})


def correspondence(ctx):
    _quiet()
    drv = ctx.driver("C01")
    _corr_coef(ctx, drv)
    _corr_part(ctx, drv)
    _corr_hist(ctx, drv)
    _corr_coupled(ctx, drv)
    _corr_partc(ctx, drv)
    _corr_pc(ctx, drv)
    _corr_exp2(ctx, drv)
    _corr_exp1(ctx, drv)
    _corr_preeig(ctx, drv)
    _corr_cu(ctx, drv)
    ctx.require_branches(
        ["coef:" + r for r in "rigid rigidVelo rigidFull under crit over rf partition-error".split()]
        + ["coef-tag:cut:velo", "coef-tag:cut:disp", "coef-tag:cut:rb", "coef-tag:cut:crit",
           "coef:exact-compared", "cplx:small", "cplx:regular", "part:auto", "part:given", "part:rf-below-rb",
           "hist:order0", "hist:order1", "hist:under", "hist:crit", "hist:over", "hist:rf",
           "hist:rb-undamped", "hist:rb-damped-full", "hist:rb-damped-velo",
           "hist:layout-contiguous", "hist:layout-interleaved", "hist:pack-1d", "hist:pack-2d", "hist:pack-mixed",
           "hist:m-none", "hist:m-given", "hist:rb-auto", "hist:rb-given", "hist:static",
           "coupled:order0", "coupled:order1", "coupled:SolveUnc-coupled", "coupled:SolveExp1",
           "coupled:with-rigid-body-modes", "coupled:complex-path-rigid-body-recurrence",
           "partc:auto", "partc:with-rb", "partc:with-rf", "partc:slices", "partc:no-slices",
           "pc:order0", "pc:order1", "pc:with-rigid-body-modes", "pc:static-ic",
           "pc:static-ic-with-rigid-body-modes",
           "pc:style-modal", "pc:style-skew", "pc:style-sym+skew", "pc:style-sym",
           "exp2:order0", "exp2:order1", "exp2:with-rf", "exp2:static-ic",
           "exp2:style-uncoupled", "exp2:style-skew", "exp2:style-sym+skew",
           "pc:static-by-model", "exp2:static-by-model",
           "exp1:order0", "exp1:order1", "exp1:dtype-float64", "exp1:dtype-int64", "exp1:dtype-float32",
           "exp1:style-second-order", "exp1:style-random", "exp1:style-nilpotent", "exp1:d0-given", "exp1:d0-none",
           "exp1x:order0", "exp1x:order1", "exp1x:dtype-float64", "exp1x:dtype-int64", "exp1x:dtype-float32",
           "exp1x:single-sample",
           "pe:order0", "pe:order1", "pe:mass-none", "pe:mass-vec", "pe:mass-mat", "pe:damping-vec", "pe:damping-mat",
           "pe:SolveUnc", "pe:SolveExp2", "pe:d0-given", "pe:d0-none", "pe:v0-given", "pe:static-ic",
           "pe:with-rigid-body-modes", "pe:modal-system-uncoupled", "pe:static-by-model",
           "pex:SolveUnc", "pex:SolveExp2", "pex:mass-none", "pex:mass-vec", "pex:mass-mat", "pex:damping-vec",
           "pex:damping-mat", "pex:static-ic", "pex:with-rigid-body-mode", "pex:eigh-exact",
           "cu:order0", "cu:order1", "cu:carrier-k", "cu:carrier-b", "cu:carrier-m", "cu:imaginary-zero",
           "cu:imaginary-nonzero", "cu:rb-auto", "cu:rb-given", "cu:m-none", "cu:m-given", "cu:rb-undamped",
           "cu:rb-damped-full", "cu:static-ic", "cu:spec-checked"]
    )


# ---------------------------------------------------------------------------------------
# model-free oracle


def _rel(a, b, scale=None):
    """largest |a - b| relative to `scale` (a number, or one scale per row)"""
    a, b = np.asarray(a, float), np.asarray(b, float)
    if a.shape != b.shape:
        return float("inf")
    if a.size == 0:
        return 0.0
    if scale is None:
        scale = max(np.abs(a).max(), np.abs(b).max())
    sc = np.asarray(scale, float)
    if sc.ndim == 1 and a.ndim == 2:
        sc = sc[:, None]
    with np.errstate(all="ignore"):
        e = np.abs(a - b) / sc
    e = np.where(np.abs(a - b) == 0, 0.0, e)
    e = e.max()
    return float(e) if np.isfinite(e) else float("inf")


_WORST = {}


def _note(tag, e):
    if np.isfinite(e):
        _WORST[tag] = max(_WORST.get(tag, 0.0), float(e))
    return e


def _family_regimes(s):
    return "+".join(sorted(set(s["sub"])))


def _subdivide(s):
    F = np.array(s["F"], float)
    n, nt = F.shape
    G = np.empty((n, 2 * nt - 1))
    G[:, ::2] = F
    G[:, 1::2] = (F[:, :-1] + F[:, 1:]) / 2 if s["order"] == 1 else F[:, :-1]
    t = dict(s)
    t["F"] = G.tolist()
    t["h"] = s["h"] / 2
    return t


def _permute(s, p):
    t = dict(s)
    inv = np.argsort(p)
    for key in ("b", "k", "kinds", "sub", "F", "d0", "v0", "m"):
        if s.get(key) is not None:
            t[key] = [s[key][i] for i in p]
    t["rf"] = sorted(int(inv[i]) for i in s["rf"])
    t["rb"] = None if s["rb"] is None else sorted(int(inv[i]) for i in s["rb"])
    return t


def _oracle_unc(s, fails, deep=True):
    """property restated on the public API for an uncoupled (modal) system."""
    TOL = 1e-7
    n = s["n"]
    F = np.array(s["F"], float)
    inp = dict(s, kind="uncoupled")
    mm_ = [1.0] * n if s["m"] is None else s["m"]
    if any(s["kinds"][i] == "rb" and 0 < abs(s["b"][i] / mm_[i]) * s["h"] < 0.1 for i in range(n)):
        TOL = 2e-3  # lightly damped rigid-body mode: the documented 1e-3 accuracy of the damping cut-offs
    fam_tail = "%s-order%d" % (_family_regimes(s), s["order"])

    def fail(family, what, observed, required):
        fails.append({"family": family, "what": what, "input": inp, "observed": observed, "required": required})

    ref = _run_impl(s, "SolveExp2")
    if isinstance(ref, str):
        fail("SolveExp2-raises-" + fam_tail, "SolveExp2 refuses a valid system", ref, "a solution")
        return
    sol = _run_impl(s)
    if isinstance(sol, str):
        fail("SolveUnc-raises-" + fam_tail, "SolveUnc refuses a valid modal system", sol, "a solution")
        return
    m = np.ones(n) if s["m"] is None else np.array(s["m"], float)
    b, k = np.array(s["b"], float), np.array(s["k"], float)
    rf = list(s["rf"])
    nonrf = [i for i in range(n) if i not in rf]
    # one scale per row: the magnitudes of the terms of the recurrence / of the equation of motion
    rate = np.sqrt(np.abs(k / m)) + np.abs(b / m)
    scale_d = np.abs(ref.d).max(axis=1) + s["h"] * np.abs(ref.v).max(axis=1) + 1e-300
    scale_v = np.abs(ref.v).max(axis=1) + rate * scale_d + 1e-300
    scale_a = (np.abs(F).max(axis=1) + np.abs(b) * scale_v + np.abs(k) * scale_d) / m + 1e-300
    for i in rf:
        scale_d[i] = np.abs(ref.d[i]).max() + 1e-300
        scale_v[i] = scale_a[i] = 1.0
    # 1. initial conditions
    if s["d0"] is not None and _rel(sol.d[nonrf, 0], np.array(s["d0"])[nonrf], scale_d[nonrf]) > 1e-12:
        fail("initial-displacement", "d[:,0] differs from d0", sol.d[:, 0].tolist(), s["d0"])
    if s["v0"] is not None and _rel(sol.v[nonrf, 0], np.array(s["v0"])[nonrf], scale_v[nonrf]) > 1e-12:
        fail("initial-velocity", "v[:,0] differs from v0", sol.v[:, 0].tolist(), s["v0"])
    # 2. equation of motion on the returned arrays (rb modes: the documented k, b of the equations)
    for name, so in (("SolveUnc", sol), ("SolveExp2", ref)):
        res = m[:, None] * so.a + b[:, None] * so.v + k[:, None] * so.d - F
        terms = np.abs(m[:, None] * so.a) + np.abs(b[:, None] * so.v) + np.abs(k[:, None] * so.d) + np.abs(F)
        r = np.abs(res[nonrf]) / (terms[nonrf].max(axis=1, keepdims=True) + 1e-300)
        if r.size and r.max() > 1e-9:
            fail("eom-residual-%s-%s" % (name, fam_tail), "m a + b v + k d - F is not zero at a sample",
                 float(r.max()), "<= 1e-9 of the largest term")
        if rf:
            r = np.abs(k[rf, None] * so.d[rf] - F[rf]).max() / (np.abs(F[rf]).max() + 1e-300)
            if r > 1e-12 or np.abs(so.v[rf]).max() > 0 or np.abs(so.a[rf]).max() > 0:
                fail("rf-static-" + name, "residual-flexibility rows are not the static solution", float(r), "k d = f, v = a = 0")
    # 3. all exact solvers agree
    for nm, x, y, sc in (("d", sol.d, ref.d, scale_d), ("v", sol.v, ref.v, scale_v), ("a", sol.a, ref.a, scale_a)):
        e = _note("unc-vs-exp2", _rel(x, y, sc))
        if e > TOL:
            fail("solvers-disagree-unc-vs-exp2-" + fam_tail,
                 "SolveUnc (uncoupled) and SolveExp2 return different %s" % nm, e, "<= %g" % TOL)
            break
    if not deep:
        return
    # 4. step-subdivision invariance
    s2 = _subdivide(s)
    for cls in ("SolveUnc", "SolveExp2"):
        fine = _run_impl(s2, cls)
        coarse = sol if cls == "SolveUnc" else ref
        if isinstance(fine, str):
            fail("subdivision-raises-" + fam_tail, cls + " refuses the subdivided problem", fine, "a solution")
            continue
        for nm, x, y, sc in (("d", fine.d[:, ::2], coarse.d, scale_d), ("v", fine.v[:, ::2], coarse.v, scale_v),
                             ("a", fine.a[:, ::2], coarse.a, scale_a)):
            e = _note("subdivision-" + cls, _rel(x, y, sc))
            if e > TOL:
                fail("subdivision-%s-%s" % (cls, fam_tail),
                     "%s: halving every step (interpolated forces) changes %s at the original samples" % (cls, nm),
                     e, "<= %g" % TOL)
                break
    # 5. option invariance
    def same(tag, other, exact=1e-10):
        if isinstance(other, str):
            fail("option-%s-raises" % tag, "option variant raises", other, "same answer")
            return
        for nm, x, y, sc in (("d", other.d, sol.d, scale_d), ("v", other.v, sol.v, scale_v), ("a", other.a, sol.a, scale_a)):
            e = _note("option-" + tag, _rel(x, y, sc))
            if e > exact:
                fail("option-" + tag, "option that does not change the problem changes %s" % nm, e, "<= %g" % exact)
                break

    for pack in ("1d", "2d", "mixed"):
        if pack != s.get("pack"):
            same("mass-damping-stiffness-packaging", _run_impl(s, pack=pack))
    if s["m"] is None:
        same("m-none-vs-ones", _run_impl(dict(s, m=[1.0] * n)))
    rbs = [i for i in range(n) if s["kinds"][i] == "rb"]
    same("rb-given-vs-auto", _run_impl(dict(s, rb=rbs if s["rb"] is None else None)))
    if s["static"] and s["d0"] is None:
        d0 = np.zeros(n)
        el = [i for i in range(n) if s["kinds"][i] == "el"]
        if np.any(F[el, 0]):
            d0[el] = F[el, 0] / k[el]
        same("static-ic-vs-explicit", _run_impl(dict(s, d0=d0.tolist(), static=False)))
    # permutation equivariance (interleaved versus contiguous order)
    p = list(np.random.default_rng(n * 7919 + len(s["F"][0])).permutation(n))
    sp = _permute(s, p)
    other = _run_impl(sp)
    if isinstance(other, str):
        fails.append({"family": "uncoupled-rf-index-below-rb-index" if _rf_below_rb(sp) != _rf_below_rb(s)
                      else "option-mode-order-raises",
                      "what": "re-ordering the modes makes SolveUnc raise", "input": dict(sp, kind="uncoupled"),
                      "observed": other, "required": "the permuted answer"})
    else:
        for nm, x, y, sc in (("d", other.d, sol.d[p], scale_d[p]), ("v", other.v, sol.v[p], scale_v[p]),
                             ("a", other.a, sol.a[p], scale_a[p])):
            e = _note("option-mode-order", _rel(x, y, sc))
            if e > 1e-10:
                fails.append({"family": "uncoupled-rf-index-below-rb-index" if _rf_below_rb(sp) != _rf_below_rb(s)
                              else "option-mode-order",
                              "what": "re-ordering the modes changes " + nm, "input": dict(sp, kind="uncoupled"),
                              "observed": e, "required": "<= 1e-10"})
                break


def _oracle_coupled(s, fails):
    TOL = 1e-7
    var, (M, B, K) = _coupled_variants(s)
    phi = np.array(s["phi"])
    cond = max(1.0, np.linalg.cond(phi))
    F = np.array(s["F"], float)
    inp = dict(s, kind="coupled")
    has_ic = s["d0"] is not None or s["v0"] is not None
    # modal route through the uncoupled solver (public API only)
    t = _modal_spec(s)
    q = _run_impl(t)
    if not isinstance(q, str):
        var["SolveUnc-modal-route"] = (phi @ q.d, phi @ q.v, phi @ q.a)
    good = {k_: v for k_, v in var.items() if not isinstance(v, str)}
    for name, v in var.items():
        if isinstance(v, str):
            fails.append({"family": "coupled-raises-" + name, "what": name + " refuses a valid coupled system",
                          "input": inp, "observed": v, "required": "a solution"})
    if not good:
        return
    ref = good.get("SolveExp2") or next(iter(good.values()))
    wmax = math.sqrt(max(s["k"])) + max(s["b"])
    sd = np.abs(ref[0]).max() + s["h"] * np.abs(ref[1]).max() + 1e-300
    sv = np.abs(ref[1]).max() + wmax * sd + 1e-300
    sa = np.abs(ref[2]).max() + wmax * sv + np.abs(F).max() * np.abs(np.linalg.inv(M)).max() + 1e-300
    for name, (d, v, a) in good.items():
        pre = "pre_eig" in name
        if s["d0"] is not None and _rel(d[:, 0], s["d0"], sd) > 1e-9 * cond:
            fails.append({"family": "pre-eig-initial-conditions" if pre else "initial-displacement-" + name,
                          "what": "%s: d[:,0] differs from the d0 that was passed" % name, "input": inp,
                          "observed": d[:, 0].tolist(), "required": s["d0"]})
            continue
        if s["v0"] is not None and _rel(v[:, 0], s["v0"], sv) > 1e-9 * cond:
            fails.append({"family": "pre-eig-initial-conditions" if pre else "initial-velocity-" + name,
                          "what": "%s: v[:,0] differs from the v0 that was passed" % name, "input": inp,
                          "observed": v[:, 0].tolist(), "required": s["v0"]})
            continue
        res = M @ a + B @ v + K @ d - F
        terms = np.abs(M) @ np.abs(a) + np.abs(B) @ np.abs(v) + np.abs(K) @ np.abs(d) + np.abs(F)
        r = float((np.abs(res) / (terms.max(axis=1, keepdims=True) + 1e-300)).max())
        if r > 1e-8 * cond:
            fails.append({"family": "eom-residual-" + name, "what": "M a + B v + K d - F is not zero at a sample",
                          "input": inp, "observed": r, "required": "<= 1e-8*cond"})
        for nm, x, y, sc in (("d", d, ref[0], sd), ("v", v, ref[1], sv), ("a", a, ref[2], sa)):
            e = _note("coupled-" + name, _rel(x, y, sc) / cond)
            e *= cond
            if e > TOL * cond:
                fam = "solvers-disagree-" + name + ("-with-ic" if has_ic else "")
                if pre and has_ic and all(_rel(g[0], ref[0], sd) <= TOL * cond for k_, g in good.items() if "pre_eig" not in k_):
                    fam = "pre-eig-initial-conditions"
                fails.append({"family": fam, "what": "%s disagrees with SolveExp2 in %s" % (name, nm), "input": inp,
                              "observed": e, "required": "<= %g" % (TOL * cond)})
                break
    # static initial conditions (d0 not given): rigid-body rows start at zero, the elastic part in static
    # equilibrium; reference = the modal route (uncoupled solver, static_ic) mapped through the mode shapes
    if s["d0"] is None:
        ode = _ode()
        qs = _run_impl(dict(t, static=True))
        v0 = _arr(s["v0"])
        if not isinstance(qs, str):
            rs = (phi @ qs.d, phi @ qs.v, phi @ qs.a)
            runs = [("SolveExp2", lambda: ode.SolveExp2(M, B, K, s["h"], order=s["order"]).tsolve(F, None, v0, True))]
            if min(s["k"]) > 0 or s.get("blockphi"):
                runs.append(("SolveUnc-coupled", lambda: ode.SolveUnc(M, B, K, s["h"], order=s["order"]).tsolve(F, None, v0, True)))
            if min(s["k"]) > 0 or s.get("blockphi"):
                # (without block mode shapes the physical K, B have no zero rows: rb modes are not detected and
                # static_ic needs pre_eig, as documented)
                for name, fn in runs:
                    try:
                        with warnings.catch_warnings():
                            warnings.simplefilter("ignore")
                            so = fn()
                    except Exception as e:  # noqa: BLE001
                        fails.append({"family": "coupled-raises-static-ic-" + name, "what": name + " refuses static_ic",
                                      "input": inp, "observed": "%s: %s" % (type(e).__name__, str(e)[:80]),
                                      "required": "a solution"})
                        continue
                    ssd = np.abs(rs[0]).max() + s["h"] * np.abs(rs[1]).max() + 1e-300
                    ssv = np.abs(rs[1]).max() + wmax * ssd + 1e-300
                    for nm, x, y, sc in (("d", so.d, rs[0], ssd), ("v", so.v, rs[1], ssv)):
                        e = _note("coupled-static-ic-" + name, _rel(np.asarray(x), y, sc) / cond) * cond
                        if e > TOL * cond:
                            fails.append({"family": "static-ic-" + name,
                                          "what": "%s with static_ic differs from the modal static start in %s" % (name, nm),
                                          "input": inp, "observed": e, "required": "<= %g" % (TOL * cond)})
                            break
    # step subdivision on the coupled solvers
    s2 = _subdivide(s)
    var2, _ = _coupled_variants(s2)
    for name, v2 in var2.items():
        if isinstance(v2, str) or name not in good:
            continue
        for nm, x, y, sc in (("d", v2[0][:, ::2], good[name][0], sd), ("v", v2[1][:, ::2], good[name][1], sv)):
            e = _note("coupled-subdivision-" + name, _rel(x, y, sc) / cond) * cond
            if e > TOL * cond:
                fails.append({"family": "subdivision-" + name, "what": "%s: halving every step changes %s" % (name, nm),
                              "input": inp, "observed": e, "required": "<= %g" % (TOL * cond)})
                break


# ---------------------------------------------------------------------------------------
# general coupled systems (non-proportional / gyroscopic damping, zero-stiffness DOF coupled through damping
# only): no modal closed form exists, so the reference is the exact hold solution from scipy.linalg.expm of the
# augmented matrix, computed here with plain numpy/scipy (independent of pyYeti)


def _gen_general(rng):
    n = int(rng.integers(2, 6))
    h = float(10 ** rng.uniform(-2.5, -1))
    X = rng.standard_normal((n, n))
    M = X @ X.T / n + np.eye(n) * rng.uniform(0.5, 2.0)
    if rng.random() < 0.4:
        M = np.diag(rng.uniform(0.5, 3.0, n))
        if rng.random() < 0.35:
            M = np.eye(n)
    nz = int(rng.integers(0, n)) if rng.random() < 0.6 else 0  # DOF with no stiffness at all
    ne = n - nz
    wn = rng.uniform(0.3, 4.0, ne) / h / 6
    Y = np.linalg.qr(rng.standard_normal((ne, ne)))[0] if ne else np.zeros((0, 0))
    K = np.zeros((n, n))
    K[nz:, nz:] = Y @ np.diag(wn * wn) @ Y.T if ne else 0.0
    style = str(rng.choice(["sym", "skew", "sym+skew", "skew-on-zero-stiffness", "none"]))
    B = np.zeros((n, n))
    wm = float(wn.mean()) if ne else 1.0 / h
    if style in ("sym", "sym+skew"):
        Z = rng.standard_normal((n, n))
        S = Z @ Z.T / n * 0.1 * wm
        if nz and rng.random() < 0.5:
            S[:nz, :] = 0.0
            S[:, :nz] = 0.0
        B += S
    if style in ("skew", "sym+skew"):
        G = rng.standard_normal((n, n)) * 0.3 * wm
        B += G - G.T
    if style == "skew-on-zero-stiffness" and nz >= 2:
        # gyroscopic coupling among the zero-stiffness DOF only (zero diagonal): they are not rigid-body modes
        G = np.zeros((n, n))
        G[:nz, :nz] = rng.standard_normal((nz, nz)) * rng.uniform(0.2, 3.0) / h / 6
        B += G - G.T
        if ne:
            Z = rng.standard_normal((ne, ne))
            B[nz:, nz:] += Z @ Z.T / ne * 0.05 * wm
    nt = int(rng.integers(3, 16))
    if rng.random() < 0.12 and n >= 2:
        # REPEATED, non-defective eigenvalues: two identical (non-proportionally damped) substructures written in
        # coordinates that mix them; the state matrix has every eigenvalue twice with a full set of eigenvectors
        q = int(rng.integers(1, 3))
        X = rng.standard_normal((q, q))
        m1 = X @ X.T / q + np.eye(q)
        Y1 = np.linalg.qr(rng.standard_normal((q, q)))[0]
        k1 = Y1 @ np.diag((rng.uniform(0.5, 3.0, q) / h / 6) ** 2) @ Y1.T
        Z = rng.standard_normal((q, q))
        b1 = Z @ Z.T / q * 0.1 * float(np.sqrt(np.diag(k1).mean()))
        T = np.linalg.qr(rng.standard_normal((2 * q, 2 * q)))[0] if rng.random() < 0.7 else \
            np.kron(np.array([[1.0, 1.0], [1.0, -1.0]]), np.eye(q))
        blk = lambda a: T.T @ np.kron(np.eye(2), a) @ T
        M, B, K = blk(m1), blk(b1), blk(k1)
        n, nz, style = 2 * q, 0, "repeated-eigenvalues"
    F = rng.standard_normal((n, nt)) * 10 ** rng.uniform(-1, 1)
    return {"kind": "general", "n": n, "h": h, "order": int(rng.integers(0, 2)), "style": style, "nz": nz,
            "M": M.tolist(), "B": B.tolist(), "K": K.tolist(), "F": F.tolist(),
            "d0": None if rng.random() < 0.4 else [float(x) for x in rng.standard_normal(n)],
            "v0": None if rng.random() < 0.4 else [float(x) for x in rng.standard_normal(n) * 0.1 / h]}


def _expm_reference(M, B, K, h, F, d0, v0, order):
    """exact samples of M x'' + B x' + K x = f(t), f piecewise linear (order 1) or held (order 0)"""
    import scipy.linalg as sla

    n, nt = F.shape
    Mi = np.linalg.inv(M)
    A = np.zeros((2 * n, 2 * n))
    A[:n, :n] = -Mi @ B
    A[:n, n:] = -Mi @ K
    A[n:, :n] = np.eye(n)
    Bu = np.vstack([Mi, np.zeros((n, n))])
    big = np.zeros((4 * n, 4 * n))
    big[: 2 * n, : 2 * n] = A
    big[: 2 * n, 2 * n : 3 * n] = Bu
    big[2 * n : 3 * n, 3 * n :] = np.eye(n)
    E = sla.expm(big * h)
    z = np.concatenate([np.zeros(n) if v0 is None else v0, np.zeros(n) if d0 is None else d0])
    d, v, a = np.zeros((n, nt)), np.zeros((n, nt)), np.zeros((n, nt))
    for j in range(nt):
        d[:, j], v[:, j] = z[n:], z[:n]
        a[:, j] = Mi @ (F[:, j] - B @ v[:, j] - K @ d[:, j])
        if j + 1 < nt:
            g = (F[:, j + 1] - F[:, j]) / h if order == 1 else np.zeros(n)
            z = (E @ np.concatenate([z, F[:, j], g]))[: 2 * n]
    return d, v, a, A


def _oracle_general(s, fails):
    ode = _ode()
    M, B, K, F = (np.array(s[x], float) for x in ("M", "B", "K", "F"))
    d0, v0 = _arr(s["d0"]), _arr(s["v0"])
    n, h, o = s["n"], s["h"], s["order"]
    rd, rv, ra, A = _expm_reference(M, B, K, h, F, d0, v0, o)
    lam, V = np.linalg.eig(A)
    condV = np.linalg.cond(V)
    inp = dict(s)
    sd = np.abs(rd).max() + h * np.abs(rv).max() + 1e-300
    sv = np.abs(rv).max() + sd / h + 1e-300
    sa = np.abs(ra).max() + sv / h + 1e-300

    def run(name, fn, tol):
        try:
            with warnings.catch_warnings():
                warnings.simplefilter("ignore")
                sol = fn()
        except Exception as e:  # noqa: BLE001
            fails.append({"family": "general-coupled-raises-" + name, "what": name + " refuses a valid coupled system",
                          "input": inp, "observed": "%s: %s" % (type(e).__name__, str(e)[:100]), "required": "a solution"})
            return
        for nm, x, y, sc in (("d", sol.d, rd, sd), ("v", sol.v, rv, sv), ("a", sol.a, ra, sa)):
            e = _note("general-" + name, _rel(np.asarray(x), y, sc))
            if not e <= tol:
                fails.append({"family": "general-coupled-" + name + "-vs-expm-reference",
                              "what": "%s differs from the exact hold solution (scipy expm of the augmented matrix) in %s; "
                                      "damping style %s, %d DOF without stiffness" % (name, nm, s["style"], s["nz"]),
                              "input": inp, "observed": e, "required": "<= %g" % tol})
                return

    run("SolveExp2", lambda: ode.SolveExp2(M, B, K, h, order=o).tsolve(F, d0, v0), 1e-8)
    # packaging of the same problem: a lumped mass given as a 1-D vector (with and without the modal pre-transformation),
    # the first-order form through SolveExp1, force samples handed over as integer / single-precision arrays
    Mdiag = bool(np.all(M == np.diag(np.diag(M))))
    if Mdiag:
        mv = np.diag(M).copy()
        run("SolveExp2-mass-vector", lambda: ode.SolveExp2(mv, B, K, h, order=o).tsolve(F, d0, v0), 1e-8)
        run("SolveExp2-mass-vector-pre_eig", lambda: ode.SolveExp2(mv, B, K, h, order=o, pre_eig=True).tsolve(F, d0, v0), 1e-7)
    run("SolveExp2-pre_eig", lambda: ode.SolveExp2(M, B, K, h, order=o, pre_eig=True).tsolve(F, d0, v0), 1e-7)
    Fi = np.round(F)
    if np.abs(Fi).max() > 0:
        ri = _expm_reference(M, B, K, h, Fi, d0, v0, o)
        Ssys = np.zeros((2 * n, 2 * n))
        Mi_ = np.linalg.inv(M)
        Ssys[:n, :n], Ssys[:n, n:], Ssys[n:, :n] = -Mi_ @ B, -Mi_ @ K, np.eye(n)
        y0 = np.concatenate([np.zeros(n) if v0 is None else v0, np.zeros(n) if d0 is None else d0])
        for dt in ("int64", "float32", "float64"):
            f1 = np.vstack([Mi_ @ Fi, np.zeros_like(Fi)]) if not Mdiag else np.vstack([Fi / np.diag(M)[:, None], np.zeros_like(Fi)])
            if dt != "float64" and (not Mdiag or not np.all(np.diag(M) == 1.0)):
                continue  # the first-order force M^-1 F is whole-numbered only for a unit mass
            try:
                with warnings.catch_warnings():
                    warnings.simplefilter("ignore")
                    so = ode.SolveExp1(Ssys, h, order=o).tsolve(f1.astype(dt), y0)
                e = _rel(np.asarray(so.d)[n:], ri[0], np.abs(ri[0]).max() + h * np.abs(ri[1]).max() + 1e-300)
                if not e <= (1e-8 if dt != "float32" else 1e-5):
                    fails.append({"family": "general-coupled-SolveExp1-force-dtype-%s-vs-expm-reference" % dt,
                                  "what": "SolveExp1 with a %s force array differs from the exact hold solution" % dt,
                                  "input": inp, "observed": e, "required": "<= 1e-8"})
            except Exception as e:  # noqa: BLE001
                fails.append({"family": "general-coupled-raises-SolveExp1-" + dt, "what": "SolveExp1 refuses a valid system",
                              "input": inp, "observed": repr(e)[:120], "required": "a solution"})
    grade = _slow_mode_grade(lam, h)
    if grade is None:
        # a very slow mode (5e-5 <= |lam|, |lam| h < 1e-3): the coefficients of the complex path are ill conditioned
        # (cancellation of order (|lam| h)^-2): outside the conditioning domain of the property, like w h < 1e-3 on
        # the uncoupled path
        _WORST["general-SolveUnc-coupled-skipped-slow-mode"] = _WORST.get("general-SolveUnc-coupled-skipped-slow-mode", 0) + 1
        condV = float("inf")
    else:
        condV = condV * grade
    if condV < 1e5 and s["nz"] == 0 or (condV < 1e5 and s["style"] == "skew-on-zero-stiffness" and s["nz"] >= 2):
        # the complex-eigenvalue path needs a diagonalisable state matrix; accuracy graded by cond(V)
        run("SolveUnc-coupled", lambda: ode.SolveUnc(M, B, K, h, order=o).tsolve(F, d0, v0), 1e-9 * max(10.0, condV))
    if s["nz"] == 0 and s["style"] not in ("uncoupled", "modal"):
        # static initial conditions (no rigid-body mode: every equation is elastic): K d(0) = F(0), v(0) = v0, and
        # the history is the one started from that state; explicit rb=[] is the same problem as rb=None
        ds = np.linalg.solve(K, F[:, 0])
        rd, rv, ra, _ = _expm_reference(M, B, K, h, F, ds, v0, o)
        sd = np.abs(rd).max() + h * np.abs(rv).max() + 1e-300
        sv = np.abs(rv).max() + sd / h + 1e-300
        sa = np.abs(ra).max() + sv / h + 1e-300
        variants = [("SolveExp2-static_ic", lambda: ode.SolveExp2(M, B, K, h, order=o).tsolve(F, None, v0, True), 1e-8)]
        if condV < 1e5:
            tolu = 1e-9 * max(10.0, condV)
            variants += [
                ("SolveUnc-coupled-static_ic", lambda: ode.SolveUnc(M, B, K, h, order=o).tsolve(F, None, v0, True), tolu),
                ("SolveUnc-coupled-rb-empty", lambda: ode.SolveUnc(M, B, K, h, rb=[], order=o).tsolve(F, ds, v0), tolu)]
        for name, fn, tol in variants:
            try:
                with warnings.catch_warnings():
                    warnings.simplefilter("ignore")
                    sol = fn()
            except Exception as e:  # noqa: BLE001
                fails.append({"family": "general-coupled-raises-" + name, "what": name + " refuses a valid coupled system",
                              "input": inp, "observed": "%s: %s" % (type(e).__name__, str(e)[:100]), "required": "a solution"})
                continue
            r0 = float(np.abs(K @ np.asarray(sol.d)[:, 0] - F[:, 0]).max() / (np.abs(F[:, 0]).max() + np.abs(K).max() * np.abs(ds).max() + 1e-300))
            if r0 > 1e-9:
                fails.append({"family": "static-ic-not-in-equilibrium-" + name, "what": "K d(0) != F(0) with static_ic",
                              "input": inp, "observed": r0, "required": "<= 1e-9"})
                continue
            for nm, x, y, sc in (("d", sol.d, rd, sd), ("v", sol.v, rv, sv), ("a", sol.a, ra, sa)):
                e = _note("general-" + name, _rel(np.asarray(x), y, sc))
                if not e <= tol:
                    fails.append({"family": "general-coupled-" + name + "-vs-expm-reference",
                                  "what": "%s differs from the exact hold solution started in static equilibrium in %s" % (name, nm),
                                  "input": inp, "observed": e, "required": "<= %g" % tol})
                    break


# ---------------------------------------------------------------------------------------
# SolveExp1 on first-order systems y' = A y + f (model-free: scipy expm of the augmented hold matrix)


def _exp1_reference(A, h, F, d0, order):
    import scipy.linalg as sla

    n, nt = F.shape
    big = np.zeros((3 * n, 3 * n))
    big[:n, :n] = A
    big[:n, n:2 * n] = np.eye(n)
    big[n:2 * n, 2 * n:] = np.eye(n)
    X = sla.expm(big * h)
    y = np.zeros(n) if d0 is None else np.array(d0, float)
    d = np.zeros((n, nt))
    for j in range(nt):
        d[:, j] = y
        if j + 1 < nt:
            g = (F[:, j + 1] - F[:, j]) / h if order == 1 else np.zeros(n)
            y = (X @ np.concatenate([y, F[:, j], g]))[:n]
    return d, F + A @ d


def _oracle_exp1(s, fails):
    ode = _ode()
    A = np.array(s["A"], float)
    F = np.array(s["F"], float).reshape(s["n"], -1)
    n, nt = F.shape
    h, o = s["h"], s["order"]
    d0 = _arr(s["d0"])
    rd, rv = _exp1_reference(A, h, F, d0, o)
    sd = np.abs(rd).max() + 1e-300
    sv = np.abs(rv).max() + np.abs(A).max() * n * sd + 1e-300
    inp = dict(s)

    def run(name, force, dd0, tol):
        try:
            with warnings.catch_warnings():
                warnings.simplefilter("ignore")
                so = ode.SolveExp1(A, h, order=o).tsolve(force, dd0)
        except Exception as e:  # noqa: BLE001
            fails.append({"family": "SolveExp1-raises-" + name, "what": "SolveExp1 refuses a valid first-order system",
                          "input": inp, "observed": repr(e)[:120], "required": "a solution"})
            return None
        if dd0 is not None and _rel(np.asarray(so.d, float)[:, 0], dd0, sd) > 1e-12:
            fails.append({"family": "SolveExp1-initial-state-" + name, "what": "d[:, 0] differs from d0", "input": inp,
                          "observed": np.asarray(so.d, float)[:, 0].tolist(), "required": s["d0"]})
            return None
        for nm, x, y, sc in (("d", so.d, rd, sd), ("v", so.v, rv, sv)):
            e = _note("exp1-" + name, _rel(np.asarray(x, float), y, sc))
            if not e <= tol:
                fails.append({"family": "SolveExp1-%s-order%d-vs-expm-reference" % (name, o),
                              "what": "SolveExp1 (%s) differs from the exact hold solution of y' = A y + f in %s" % (name, nm),
                              "input": inp, "observed": e, "required": "<= %g" % tol})
                return None
        return so

    base = run("float64", F, d0, 1e-9)
    if s["dtype"] != "float64" and base is not None:
        # the same whole-numbered force samples handed over as an integer / single-precision array
        run("force-dtype-" + s["dtype"], F.astype(s["dtype"]), d0, 1e-9)
    if base is not None and nt >= 2:
        G = np.empty((n, 2 * nt - 1))
        G[:, ::2] = F
        G[:, 1::2] = (F[:, :-1] + F[:, 1:]) / 2 if o == 1 else F[:, :-1]
        try:
            with warnings.catch_warnings():
                warnings.simplefilter("ignore")
                fine = ode.SolveExp1(A, h / 2, order=o).tsolve(G, d0)
            e = _note("exp1-subdivision", _rel(np.asarray(fine.d)[:, ::2], np.asarray(base.d), sd))
            if not e <= 1e-9:
                fails.append({"family": "subdivision-SolveExp1-direct", "what": "halving every step changes d at the original samples",
                              "input": inp, "observed": e, "required": "<= 1e-9"})
        except Exception as e:  # noqa: BLE001
            fails.append({"family": "SolveExp1-raises-subdivided", "what": "SolveExp1 refuses the subdivided problem",
                          "input": inp, "observed": repr(e)[:120], "required": "a solution"})


# ---------------------------------------------------------------------------------------
# boundary cases of the documented cut-offs: inputs at constant * (1 -+ 1e-3) and inside the decade above it.
# Reference for one mode: the exact hold solution evaluated with 60 decimal digits (Taylor series of the augmented
# matrix with scaling and squaring in `decimal`; independent of pyYeti and of the double-precision formulas).


def _hp_1dof(m, b, k, h, F, d0, v0, order):
    from decimal import Decimal, getcontext

    getcontext().prec = 60
    D = lambda x: Decimal(float(x))  # noqa: E731
    m, b, k, hh = D(m), D(b), D(k), D(h)
    Z = Decimal(0)
    A = [[-b / m * hh, -k / m * hh, hh / m, Z], [hh, Z, Z, Z], [Z, Z, Z, hh], [Z, Z, Z, Z]]

    def mul(X, Y):
        return [[sum(X[i][c] * Y[c][j] for c in range(4)) for j in range(4)] for i in range(4)]

    nrm = max(sum(abs(x) for x in row) for row in A)
    sq = 0
    while nrm > Decimal("0.5"):
        nrm /= 2
        sq += 1
    A = [[x / (2 ** sq) for x in row] for row in A]
    E = [[Decimal(int(i == j)) for j in range(4)] for i in range(4)]
    T = [row[:] for row in E]
    for kk in range(1, 45):
        T = [[x / kk for x in row] for row in mul(T, A)]
        E = [[E[i][j] + T[i][j] for j in range(4)] for i in range(4)]
    for _ in range(sq):
        E = mul(E, E)
    z = [D(v0), D(d0)]
    d, v = [z[1]], [z[0]]
    for j in range(len(F) - 1):
        g = (D(F[j + 1]) - D(F[j])) / hh if order == 1 else Z
        x = [z[0], z[1], D(F[j]), g]
        z = [sum(E[i][c] * x[c] for c in range(4)) for i in range(2)]
        d.append(z[1])
        v.append(z[0])
    return np.array([float(x) for x in d]), np.array([float(x) for x in v])


def _boundary_specs():
    out = []
    F8 = [[float(x) for x in np.cos(np.arange(8) * 0.7) * 3 + 1]]
    # |w2/wo2| = 1e-8: inside the band the critical formulas are used (switch error of the order of the cut-off),
    # outside it the result is exact to round-off
    for h, wh, m in ((0.01, 1.0, 1.3), (0.1, 0.3, 0.7)):
        k = m * (wh / h) ** 2
        for sgn in (1.0, -1.0):
            for f in (1 - 1e-3, 1 + 1e-3, 3.0, 9.0):
                rat = sgn * 1e-8 * f
                out.append({"kind": "boundary", "cut": "crit", "factor": f, "side": "under" if sgn > 0 else "over",
                            "m": m, "b": 2 * m * math.sqrt((k / m) * (1 - rat)), "k": k, "h": h, "rb": [], "F": F8,
                            "order": 1 if sgn > 0 else 0, "tol_d": 1e-8 if f < 1 else 1e-10, "tol_v": 1e-8 if f < 1 else 1e-10})
    # damped rigid-body modes: |C| = 10 (1e-10/h)^(1/3) (displacement formulas) and |C| = 1e-5/sqrt(h) (velocity formulas)
    for h in (0.01, 0.1):
        cut = 10 * (1e-10 / h) ** (1 / 3)
        for f in (0.3, 1 - 1e-3, 1 + 1e-3, 3.0, 9.0):
            out.append({"kind": "boundary", "cut": "rb-disp", "factor": f, "m": 1.0, "b": 2 * cut * f, "k": 0.0, "h": h,
                        "rb": [0], "F": F8, "order": 1, "tol_d": 2e-3 if f < 1 else 1e-7, "tol_v": 2e-6})
    for h in (0.1, 1.0):
        cut = 1e-5 / math.sqrt(h)
        for f in (0.1, 0.3, 1 - 1e-3, 1 + 1e-3, 3.0, 9.0):
            out.append({"kind": "boundary", "cut": "rb-velo", "factor": f, "m": 1.0, "b": 2 * cut * f, "k": 0.0, "h": h,
                        "rb": [0], "F": F8, "order": 0 if h < 1 else 1, "tol_d": 2e-3, "tol_v": 1e-4 if f < 1 else 2e-6})
    # auto-detection of rigid-body modes: |k| < 0.005
    for f in (1 - 1e-3, 1 + 1e-3):
        out.append({"kind": "boundary", "cut": "rb-auto", "factor": f})
    # |lam| < 5e-5 of the complex-eigenvalue path
    for f in (1 - 1e-3, 1 + 1e-3, 3.0, 9.0):
        out.append({"kind": "boundary", "cut": "cplx-small", "factor": f})
    return out


def _oracle_boundary(s, fails):
    ode = _ode()
    cut, f = s["cut"], s["factor"]
    inp = dict(s)
    side = "below" if f < 1 else "above"

    def fail(what, observed, required, fam=None):
        fails.append({"family": fam or "boundary-%s-%s-the-documented-cut-off" % (cut, side), "what": what, "input": inp,
                      "observed": observed, "required": required})

    if cut in ("crit", "rb-disp", "rb-velo"):
        F = np.array(s["F"], float)
        d0, v0 = 0.3, -0.2
        rd, rv = _hp_1dof(s["m"], s["b"], s["k"], s["h"], F[0], d0, v0, s["order"])
        sd = np.abs(rd).max() + s["h"] * np.abs(rv).max()
        sv = np.abs(rv).max() + sd / s["h"]
        for cls in ("SolveUnc", "SolveExp2"):
            try:
                with warnings.catch_warnings():
                    warnings.simplefilter("ignore")
                    so = getattr(ode, cls)(np.array([s["m"]]), np.array([s["b"]]), np.array([s["k"]]), s["h"], rb=s["rb"],
                                           order=s["order"]).tsolve(F, [d0], [v0])
            except Exception as e:  # noqa: BLE001
                fail("%s refuses a one-mode system at %g times the cut-off" % (cls, f), repr(e)[:120], "a solution")
                continue
            tol_d, tol_v = (s["tol_d"], s["tol_v"]) if cls == "SolveUnc" else (1e-10, 1e-10)
            ed = _note("boundary-%s-%s-%s-d" % (cut, side, cls), float(np.abs(so.d[0] - rd).max() / sd))
            ev = _note("boundary-%s-%s-%s-v" % (cut, side, cls), float(np.abs(so.v[0] - rv).max() / sv))
            if not ed <= tol_d:
                fail("%s: displacement of one mode at %g times the cut-off differs from the exact hold solution "
                     "(60-digit reference)" % (cls, f), ed, "<= %g" % tol_d)
            elif not ev <= tol_v:
                fail("%s: velocity of one mode at %g times the cut-off differs from the exact hold solution "
                     "(60-digit reference)" % (cls, f), ev, "<= %g" % tol_v)
        return
    if cut == "rb-auto":
        c = 0.005 * f
        expect_rb = [0] if f < 1 else []
        nt = 24
        F = np.vstack([np.cos(np.arange(nt) * 0.3) + 0.5, np.sin(np.arange(nt) * 0.4), np.ones(nt)])
        # documented rule of get_su_coef itself (rbmodes=None): k/m < 0.005
        from pyyeti.ode._utilities import get_su_coef

        for m in (None, np.array([2.0, 2.0])):
            kk = np.array([c * (1.0 if m is None else 2.0), 50.0])
            pv = [int(x) for x in get_su_coef(m, np.array([0.0, 0.1]), kk, 0.01).pvrb]
            if pv != [1 if f < 1 else 0, 0]:
                fail("get_su_coef(rbmodes=None): a mode with k/m = %g*0.005 is classified %s" % (f, pv), pv,
                     "rigid-body iff k/m < 0.005")
        # uncoupled and coupled solvers: rb=None must be the documented rule abs(k) < 0.005
        kv = np.array([c, 4.0, 9.0])
        bv = np.array([0.0, 0.2, 0.3])
        Kc = np.diag(kv)
        Kc[1, 2] = Kc[2, 1] = 0.5
        for cls in ("SolveUnc", "SolveExp2"):
            for name, kk in (("uncoupled", kv), ("coupled", Kc)):
                try:
                    with warnings.catch_warnings():
                        warnings.simplefilter("ignore")
                        a = getattr(ode, cls)(None, bv, kk, 0.5).tsolve(F, None, [0.1, 0.0, 0.0], True)
                        b = getattr(ode, cls)(None, bv, kk, 0.5, rb=expect_rb).tsolve(F, None, [0.1, 0.0, 0.0], True)
                except Exception as e:  # noqa: BLE001
                    fail("%s (%s) refuses a system with a stiffness at %g times the tolerance" % (cls, name, f),
                         repr(e)[:120], "a solution")
                    continue
                e = _note("boundary-rb-auto", _rel(a.d, b.d))
                if not e <= 1e-10:
                    fail("%s (%s): rb=None differs from rb=%s for a mode with abs(k) = %g*0.005 (static_ic, 24 steps)"
                         % (cls, name, expect_rb, f), e, "rb=None is the documented rule abs(k) < 0.005")
        return
    if cut == "cplx-small":
        # a strongly over-damped oscillator (slow eigenvalue ~ -w/(2 zeta)) coupled to a second one through the
        # stiffness: well-conditioned eigenvectors, the slow eigenvalue placed at the boundary by bisection on zeta
        h, nt = 20.0, 8
        target = 5e-5 * f

        def mats(z):
            return np.eye(2), np.array([[0.2 * z, 0.0], [0.0, 0.03]]), np.array([[0.01, 0.002], [0.002, 0.09]])

        def small(z):
            M, B, K = mats(z)
            return np.abs(np.linalg.eigvals(_state_matrix(M, B, K))).min()

        lo, hi = 3000.0, 50.0  # small(lo) < target < small(hi)
        for _ in range(80):
            mid = (lo + hi) / 2
            if small(mid) < target:
                lo = mid
            else:
                hi = mid
        M, B, K = mats(hi)
        got = small(hi)
        if abs(got - target) > 1e-4 * target:
            return  # the construction did not reach the boundary (not a statement about pyYeti)
        F = np.vstack([0.01 * np.cos(np.arange(nt) * 0.7) + 0.02, 0.01 * np.ones(nt)])
        d0, v0 = np.array([0.3, 0.2]), np.array([0.0, 0.01])
        inp.update(M=M.tolist(), B=B.tolist(), K=K.tolist(), h=h, lam_small=float(got))
        for o in (0, 1):
            rd, rv, ra, A = _expm_reference(M, B, K, h, F, d0, v0, o)
            lam, V = np.linalg.eig(A)
            condV = np.linalg.cond(V)
            sd = np.abs(rd).max() + h * np.abs(rv).max()
            T = h * (nt - 1)
            # below the cut-off the mode is integrated as lam = 0: accurate to |lam| T (the documented cut-off);
            # above it: graded by the conditioning rule of the complex coefficients
            tol = 4 * 5e-5 * T if f < 1 else 1e-9 * max(10.0, condV) * max(1.0, (1e-2 / (got * h)) ** 2)
            try:
                with warnings.catch_warnings():
                    warnings.simplefilter("ignore")
                    so = ode.SolveUnc(M, B, K, h, order=o).tsolve(F, d0, v0)
            except Exception as e:  # noqa: BLE001
                fail("SolveUnc refuses a coupled system with an eigenvalue at %g times the tolerance" % f, repr(e)[:120], "a solution")
                continue
            e = _note("boundary-cplx-small-" + side, _rel(so.d, rd, sd))
            if not e <= tol:
                fail("SolveUnc (coupled path, order %d): a mode with |lam| = %g*5e-5 differs from the exact hold solution" % (o, f),
                     e, "<= %g" % tol)
        return


def _expm_reference_c(M, B, K, h, F, d0, v0, order):
    """`_expm_reference` for complex coefficients"""
    import scipy.linalg as sla

    n, nt = F.shape
    Mi = np.linalg.inv(M)
    A = np.zeros((2 * n, 2 * n), complex)
    A[:n, :n] = -Mi @ B
    A[:n, n:] = -Mi @ K
    A[n:, :n] = np.eye(n)
    big = np.zeros((4 * n, 4 * n), complex)
    big[: 2 * n, : 2 * n] = A
    big[:n, 2 * n: 3 * n] = Mi
    big[2 * n: 3 * n, 3 * n:] = np.eye(n)
    E = sla.expm(big * h)
    z = np.concatenate([np.zeros(n) if v0 is None else v0, np.zeros(n) if d0 is None else d0]).astype(complex)
    d, v, a = (np.zeros((n, nt), complex) for _ in range(3))
    for j in range(nt):
        d[:, j], v[:, j] = z[n:], z[:n]
        a[:, j] = Mi @ (F[:, j] - B @ v[:, j] - K @ d[:, j])
        if j + 1 < nt:
            g = (F[:, j + 1] - F[:, j]) / h if order == 1 else np.zeros(n)
            z = (E @ np.concatenate([z, F[:, j], g]))[: 2 * n]
    return d, v, a


def _oracle_cu(s, fails):
    """uncoupled equations with complex-dtype coefficients: SolveUnc against the exact hold solution (scipy expm).
    A damped rigid-body row that comes out as the UNDAMPED one — and nothing else wrong — is finding F61."""
    ode = _ode()
    n, h, o = s["n"], s["h"], s["order"]
    m, b, k = _cu_args(s)
    F = np.array(s["F"], float)
    inp = dict(s)
    rbs = [i for i in range(n) if s["kinds"][i] == "rb"]
    el = [i for i in range(n) if s["kinds"][i] == "el"]
    d0, v0 = _arr(s["d0"]), _arr(s["v0"])
    if d0 is None and s["static"]:
        d0 = np.zeros(n, complex)
        if el and np.any(F[el, 0]):
            d0[el] = F[el, 0] / k[el]
    M = np.diag(np.ones(n) if m is None else m)

    def ref(bvec):
        kk = np.array(k, complex)
        kk[rbs] = 0.0  # a rigid-body mode has no stiffness (documented meaning of `rb`)
        return _expm_reference_c(M, np.diag(bvec), np.diag(kk), h, F, d0, v0, o)

    try:
        with warnings.catch_warnings():
            warnings.simplefilter("ignore")
            so = ode.SolveUnc(m, b, k, h, rb=s["rb"], order=o).tsolve(F, _arr(s["d0"]), _arr(s["v0"]), s["static"])
    except Exception as e:  # noqa: BLE001
        fails.append({"family": "complex-uncoupled-raises", "what": "SolveUnc refuses an uncoupled system with complex-dtype "
                      "coefficients", "input": inp, "observed": repr(e)[:120], "required": "a solution"})
        return
    got = [np.asarray(x) for x in (so.d, so.v, so.a)]
    hh = h

    def rowerr(r):
        sd = np.abs(r[0]).max(axis=1) + hh * np.abs(r[1]).max(axis=1) + 1e-300
        sv = np.abs(r[1]).max(axis=1) + sd / hh
        sa = np.abs(r[2]).max(axis=1) + sv / hh
        return np.max([np.abs(g - x).max(axis=1) / sc for g, x, sc in zip(got, r, (sd, sv, sa))], axis=0)

    TOL = 1e-7
    if not s["eta"]:
        # regression guard of finding F62 (repaired in 4a72d85): all coefficients, the force and the initial state are
        # real, so the response is real: no imaginary part beyond round-off may come back
        sc = [max(np.abs(g).max(), 1e-300) for g in got]
        sc = [sc[0] + hh * sc[1], sc[1] + sc[0] / hh, sc[2] + sc[1] / hh]
        imag = _note("complex-uncoupled-zero-imaginary-coefficients-imag", max(float(np.abs(g.imag).max() / c_) for g, c_ in zip(got, sc)))
        if not imag <= 1e-12:
            fails.append({"family": FIXED_F62,
                          "what": "SolveUnc.tsolve, uncoupled equations given with a complex dtype but zero imaginary parts (%s "
                                  "complex): the response has an imaginary part of %.3g (relative) although the solution is real "
                                  "(conjugate eigenvalue pairs deleted, complex recovery used)" % (s["carrier"], imag),
                          "input": inp, "observed": imag, "required": "<= 1e-12 (round-off)"})
            got[:] = [g.real.astype(complex) for g in got]  # go on with the real parts
    e_true = rowerr(ref(np.array(b, complex)))
    _note("complex-uncoupled-SolveUnc", float(np.max(np.where(np.isin(np.arange(n), [i for i in rbs if b[i] != 0]), 0.0, e_true))))
    bad = [i for i in range(n) if not e_true[i] <= TOL]
    if not bad:
        return
    damped_rb = [i for i in rbs if b[i] != 0]
    b0 = np.array(b, complex)
    b0[damped_rb] = 0.0
    e_undamped = rowerr(ref(b0))
    if damped_rb and set(bad) <= set(damped_rb) and np.all(e_undamped <= TOL):
        fails.append({"family": F61,
                      "what": "SolveUnc.tsolve, uncoupled equations with complex-dtype coefficients (%s complex, loss factor %g): "
                              "the damped rigid-body row(s) %s are integrated as undamped (d, v, a equal the b = 0 solution to "
                              "%.1e, differ from the exact hold solution by %.2e); all other rows are right"
                              % (s["carrier"], s["eta"], bad, float(e_undamped.max()), float(e_true[bad].max())),
                      "input": inp, "observed": float(e_true[bad].max()), "required": "<= %g" % TOL})
        return
    fails.append({"family": "complex-uncoupled-SolveUnc-vs-expm-reference-order%d" % o,
                  "what": "SolveUnc.tsolve on uncoupled equations with complex-dtype coefficients differs from the exact hold "
                          "solution in rows %s (kinds %s) - not the damped-rigid-body pattern of F61" % (bad, [s["sub"][i] for i in bad]),
                  "input": inp, "observed": float(e_true[bad].max()), "required": "<= %g" % TOL})


def _oracle_long(s, fails):
    """a LONG history of a system with many DOF (n * nt above 2**21): the solution is the concatenation of two shorter
    runs restarted at the split point with the state reached there, and equals the modal solution (uncoupled solver on the
    modes, mapped back) - an error at an internal block boundary of a solver shows in both"""
    ode = _ode()
    n, nt, h, o, seed = s["n"], s["nt"], s["h"], s["order"], s["seed"]
    r = np.random.default_rng(seed)
    Q = np.linalg.qr(r.standard_normal((n, n)))[0]
    w = r.uniform(0.3, 3.0, n) / h / 6
    zeta = r.uniform(0.01, 0.2, n)
    K = Q @ np.diag(w * w) @ Q.T
    B = Q @ np.diag(2 * zeta * w) @ Q.T
    F = np.zeros((n, nt))
    F[:, : nt // 3] = r.standard_normal((n, 1))
    F[:, nt // 3:] = r.standard_normal((n, 1)) * 0.5
    F[:, ::997] += r.standard_normal((n, len(range(0, nt, 997))))
    k = s["split"]
    inp = dict(s)
    with warnings.catch_warnings():
        warnings.simplefilter("ignore")
        modal = ode.SolveUnc(None, 2 * zeta * w, w * w, h, order=o).tsolve(Q.T @ F)
        ref = Q @ modal.d
        sc = np.abs(ref).max() + 1e-300
        for name, mk in (("SolveExp2", lambda: ode.SolveExp2(None, B, K, h, order=o)),):
            try:
                full = mk().tsolve(F)
                a = mk().tsolve(F[:, : k + 1])
                b = mk().tsolve(F[:, k:], d0=a.d[:, -1], v0=a.v[:, -1])
            except Exception as e:  # noqa: BLE001
                fails.append({"family": "long-history-raises-" + name, "what": name + " refuses a long history", "input": inp,
                              "observed": repr(e)[:120], "required": "a solution"})
                continue
            e1 = float(np.abs(full.d - ref).max() / sc)
            e2 = float(max(np.abs(full.d[:, : k + 1] - a.d).max(), np.abs(full.d[:, k:] - b.d).max()) / sc)
            _note("long-" + name + "-vs-modal", e1)
            _note("long-" + name + "-restart", e2)
            if not e1 <= 1e-7:
                j = int(np.argmax(np.abs(full.d - ref).max(axis=0)))
                fails.append({"family": "long-history-%s-vs-modal-solution" % name,
                              "what": "%s on %d DOF x %d samples differs from the modal solution (first large error at "
                                      "sample %d)" % (name, n, nt, int(np.argmax(np.abs(full.d - ref).max(axis=0) > 1e-7 * sc))),
                              "input": inp, "observed": e1, "required": "<= 1e-7"})
            elif not e2 <= 1e-8:
                fails.append({"family": "long-history-%s-restart" % name,
                              "what": "%s: a long history is not the concatenation of two runs restarted at sample %d" % (name, k),
                              "input": inp, "observed": e2, "required": "<= 1e-8"})


def _oracle_one(s):
    _quiet()
    fails = []
    if s.get("kind") == "general":
        _oracle_general(s, fails)
        return fails
    if s.get("kind") == "exp1":
        _oracle_exp1(s, fails)
        return fails
    if s.get("kind") == "cplx-unc":
        _oracle_cu(s, fails)
        return fails
    if s.get("kind") == "boundary":
        _oracle_boundary(s, fails)
        return fails
    if s.get("kind") == "long":
        _oracle_long(s, fails)
        return fails
    if s.get("kind") == "coupled" or s.get("phi") is not None:
        _oracle_coupled(s, fails)
    else:
        _oracle_unc(s, fails)
        if fails and _rf_below_rb(s):
            # is the failure specific to the mode order?  re-run with the modes in rb, el, rf order
            order = sorted(range(s["n"]), key=lambda i: ({"rb": 0, "el": 1, "rf": 2}[s["kinds"][i]], i))
            f2 = []
            _oracle_unc(_permute(s, order), f2, deep=False)
            if not f2:
                for f in fails:
                    f["family"] = "uncoupled-rf-index-below-rb-index"
                    f["what"] = ("only with an rf index below an rb index (the same modes in rb, el, rf order pass): "
                                 + f["what"])
    return fails


def _hint_specs(hints):
    out = []
    for h in hints[:40]:
        i = h["input"]
        st = i.get("stream")
        if st in ("hist", "coupled"):
            out.append({k_: v for k_, v in i.items() if k_ not in ("stream", "solver")})
        elif st in ("pc", "exp2"):
            if i.get("usys") is not None:
                out.append(i["usys"])
            else:
                out.append({k_: v for k_, v in i.items() if k_ not in ("stream", "static", "rb", "rf", "blockphi")})
        elif st in ("exp1", "cu"):
            out.append({k_: v for k_, v in i.items() if k_ != "stream"})
        elif st == "pe":
            out.append({k_: v for k_, v in i.items() if k_ not in ("stream", "mform", "bform", "solver", "static")} | {"kind": "general"})
        elif st == "coef" and i.get("rf") == "0":
            # a one-mode system around the disagreeing coefficient input
            m, b, k, hh = i["m"], i["b"], i["k"], i["h"]
            isrb = i["rb"] == "1" or (i["rb"] == "n" and k / (m or 1.0) < 0.005)
            for order in (1, 0):
                out.append({"n": 1, "h": hh, "m": None if m is None else [m], "b": [b], "k": [0.0 if isrb else k],
                            "kinds": ["rb" if isrb else "el"], "sub": [_py_regime(m, b, k, hh, i["rb"])],
                            "layout": "contiguous", "order": order, "rb": [0] if isrb else [], "rf": [],
                            "static": False, "d0": [0.3], "v0": [-0.2 / hh], "pack": "1d",
                            "F": [[1.0, 2.0, -1.0, 0.5, 0.0, 3.0]]})
    return out


def _corpus(ctx):
    path = os.path.join(ctx.verif, "corpus", "c01.json")
    if not os.path.exists(path):
        return []
    return [{k_: v for k_, v in s.items() if k_ != "note"} for s in json.load(open(path))]


def _fixed_specs():
    """small hand-picked systems that always run (rf below rb)."""
    base = dict(layout="interleaved", order=1, static=False, d0=None, v0=None, pack="1d")
    F = [[1.0, 1.0, 1.0, 1.0, 1.0]] * 4
    t = np.arange(40) * 0.01
    cu = dict(kind="cplx-unc", layout="contiguous", order=1, static=False, d0=None, v0=None, rb=None, rf=[], h=0.01,
              carrier="k", eta=0.0)
    return [
        # the reproducer of finding F61 (damped rigid-body row of an uncoupled complex-dtype system)
        dict(cu, n=2, m=[2.0, 3.0], b=[0.8, 0.3], k=[0.0, 50.0], kinds=["rb", "el"], sub=["rb-damped-full", "under"],
             F=[[float(x) for x in np.sin(3 * t)], [float(x) for x in np.cos(2 * t)]]),
        # finding F62 (repaired): one under-damped mode, complex dtype with zero imaginary parts, on which la.eig returns
        # an exactly conjugate pair
        dict(cu, n=1, m=None, b=[0.1], k=[16.0], kinds=["el"], sub=["under"], F=[[float(x) for x in np.sin(3 * t)]]),
        dict(base, n=4, h=0.01, m=None, b=[0.0, 0.0, 2.0, 3.0], k=[1e6, 0.0, 400.0, 900.0], kinds=["rf", "rb", "el", "el"],
             sub=["rf", "rb-undamped", "under", "under"], rb=None, rf=[0], F=F),
        dict(base, n=4, h=0.01, m=None, b=[0.0, 2.0, 3.0, 0.0], k=[0.0, 400.0, 900.0, 1e6], kinds=["rb", "el", "el", "rf"],
             sub=["rb-undamped", "under", "under", "rf"], rb=[0], rf=[3], F=F, layout="contiguous"),
    ]


def search(ctx, hints):
    _quiet()
    rng = ctx.np_rng(5)
    specs = _hint_specs(hints) + _corpus(ctx) + _fixed_specs()
    for _ in range(ctx.pick(500, 6000)):
        specs.append(_gen_sys(ctx, rng, oracle=True))
    for _ in range(ctx.pick(120, 1500)):
        specs.append(_gen_coupled(ctx, rng, oracle=True))
    for _ in range(ctx.pick(250, 3000)):
        specs.append(_gen_general(rng))
    rng1 = ctx.np_rng(11)
    for _ in range(ctx.pick(150, 1500)):
        specs.append(_gen_exp1(rng1))
    rng2 = ctx.np_rng(13)
    for _ in range(ctx.pick(80, 800)):
        specs.append(_gen_cu(rng2))
    specs = _boundary_specs() + specs
    # long histories: n * nt beyond 2**21 (and, thorough, few DOF with a quarter of a million samples)
    specs.append({"kind": "long", "n": 64, "nt": 2 ** 15 + 300, "h": 0.01, "order": 1, "seed": 5, "split": 2 ** 14 + 7})
    specs.append({"kind": "long", "n": 96, "nt": 2 ** 14 + 6000, "h": 0.02, "order": 0, "seed": 6, "split": 9001})
    if ctx.thorough:
        specs.append({"kind": "long", "n": 8, "nt": 2 ** 18 + 300, "h": 0.01, "order": 1, "seed": 7, "split": 2 ** 17 + 3})
        specs.append({"kind": "long", "n": 3, "nt": 2 ** 20 + 11, "h": 0.005, "order": 0, "seed": 8, "split": 2 ** 19 + 1})
    for s in specs:
        fs = _oracle_one(s)
        if s.get("kind") in ("exp1", "boundary", "cplx-unc", "long"):
            ctx.count("oracle:" + s["kind"] + ("-" + s["cut"] if s.get("cut") else ""))
            ctx.failures.extend(fs)
            continue
        if s.get("kind") == "general":
            ctx.count("oracle:general-coupled")
            ctx.count("oracle:general-" + s["style"] + ("-zero-stiffness-dof" if s["nz"] else ""))
            ctx.failures.extend(fs)
            continue
        ctx.count("oracle:" + ("coupled" if s.get("phi") is not None else "uncoupled"))
        if _rf_below_rb(s):
            ctx.count("oracle:rf-below-rb")
        ctx.failures.extend(fs)
        if len({f["family"] for f in ctx.failures}) > 12:
            break
    ctx.extra["oracle_worst_relative_error"] = {k_: float("%.2e" % v) for k_, v in sorted(_WORST.items())}


def replay(ctx, data):
    f = data.get("failure")
    if not f:
        return None
    s = {k_: v for k_, v in f["input"].items()}
    fs = _oracle_one(s)
    for g in fs:
        if g["family"] == f["family"]:
            return g
    return fs[0] if fs else None
