"""C12 — Nastran number fields: exact width, best precision; cards round-trip (DESIGN.md §6/C12).

Tie:
  * translator harness/translate/c12_nasfloat.py: the decade if-chains of format_float8/16 and the
    constants of _format_scientific8/16 / format_double16 -> Generated/NasFloatTables.lean, which
    the Lean model *interprets* and about which `table_rows_ok` is proved by `decide`;
  * exact string correspondence between the Lean model (Model/PyFloat, NasFloat, NasCards through
    Drivers/C12.lean) and the real code: formatters on a sweep of every decade, CPython's
    '%.*f' / '%.*e' / float() / round() themselves, nas_sscanf, wtcard8/16/16d text and rdcards.
Search: model-free oracle on the public API (width, reads back as a float, accuracy of the last
digit the width allows, rdcards(wtcard(fields)) == fields, fixed == comma reading).
"""
import io
import math
import os
import struct
import sys
from concurrent.futures import ThreadPoolExecutor
from decimal import Decimal
from fractions import Fraction

import runner as _runner

# the runner is executed as __main__: take its exception classes from there so that
# `except TieBroken` / `except Infra` in runner.main() recognise what this module raises
_main = sys.modules.get("__main__")
Infra = getattr(_main, "Infra", _runner.Infra)
TieBroken = getattr(_main, "TieBroken", _runner.TieBroken)

sys.path.insert(0, os.path.join(os.path.dirname(os.path.dirname(os.path.abspath(__file__))), "translate"))
import c12_nasfloat  # noqa: E402

ID = "C12"
LEAN_MODULES = ["PyYetiVerif.Props.C12", "PyYetiVerif.Props.C12Multi", "PyYetiVerif.Props.C12Acc",
                "PyYetiVerif.Props.C12Best", "PyYetiVerif.Props.C12Foreign", "PyYetiVerif.Props.C12Comments",
                "PyYetiVerif.Audit.C12"]
AUDIT_FILE = "PyYetiVerif/Audit/C12.lean"
THEOREMS = [
    "PyYetiVerif.C12." + n
    for n in (
        "table_rows_ok fixed_branch_width fixed_branch_width_rat fixed_branch_width_tables "
        "sscanf_parses_field sscanf_parses_recognised fixed_branch_accuracy fixed_precision_maximal "
        "sci_consts_ok sci_width_accuracy sci_width small_branch_pos small_branch_neg last_branches tables_format_ok format_float_total "
        "carry_guard_sound int_field_roundtrip blank_field_roundtrip line_roundtrip "
        "card_line_roundtrip_partial str_field_roundtrip card_fields_ok card_roundtrip_small card_roundtrip_large card_roundtrip_comma card_fixed_comma_agree "
        "reader_options_default rdcards_general_is_rdcards rdcards_multi rdcards_multi_files written_cards_are_blocks "
        "rdcards_assembled array_shape dict_keys_and_last expandtabs_cells tab_line_reads_as_fixed fsearch_first_line "
        "wtcard_type_dispatch "
        "format_float_accuracy format_bound_pieces mixed_branch_picks mixed_branch_reads_as_sci "
        "fixed_branch_best_precision last_branches_best_precision sci_best_precision sci_slack_attained "
        "unnormalised_mantissa_is_closer mixed_branch_picks_neg kept_comments_complete rdcards_foreign_block tables_best_ok format_float_best_precision "
        "written_card_lines_no_match rdcards_foreign_written rdcards_foreign_boundary rdcards_written_cards "
        "rdcards_assembled_written kept_comments_placement kept_comments_rules kept_comments_foreign_card kept_comments_erase"
    ).split()
]
TRUSTED = [
    "Model/PyFloat.lean as the meaning of CPython '%.*f', '%.*e', float(str), round(x) on finite doubles "
    "(re-measured on every run by the `pyfloat` correspondence stream; since the extension the parts the "
    "theorems use are also *proved*: eParts_spec for '%.*e', rheDiv_err for '%.*f', toBits_mant for float() on "
    "a mantissa)",
    "translator harness/translate/c12_nasfloat.py (ast only; cross-checked by the exact string correspondence)",
    "correspondence harness harness/props/c12.py (exact comparison of fields, card text, rdcards results of every "
    "return_var, expandtabs, fsearch; the harness regex _FLD_RE as an independent reading of the emitted-field "
    "grammar)",
    "rdcards is modelled without INCLUDE following (the harness reads from StringIO, where the code switches it "
    "off); regex=True is modelled with the matcher as a parameter: the harness supplies the verdicts of Python's "
    "re.compile(name, re.IGNORECASE).match on each expanded line",
    "NumPy's conversions in rdcards(return_var='array'|'dict'): np.array(list of int/float).astype(float|int) as "
    "convRow (ints -> nearest double, one float makes the row float64, C truncation for dtype=int) - measured by the "
    "`rdcards-options` stream, not proved about NumPy",
    "the free-field writer `commaText` of the card theorems is a specification (pyyeti has no comma writer); the "
    "harness writes the same form (_comma_text) and the reader is compared on it exactly",
]
RULE = (
    "doubles: every decade 1e-323..1e308, both signs, a fixed mantissa grid (1, 4.99…, 5, 9.9…9 with 1..16 nines) "
    "with nextafter neighbours, seeded random mantissas, +-3 ulp neighbours of every branch bound of the "
    "translated tables and of every value that rounds to the next power of ten, zeros, subnormals, max double; "
    "a case is one double compared on format_float8/16 and format_double16 (stream format) and on "
    "_format_scientific8/16 (stream sci), exact strings; every distinct emitted field is split by the Lean "
    "recogniser fieldOf? and by the harness regex and the decimal it denotes is rounded and compared with "
    "nas_sscanf (stream grammar); non-trivial = non-zero; distinct by bit pattern.  dtype axis (stream "
    "format-dtype): the same formatters on numpy.float32 / int / numpy.int32 / int64 arguments against the model on "
    "float(argument); float32 arguments equal to the float32 rounding of a branch literal are skipped and counted "
    "(NumPy 2 compares a float32 scalar with a Python literal in float32, so the branch can differ there).  cards: "
    "seeded random cards of 0..60 fields over blank/str/int/float with blank runs and trailing blanks, three "
    "writers, single- and multi-card files, comma forms incl. first lines of every length 72..80 and beyond; "
    "fields given as numpy.str_/int32/int64/uint32/uint64/float64/bool, unsupported types (None, float16, int16, "
    "bool_, bytes, 0-d arrays, lists, Fraction, complex: TypeError), strings longer than the field (stream "
    "cards-dtype); distinct by the card text.  files (stream rdcards-options): 1..6 cards per file drawn from the "
    "three writers, the comma form and a tab-separated form, half of them renamed to a common name / common prefix, "
    "with comment lines, blank lines, BEGIN BULK / ENDDATA, foreign cards, stray continuation-like lines, quoted "
    "strings containing $, inline comments; read by a full name, a prefix, another case, a missing name or a regular "
    "expression with return_var list/array/dict, dtype float/int, keep_name, keep_comments, blank default/None/"
    "number/string, no_data_return; a case is one (file, options) pair compared on the canonical text of the result "
    "or the exception kind.  str.expandtabs on random strings with tabs, \\n, \\r (stream tabs); fsearch on random "
    "files (stream fsearch).  stream foreign-cards: files of 2..5 written cards (three writers) renamed within a "
    "family of prefix-related and unrelated names, read by one of the names in either case; exact comparison with "
    "the model, plus the literals GRID/GRIDX, GRID/CORD2R of the Lean example"
)
ASSUMPTIONS = [
    "string fields are Nastran names (letter first, alphanumeric, at most the field width) that nas_sscanf does "
    "not read as a number (INF/NAN/INFINITY are numbers to the reader and outside the quantifier)",
    "integer fields fit the field width",
    "accuracy is claimed for 1e-300 <= |x| <= 1e300 (beyond, rounding to the field's digits can overflow to inf); "
    "the Lean theorems cover all fractions with 1e-999 <= |x| < 1e999 (exponents of at most three digits)",
    "rdcards(return_var='array'|'dict') on a card without any field raises IndexError (`key = val[0]`): the model "
    "says so, the oracle treats such cards as outside the quantifier (cards of 1..60 fields)",
    "dtype is float or int (other dtypes are not modelled); with dtype=int the floats of the file are below 1e15 "
    "(the C cast of a larger double is undefined)",
]
PARTIAL = (
    "proved at full strength (all fractions that are zero or have 1e-999 <= |x| < 1e999, so every finite double): "
    "format_float_accuracy - format_float8/16 through the if-chain dispatch: exactly W characters, a field of the "
    "grammar, read back as a real, and |field - x| <= formatBound, the explicit piecewise bound (fixed rows "
    "1/2 10^-p, scientific (1/2 10^-P + 1/2 10^-q) 10^E, mixed: the bound of the alternative emitted, final "
    "integers 1/2; format_bound_pieces); mixed_branch_picks (positive chain: the fixed alternative is emitted iff "
    "N > 0, it fits and both fields read as the same double), mixed_branch_picks_neg (negative chain, exponents "
    "not ending in 0) and mixed_branch_reads_as_sci (whatever is emitted "
    "reads back as the same number as the scientific field); best precision: format_float_best_precision (over "
    "the dispatch: in every fixed-notation branch and in the final integer branches the field returned is a "
    "nearest W-character field; tables_best_ok by decide on the regenerated tables), per branch "
    "fixed_branch_best_precision and last_branches_best_precision (no string of the grammar of at most W "
    "characters, either sign, normalised or not, is closer: slack 0), sci_best_precision (slack 10^(E-q) against "
    "fields of the other sign, fixed-notation fields and scientific fields whose exponent part is at least as "
    "long), sci_slack_attained (the slack is sharp) and unnormalised_mantissa_is_closer (12346.+6 beats 1.235+10: "
    "the formatters are best for the exponent they print, not among all strings); the per-branch theorems of the "
    "first round; cards: card_roundtrip_small / _large / _comma, card_fixed_comma_agree; the reader with all "
    "options: rdcards_multi (any matcher, blank, return_var, dtype, keep_name; comments not kept: a file of block "
    "texts is read block by block), rdcards_multi_files, written_cards_are_blocks, rdcards_assembled, rdcards_assembled_written (written cards of other names in "
    "between, no foreign-block hypothesis), rdcards_written_cards, rdcards_foreign_written, rdcards_foreign_boundary, "
    "rdcards_general_is_rdcards, array_shape (rows x longest card, padded with blank), dict_keys_and_last, "
    "expandtabs_cells / tab_line_reads_as_fixed (tab stops at 8), fsearch_first_line, wtcard_type_dispatch.  "
    "Still partial: (1) the choice of the NEGATIVE mixed branch is characterised (mixed_branch_picks_neg) only "
    "for printed exponents whose last digit is not 0: the code's field.strip(' 0-') also eats the last zero of "
    "an exponent like -10 and then compares with another number, so for 1e-10 <= |x| < 1e-9 in format_float16 "
    "which alternative is emitted is tied by the exact correspondence only (text, width, read-back and the bound "
    "of each alternative are proved there too); (2) best precision is assembled over "
    "the dispatch for the fixed-notation and final integer branches only (format_float_best_precision: slack 0 "
    "against every string); in the scientific branches it is per branch (sci_best_precision, with the slack and "
    "the competitor class), and for the fixed alternative of a mixed branch it is only known that it reads back "
    "as the scientific field does (mixed_branch_reads_as_sci, positive chain); "
    "(3) a comma-form writer does not exist in pyyeti: card_roundtrip_comma is about the specification text "
    "commaText; (4) foreign written cards are now proved (rdcards_foreign_written / rdcards_written_cards / "
    "rdcards_assembled_written: a card written under another name is not seen iff name.lower() is not a prefix "
    "of its padded 8-column name field - rdcards_foreign_boundary: GRID does read GRIDX and GRID*); foreign "
    "lines that are not written cards still need the hypothesis of rdcards_foreign_block; for keep_comments=True "
    "kept_comments_complete (every comment line kept once, in order, any file) and now the placement on files "
    "made of comment lines and written cards: kept_comments_placement / kept_comments_rules (a matching card is "
    "preceded by exactly the comment lines met since the previous matching card - a foreign card in between "
    "flushes nothing, kept_comments_foreign_card - and the comments behind the last matching card come last), "
    "kept_comments_erase (keep_comments=False gives the same items without the comment entries); a comment line "
    "INSIDE the span of a card (between its first line and a continuation line) is outside these theorems: the "
    "model puts it behind that card, tied by the rdcards-options stream only; regex matching "
    "carries no theorem beyond rdcards_multi's 'any matcher'; (5) numpy.float32 arguments equal to the float32 rounding of a branch "
    "literal are outside the model (NumPy compares in float32 there); `rowsep` does not exist in this code base; "
    "card_line_roundtrip_partial is kept for the record (superseded by card_roundtrip_small)"
)
MANIFEST = {
    "level_text": "proof",
    "level_note": "Lean theorems: format_float8/16 as a whole (width, grammar, read-back, explicit piecewise accuracy "
                  "bound), best precision per branch with the sharp slack and the counterexample for un-normalised "
                  "mantissas, the positive mixed branch's choice; cards in 8/16/comma forms with any number of lines; "
                  "the generic reader with all options on multi-card files (block-by-block reading, array shapes, "
                  "dictionary keys, kept comments, tabs, fsearch); a written card of another name is invisible to the "
                  "reader exactly when name.lower() is not a prefix of its padded name field.  Tied by exact correspondence only: the choice of the "
                  "negative mixed branch in the decade 1e-10..1e-9 of format_float16, the place of a kept comment that stands inside a card's span, regular-expression names (matcher verdicts from Python's re), NumPy's "
                  "dtype conversions, numpy.float32 arguments",
    "technique": "Lean 4 model + ast translator (NasFloatTables) + differential correspondence",
}

FAM_CARRY = "format-float-positive-carry-no-decimal-point"
FAM_F7 = "format-float16-negative-carry-1e14"
FAM_COMMA_NAME = "rdcards-comma-keep-name-short-first-line"


# ------------------------------------------------------------------------------------ helpers


def _bits(x):
    return struct.unpack("<Q", struct.pack("<d", float(x)))[0]


def _dbl(b):
    return struct.unpack("<d", struct.pack("<Q", b))[0]


def _hex(s):
    try:
        h = s.encode("latin-1").hex()
    except UnicodeEncodeError:
        raise Infra("non latin-1 text in a protocol string")
    return h or "-"


def _unhex(h):
    return bytes.fromhex(h).decode("latin-1")


def _ask(ctx, lines, nproc=14):
    """driver.ask in parallel chunks (the model is a pure function of the request line)."""
    lines = list(lines)
    if not lines:
        return []
    n = max(1, min(nproc, len(lines) // 500 + 1))
    size = (len(lines) + n - 1) // n
    chunks = [lines[i: i + size] for i in range(0, len(lines), size)]
    with ThreadPoolExecutor(len(chunks)) as ex:
        parts = list(ex.map(lambda c: ctx.driver("C12").ask(c), chunks))
    return [r for p in parts for r in p]


def _bulk():
    from pyyeti.nastran import bulk

    return bulk


def translate(ctx):
    try:
        ctx._c12_tabs = c12_nasfloat.translate(ctx.repo, ctx.lean)
    except c12_nasfloat.Unparsable as e:
        ctx._c12_tabs = None
        raise TieBroken("c12_nasfloat: %s" % e)
    return ["NasFloatTables"]


def _tabs(ctx):
    t = getattr(ctx, "_c12_tabs", None)
    if t is None:
        try:
            t = c12_nasfloat.render(ctx.repo)[1]
        except c12_nasfloat.Unparsable:
            t = c12_nasfloat.render("/repo")[1]  # bounds of the reference tree still steer the sweep
    return t


# ------------------------------------------------------------------------------------ values

_GRID = [1.0, 1.5, 2.5, 4.999999999999999, 5.0, 5.000000000000001, 9.0] + [
    float("9." + "9" * k) for k in range(1, 17)
] + [float("4." + "9" * k) for k in (3, 4, 5, 6, 7, 11, 12, 13, 14, 15)] + [
    float("9." + "9" * k + "5") for k in range(1, 16)
] + [float("9." + "9" * k + "4") for k in range(1, 16, 2)]


def _nbrs(x, n=3):
    out = [x]
    lo = hi = x
    for _ in range(n):
        lo = math.nextafter(lo, -math.inf)
        hi = math.nextafter(hi, math.inf)
        out += [lo, hi]
    return out


def _bound_values(tabs):
    """neighbours of every branch bound of the translated tables, of each bound shifted by half a
    unit of the row's last digit (values that round to the next power of ten), and of the guards."""
    out = []
    for W in (8, 16):
        (prow, _, _), (nrow, _, _) = tabs[W]
        for rows, sgn in ((prow, 1.0), (nrow, -1.0)):
            for r in rows:
                frac, strict, prec, kind, lo = r
                b = float(frac)
                for v in _nbrs(b, 4):
                    out.append(sgn * v)
                if lo:
                    for v in _nbrs(float(lo), 4):
                        out.append(sgn * v)
                if kind in (2, 3):
                    for p in (prec, prec + 1, max(prec - 1, 0)):
                        c = float(frac - Fraction(1, 2 * 10 ** p))
                        for v in _nbrs(c, 4):
                            out.append(sgn * v)
    # beyond the last rows: the final else-branches and their carries
    for k in range(5, 17):
        for h in (0.5, 0.05, 0.4999999, 0.0):
            for sgn in (1.0, -1.0):
                for v in _nbrs(10.0 ** k - h, 3):
                    out.append(sgn * v)
    return out


def _values(ctx, per_decade, salt):
    """list of (double, origin)"""
    rng = ctx.rng
    vals = []
    for v in _bound_values(_tabs(ctx)):
        vals.append((v, "bound"))
    for e in range(-323, 309):
        for m in _GRID:
            try:
                v = float("%.17ge%d" % (m, e))
            except (ValueError, OverflowError):
                continue
            if math.isinf(v):
                continue
            for w in (v, math.nextafter(v, 0.0), math.nextafter(v, math.inf)):
                if math.isinf(w):
                    continue
                vals.append((w, "grid"))
                vals.append((-w, "grid"))
        for _ in range(per_decade * (12 if -17 <= e <= 17 else 1)):
            kind = rng.random()
            if kind < 0.7:
                m = rng.uniform(1.0, 10.0)
            elif kind < 0.85:
                m = round(rng.uniform(1.0, 10.0), rng.randint(0, 8))  # short decimals
            else:
                m = 10.0 - 10.0 ** (-rng.uniform(1, 16))  # close below the next decade
            try:
                v = float("%.17ge%d" % (m, e))
            except (ValueError, OverflowError):
                continue
            if math.isinf(v) or v == 0.0:
                continue
            vals.append((v if rng.random() < 0.5 else -v, "random"))
    for v in (0.0, -0.0, 5e-324, -5e-324, 2.2250738585072014e-308, -2.2250738585072014e-308,
              2.225073858507201e-308, 1.7976931348623157e308, -1.7976931348623157e308,
              1.0, -1.0, 0.1, -0.1, 1234.5678, -1234.5678):
        vals.append((v, "special"))
    return vals


def _row_of(tabs, W, x):
    """index of the branch of format_floatW taken by x, from the translated table (for the
    histogram only)."""
    (prow, _, _), (nrow, _, _) = tabs[W]
    if x >= 0.0:
        for i, (frac, strict, prec, kind, lo) in enumerate(prow):
            if (not lo or float(lo) <= x) and (x < float(frac) if strict else x <= float(frac)):
                return "f%d:pos:row%d:kind%d" % (W, i, kind)
        return "f%d:pos:else" % W
    for i, (frac, strict, prec, kind, lo) in enumerate(nrow):
        b = -float(frac)
        if (x > b) if strict else (x <= b):
            return "f%d:neg:row%d:kind%d" % (W, i, kind)
    return "f%d:neg:else" % W


def _fmt3(bulk, x):
    out = []
    for f in (bulk.format_float8, bulk.format_float16, bulk.format_double16):
        try:
            out.append(f(x))
        except Exception as e:  # noqa: BLE001
            out.append("exc:" + type(e).__name__)
    return "|".join(out)


_FLD_RE = None


def _py_field(bulk, s):
    """harness-side reading of the emitted-field grammar (independent of the Lean recogniser):
    ' '* [-] digit* . digit* [[D](+|-)digit+], at least one mantissa digit, exponent <= 5000;
    the last component is the bit pattern of what nas_sscanf returns for the string."""
    global _FLD_RE
    import re

    if _FLD_RE is None:
        _FLD_RE = re.compile(r" *(-?)([0-9]*)\.([0-9]*)(?:(D?)([+-])([0-9]+))?\Z")
    m = _FLD_RE.match(s)
    if not m or not (m.group(2) or m.group(3)):
        return "none"
    sg, ip, fp, d, es, ed = m.groups()
    if es and int(ed) > 5000:
        return "none"
    v = bulk.nas_sscanf(s)
    bits = "f%d" % _bits(v) if isinstance(v, float) else repr(v)
    if es:
        return "%d|%s|%s|%d|%s|%s|%s" % (1 if sg else 0, ip, fp, 1 if d else 0, es, ed, bits[1:] if bits[0] == "f" else bits)
    return "%d|%s|%s|-|-||%s" % (1 if sg else 0, ip, fp, bits[1:] if bits[0] == "f" else bits)


def _sci2(bulk, x):
    out = []
    for f in (bulk._format_scientific8, bulk._format_scientific16):
        try:
            out.append(f(x))
        except Exception as e:  # noqa: BLE001
            out.append("exc:" + type(e).__name__)
    return "|".join(out)


def _sci_branch(W, s, x):
    """branch label of a scientific field: exponent digits, sign, carry form `10.`"""
    t = s.strip()
    if t in ("0.", "0.D+0"):
        return "sci%d:zero" % W
    i = max(t.rfind("+"), t.rfind("-"))
    L = len(t) - i - 1
    return "sci%d:%s:L%d%s" % (W, "neg" if x < 0 else "pos", L, ":carry" if t.lstrip("-").startswith("10.") else "")


# ------------------------------------------------------------------------------------ cards

_LET = "ABCDEFGHIJKLMNOPQRSTUVWXYZ"
_ALNUM = _LET + "0123456789"


def _is_number_to_reader(bulk, s):
    return bulk.nas_sscanf(s) is not None


def _rand_name(rng, maxlen, star):
    n = rng.randint(1, maxlen - (1 if star else 0))
    s = rng.choice(_LET) + "".join(rng.choice(_ALNUM) for _ in range(n - 1))
    return s + ("*" if star else "")


def _rand_field(ctx, bulk, W, floats):
    rng = ctx.rng
    k = rng.random()
    if k < 0.22:
        return ["b"]
    if k < 0.42:
        while True:
            n = rng.randint(1, W)
            s = rng.choice(_LET) + "".join(rng.choice(_ALNUM) for _ in range(n - 1))
            if rng.random() < 0.15:
                s = s.lower()
            if not _is_number_to_reader(bulk, s):
                return ["s", s]
            ctx.skip("string field the number reader accepts as a number")
    if k < 0.68:
        d = rng.randint(1, W - 1)
        n = rng.randint(0, 10 ** d - 1)
        if rng.random() < 0.35 and d <= W - 2:
            n = -n
        elif rng.random() < 0.1:
            n = rng.randint(0, 10 ** W - 1)
        return ["i", n]
    return ["f", _bits(rng.choice(floats))]


def _rand_card(ctx, bulk, floats, writer=None):
    rng = ctx.rng
    writer = writer or rng.choice(["wtcard8", "wtcard16", "wtcard16d"])
    W = 8 if writer == "wtcard8" else 16
    r = rng.random()
    if r < 0.55:
        n = rng.randint(0, 12)
    elif r < 0.9:
        n = rng.randint(0, 34)
    else:
        n = rng.randint(30, 60)
    fields = []
    while len(fields) < n:
        if rng.random() < 0.12:
            fields += [["b"]] * rng.randint(1, 9)  # blank runs spanning lines
        else:
            fields.append(_rand_field(ctx, bulk, W, floats))
    fields = fields[:n]
    name = _rand_name(rng, 8, W == 16)
    return {"writer": writer, "name": name, "fields": fields}


def _py_fields(card, np_types=False):
    import numpy as np

    out = [card["name"]]
    for f in card["fields"]:
        if f[0] == "b":
            out.append("")
        elif f[0] == "s":
            out.append(np.str_(f[1]) if np_types else f[1])
        elif f[0] == "i":
            out.append(np.int64(f[1]) if np_types and abs(f[1]) < 2 ** 62 else f[1])
        else:
            out.append(np.float64(_dbl(f[1])) if np_types else _dbl(f[1]))
    return out


def _write(bulk, card, np_types=False):
    f = io.StringIO()
    try:
        getattr(bulk, card["writer"])(f, _py_fields(card, np_types))
    except ValueError:
        return "value-error"
    except Exception as e:  # noqa: BLE001
        return "exc:" + type(e).__name__
    return f.getvalue()


def _canon_val(v):
    if v is None:
        return "n"
    if isinstance(v, bool):
        return "?bool"
    if isinstance(v, int):
        return "i%d" % v
    if isinstance(v, float):
        return "f%d" % _bits(v)
    if isinstance(v, str):
        return "s" + (v.encode("latin-1").hex())
    return "?" + type(v).__name__


def _read(bulk, text, name, keep):
    try:
        r = bulk.rdcards(io.StringIO(text), name, return_var="list", keep_name=keep)
    except Exception as e:  # noqa: BLE001
        return "exc:" + type(e).__name__
    if r is None:
        return ""
    return ";".join(",".join(_canon_val(v) for v in c) for c in r)


def _tok(f):
    if f[0] == "b":
        return "b"
    if f[0] == "s":
        return "s" + f[1].encode("latin-1").hex()
    if f[0] == "i":
        return "i%d" % f[1]
    return "f%d" % f[1]


def _comma_text(bulk, card, rng=None, mnemonic=False):
    """the same card in free (comma) format, written by the harness: 8 fields per line, the
    continuation field left empty or '+', trailing blanks of the last line dropped."""
    toks = []
    for f in card["fields"]:
        if f[0] == "b":
            toks.append("")
        elif f[0] == "s":
            toks.append(f[1])
        elif f[0] == "i":
            toks.append(str(f[1]))
        else:
            x = _dbl(f[1])
            fmt = {"wtcard8": bulk.format_float8, "wtcard16": bulk.format_float16,
                   "wtcard16d": bulk.format_double16}[card["writer"]]
            toks.append(fmt(x).strip())
    lines = []
    mnem = None
    for i in range(0, max(len(toks), 1), 8):
        chunk = toks[i: i + 8]
        head = card["name"] if i == 0 else (mnem if mnem else ("+" if (rng is None or rng.random() < 0.5) else ""))
        mnem = None
        if i + 8 < len(toks) and (mnemonic or (rng is not None and rng.random() < 0.35)):
            # Nastran's free-field form: the 10th field of a continued line may hold a continuation mnemonic that the
            # next line repeats in its first field; it is not data
            mnem = "+C%d" % (i // 8 + 1)
            chunk = chunk + [mnem]
        elif i + 8 < len(toks) and (rng is None or rng.random() < 0.6):
            # a line that is continued may omit its trailing blank fields: the reader pads them
            while len(chunk) > 1 and chunk[-1] == "":
                chunk = chunk[:-1]
        lines.append(",".join([head] + chunk))
    # drop trailing empty tokens of the last line (a reader cannot tell them from nothing)
    last = lines[-1].rstrip(",")
    lines[-1] = last if last else lines[-1][:1]
    if "," not in lines[0]:
        return None  # a card without any comma is not in comma form
    return "\n".join(lines) + "\n"


def _card_with_comma_first_line(ctx, bulk, L):
    """a small-field card (continued on a second line) whose FIRST line in comma form
    `NAME,t1,...,t8` has exactly L characters (72 <= L <= 80: legal free field, beyond the 72
    columns of fixed fields); tokens are full-width ints, names and reals."""
    rng = ctx.rng
    for _ in range(200):
        nl = rng.randint(max(1, L - 72), 8)
        need = L - 8 - nl  # total token length
        lens = [8] * 8
        extra = 64 - need
        while extra > 0:
            i = rng.randrange(8)
            if lens[i] > 1:
                lens[i] -= 1
                extra -= 1
        fields = []
        for k in lens:
            r = rng.random()
            if r < 0.35:
                n = rng.randint(10 ** (k - 1), 10 ** k - 1) if k > 1 else rng.randint(0, 9)
                fields.append(["i", n])
            elif r < 0.5 and k >= 2:
                n = rng.randint(10 ** (k - 2), 10 ** (k - 1) - 1) if k > 2 else rng.randint(1, 9)
                fields.append(["i", -n])
            elif r < 0.7:
                while True:
                    t = rng.choice(_LET) + "".join(rng.choice(_ALNUM) for _ in range(k - 1))
                    if not _is_number_to_reader(bulk, t):
                        break
                fields.append(["s", t])
            else:
                # a real whose stripped 8-wide field has k characters
                found = None
                for _ in range(60):
                    x = rng.choice([1, -1]) * round(rng.uniform(1, 10), max(0, k - 3)) * 10.0 ** rng.randint(-2, 5)
                    if len(bulk.format_float8(x).strip()) == k:
                        found = x
                        break
                fields.append(["f", _bits(found)] if found is not None else ["i", 10 ** (k - 1) if k > 1 else 7])
        name = _rand_name(rng, nl, False)[:nl].ljust(nl, "X")
        if _is_number_to_reader(bulk, name):
            continue
        card = {"writer": "wtcard8", "name": name,
                "fields": fields + [["i", rng.randint(1, 99)], ["b"], ["f", _bits(rng.choice([1.5, -2.25e-5, 3e10]))]]}
        ct = _comma_text(bulk, card)
        if ct is not None and len(ct.split("\n")[0]) == L:
            return card
    return None


# ------------------------------------------------------------------------------------ reader options, files

_NODATA = object()
_DEFAULT = object()


def _canon_np(v):
    import numpy as np

    if isinstance(v, (np.floating, float)):
        return "f%d" % _bits(float(v))
    if isinstance(v, (np.integer, int)) and not isinstance(v, (bool, np.bool_)):
        return "i%d" % int(v)
    return "?" + type(v).__name__


def _canon_result(r):
    """canonical text of what rdcards returns (the format of the driver's `rdx` reply)"""
    import numpy as np

    if r is _NODATA:
        return "nodata"
    if isinstance(r, list):
        out = []
        for it in r:
            if isinstance(it, str):
                out.append("m" + it.encode("latin-1").hex())
            else:
                out.append("c" + ",".join(_canon_val(v) for v in it))
        return "L:" + ";".join(out)
    if isinstance(r, np.ndarray):
        if r.ndim != 2:
            return "?ndim%d" % r.ndim
        return "A:%dx%d:" % r.shape + ";".join(",".join(_canon_np(v) for v in row) for row in r)
    if isinstance(r, dict):
        return "D:" + ";".join("%s=%s" % (_canon_val(k), ",".join(_canon_np(v) for v in val)) for k, val in r.items())
    return "?" + type(r).__name__


def _blank_tok(b):
    if b is _DEFAULT or b is None:
        return "-"
    if isinstance(b, str):
        return "s" + _hex(b)
    if isinstance(b, int):
        return "i%d" % b
    return "f%d" % _bits(b)


def _rdx_real(bulk, text, name, rv, dt, keep, keepc, blank, regex):
    import warnings

    kw = dict(return_var=rv, dtype=(float if dt == "f" else int), keep_name=bool(keep),
              keep_comments=bool(keepc), no_data_return=_NODATA, regex=bool(regex))
    if blank is not _DEFAULT:
        kw["blank"] = blank
    with warnings.catch_warnings():
        warnings.simplefilter("ignore")
        try:
            r = bulk.rdcards(io.StringIO(text), name, **kw)
        except Exception as e:  # noqa: BLE001
            return "exc:" + type(e).__name__
    return _canon_result(r)


def _rdx_req(text, name, rv, dt, keep, keepc, blank, regex):
    if regex:
        import re

        prog = re.compile(name, re.IGNORECASE)
        bits = "".join("1" if prog.match(line.expandtabs()) else "0" for line in io.StringIO(text))
        mt = "b" + bits
    else:
        mt = "p" + _hex(name)
    return "rdx %s %s %d %d %s %s %s" % (rv[0], dt, keep, keepc, _blank_tok(blank), mt, _hex(text))


_SAFE_NOISE = ["$ comment line\n", "$\n", "$ a comment, with commas\n", "\n", "BEGIN BULK\n", "ENDDATA\n",
               "OTHER          1       2\n", "OTHER,1,2\n", "PARAM   POST    -1      $ inline comment\n",
               "$ tab\there\n"]
_UNSAFE_NOISE = [" stray  5\n", "+       9       8\n", "*       1.5\n", ",7,8\n", "   \n", "\t3\n",
                 "+,4,5\n", "*\n"]


def _tab_text(card, text):
    """the small-field card `text` with every run of blanks that ends a field replaced by a tab
    (a field of exactly 8 characters is followed by nothing); None when a field would be ambiguous"""
    lines = text.split("\n")[:-1]
    out = []
    for ln in lines:
        cells = [ln[i:i + 8] for i in range(0, len(ln), 8)]
        t = ""
        for k, c in enumerate(cells):
            c2 = c.strip()
            if " " in c2 or "\t" in c2:
                return None
            last = k == len(cells) - 1
            if len(c) == 8 and len(c2) == 8:
                t += c2
            elif last and len(c) < 8:
                t += c2
            else:
                t += c2 + "\t"
        out.append(t)
    return "\n".join(out) + "\n"


def _rand_parts(ctx, bulk, pool):
    """a file assembled from several writers: [{"t": "card", "card", "form", "text"} | {"t": "raw", "text", "safe"}]"""
    rng = ctx.rng
    parts = []
    base = None
    k = rng.randint(1, 6)
    for _ in range(k):
        while rng.random() < 0.35:
            if rng.random() < 0.75:
                parts.append({"t": "raw", "text": rng.choice(_SAFE_NOISE), "safe": True})
            else:
                parts.append({"t": "raw", "text": rng.choice(_UNSAFE_NOISE), "safe": False})
        c, t = pool[rng.randrange(len(pool))]
        if base is None:
            base = c["name"].rstrip("*")
        elif rng.random() < 0.5:
            # several cards of one name (small- and large-field forms), or of names with a common prefix
            nm = rng.choice([base, base, base[:6] + "X", base[: max(1, len(base) - 1)]])[:7]
            c = dict(c, name=nm + ("*" if c["writer"] != "wtcard8" else ""))
            t = _write(bulk, c)
            if t.startswith("exc:") or t == "value-error":
                continue
        r = rng.random()
        form, text = "fixed", t
        if r < 0.25:
            ct = _comma_text(bulk, c, rng)
            if ct is not None:
                form, text = "comma", ct
        elif r < 0.4 and c["writer"] == "wtcard8":
            tt = _tab_text(c, t)
            if tt is not None:
                form, text = "tab", tt
        parts.append({"t": "card", "card": c, "form": form, "text": text})
        if rng.random() < 0.12:
            nm = c["name"]
            raw = rng.choice(["%s, 1, 'a$b', 3\n" % nm, "%-8s'a$b'   3\n" % nm, "%-8s       1       2$ c\n" % nm,
                              "%s\t1\t2.5\tXY\n+\t3\n" % nm, "%s,1,2 $ c\n+,3\n" % nm, "%s\n" % nm])
            parts.append({"t": "raw", "text": raw, "safe": False})
    while rng.random() < 0.3:
        parts.append({"t": "raw", "text": rng.choice(_SAFE_NOISE), "safe": True})
    return parts


def _parts_text(parts):
    return "".join(p["text"] for p in parts)


def _pick_name(rng, parts):
    names = [p["card"]["name"] for p in parts if p["t"] == "card"]
    nm = rng.choice(names)
    r = rng.random()
    if r < 0.25:
        nm = nm[: rng.randint(1, max(1, len(nm) - 1))]
    elif r < 0.35:
        nm = nm.rstrip("*")
    elif r < 0.4:
        nm = "NOTHING"
    if rng.random() < 0.3:
        nm = nm.lower()
    return nm


def _regex_for(rng, parts):
    import re

    names = sorted({p["card"]["name"] for p in parts if p["t"] == "card"})
    a = rng.choice(names).rstrip("*")
    b = rng.choice(names).rstrip("*")
    return rng.choice([re.escape(a) + r"\*?(,\s*|\s+)", "(%s|%s)" % (re.escape(a), re.escape(b)),
                       re.escape(a[:1]) + r"\w*\*?\s", r"[a-m]\w*", re.escape(a) + r"\b", r".*5",
                       re.escape(a.lower()) + r"$", r"\s*\S+\s+\d"])


def _np_variant(rng, f):
    """(python object for the writer, token for the model) of a field given with a numpy / odd type"""
    import numpy as np

    if f[0] == "b":
        return rng.choice([("", "b"), (np.str_(""), "b")])
    if f[0] == "s":
        return rng.choice([(f[1], _tok(f)), (np.str_(f[1]), _tok(f))])
    if f[0] == "i":
        n = f[1]
        opts = [(n, _tok(f))]
        if -2 ** 31 <= n < 2 ** 31:
            opts.append((np.int32(n), _tok(f)))
        if -2 ** 63 <= n < 2 ** 63:
            opts.append((np.int64(n), _tok(f)))
        if 0 <= n < 2 ** 32:
            opts.append((np.uint32(n), _tok(f)))
        if 0 <= n < 2 ** 64:
            opts.append((np.uint64(n), _tok(f)))
        if -2 ** 15 <= n < 2 ** 15:
            opts.append((np.int16(n), "x"))
        if n in (0, 1):
            opts.append((bool(n), _tok(f)))
            opts.append((np.bool_(n), "x"))
        return rng.choice(opts)
    x = _dbl(f[1])
    return rng.choice([(x, _tok(f)), (np.float64(x), _tok(f)), (np.array(x), "x"), (np.float16(1.5), "x"),
                       (None, "x"), (b"ab", "x"), (np.longdouble(x), "x"), ([x], "x"), (Fraction(1, 2), "x"),
                       (complex(x), "x")])


def _f32_bounds(tabs):
    """the float32 values nearest to a literal of the decade chains: there (and only there) a NumPy
    float32 argument can take another branch than the same value as a Python float, because NumPy 2
    compares a float32 scalar with a Python float literal in float32"""
    import numpy as np

    out = set()
    for W in (8, 16):
        (prow, _, _), (nrow, _, _) = tabs[W]
        for rows in (prow, nrow):
            for frac, strict, prec, kind, lo in rows:
                for c in [frac] + ([lo] if lo else []):
                    v = float(np.float32(float(c)))
                    out.add(v)
                    out.add(-v)
    return out


# ------------------------------------------------------------------------------------ correspondence


def correspondence(ctx):
    bulk = _bulk()
    tabs = _tabs(ctx)
    vals = _values(ctx, ctx.pick(40, 1200), 1)
    ctx.extra["sweep_values"] = len(vals)

    # --- stream `format`: exact fields of the three formatters ---------------------------
    req = ["all %d" % _bits(x) for x, _ in vals]
    rep = _ask(ctx, req)
    nbad = 0
    for (x, origin), r in zip(vals, rep):
        got = _fmt3(bulk, x)
        ctx.case(("v", _bits(x)), nontrivial=(x != 0.0), branch="origin:" + origin)
        ctx.count(_row_of(tabs, 8, x))
        ctx.count(_row_of(tabs, 16, x))
        if got != r:
            nbad += 1
            if nbad <= 200:
                ctx.disagree("format", {"kind": "number", "bits": _bits(x), "repr": repr(x)}, got, r)
    for i in (0, len(vals) // 3, len(vals) // 2, len(vals) - 1):
        ctx.sample({"x": repr(vals[i][0]), "f8|f16|d16": rep[i]})
    need = []
    for W in (8, 16):
        (prow, _, _), (nrow, _, _) = tabs[W]
        need += ["f%d:pos:row%d:kind%d" % (W, i, r[3]) for i, r in enumerate(prow)]
        need += ["f%d:neg:row%d:kind%d" % (W, i, r[3]) for i, r in enumerate(nrow)]
        need += ["f%d:pos:else" % W, "f%d:neg:else" % W]
    if ctx.broken:
        # the tie is already broken (e.g. a table with an unreachable row): report the
        # unreached branches instead of failing the run as infrastructure
        ctx.extra["unreached_branches"] = [n for n in need if not ctx.hist.get(n)]
    else:
        ctx.require_branches(need)

    # --- stream `sci`: _format_scientific8/16 and format_double16 on every value -----------
    rep = _ask(ctx, ["sci %d" % _bits(x) for x, _ in vals])
    nbad = 0
    emitted = {}
    for (x, origin), r in zip(vals, rep):
        got = _sci2(bulk, x)
        ctx.case(("sci", _bits(x)), nontrivial=(x != 0.0), branch="sci")
        if "exc:" not in got:
            g8, g16 = got.split("|")
            ctx.count(_sci_branch(8, g8, x))
            ctx.count(_sci_branch(16, g16, x))
            emitted.setdefault(g8, x)
            emitted.setdefault(g16, x)
        if got != r:
            nbad += 1
            if nbad <= 100:
                ctx.disagree("sci", {"kind": "number", "bits": _bits(x), "repr": repr(x), "fmt": "sci"}, got, r)
    need = ["sci%d:%s:L%d" % (W, sg, L) for W in (8, 16) for sg in ("pos", "neg") for L in (1, 2, 3)]
    need += ["sci%d:%s:L%d:carry" % (W, sg, L) for W in (8, 16) for sg in ("pos", "neg") for L in (1, 2)]
    need += ["sci8:zero", "sci16:zero"]
    if not ctx.broken:
        ctx.require_branches(need)

    # --- stream `grammar`: every emitted field is in the grammar of Spec/NasFloatField, the Lean
    # recogniser and the harness regex split it alike, and the decimal it denotes rounds to what
    # nas_sscanf returns -------------------------------------------------------------------
    for x, _ in vals[:: max(1, len(vals) // ctx.pick(40000, 400000))]:
        for t in _fmt3(bulk, x).split("|"):
            emitted.setdefault(t, x)
    emitted = {t: x for t, x in emitted.items() if not t.startswith("exc:")}
    others = ["1.5-3", "-1.235+7", ".5-3", "-.5", "1.D+0", "  10.+10", "1.2D-300", "1.5e-3", "1.5E3", "1.5d3", "15",
              " 1.5 ", "1.5-", "1.5+-3", ".", "-.", "1.5D3", "1.5-3x", "+1.5-3", "1.5-5001", "1.5-5000", "0.", "0.D+0",
              "1..5", "", "   ", "GRID", "1.5 -3", "--1.", "1.-0", "10.+0"]
    strs = list(emitted) + others
    rep = _ask(ctx, ["fld " + _hex(t) for t in strs])
    for t, r in zip(strs, rep):
        got = _py_field(bulk, t)
        kind = "none" if got == "none" else {"-": "plain", "0": "exp", "1": "D"}[got.split("|")[3]]
        ctx.case(("fld", t), branch="grammar:" + kind)
        if t in emitted and got == "none":
            ctx.disagree("grammar", {"kind": "number", "bits": _bits(emitted[t]), "repr": repr(emitted[t]),
                                     "field": t}, "emitted field outside the grammar", r)
        elif got != r:
            inp = {"kind": "scan", "string": t}
            if t in emitted:
                inp = {"kind": "number", "bits": _bits(emitted[t]), "repr": repr(emitted[t]), "field": t}
            ctx.disagree("grammar", inp, got, r)
    ctx.require_branches(["grammar:plain", "grammar:exp", "grammar:D", "grammar:none"])

    # --- stream `pyfloat`: the CPython conversions themselves ----------------------------
    rng = ctx.rng
    sub = [vals[i][0] for i in range(0, len(vals), max(1, len(vals) // ctx.pick(6000, 60000)))]
    req, want = [], []
    for x in sub:
        p = rng.randint(0, 17)
        req.append("fmtf %d %d" % (p, _bits(x)))
        want.append("%.*f" % (p, x))
        p = rng.randint(0, 17)
        req.append("fmte %d %d" % (p, _bits(x)))
        want.append("%.*e" % (p, x))
        if abs(x) < 1e18:
            req.append("round %d" % _bits(x))
            want.append(str(round(x)))
        s = rng.choice([repr(x), "%.17g" % x, "%.*e" % (rng.randint(0, 18), x),
                        "%.*f" % (rng.randint(0, 12), x) if abs(x) < 1e30 else repr(x),
                        " %r " % x, "+%r" % x if x > 0 else repr(x), repr(x).upper()])
        if "inf" in s.lower() or "nan" in s.lower():
            continue
        req.append("float " + _hex(s))
        want.append(str(_bits(float(s))))
    for s in ["", " ", ".", "e5", "1e", "--1", "1.2.3", "abc", "1e+", "+", "-", "1 2", "1.e5", ".5e-3", "5.",
              "0", "-0", "-0.0", "00012", "1E5", "1e05", "1e-05", "4.9e-324", "2.4e-324", "2.5e-324",
              "1.7976931348623158e308", "1.7976931348623159e308", "1e309", "1e-400", "9007199254740993",
              "0.1", "1.5d3", "1.5-3", "٣"]:
        try:
            h = _hex(s)
        except Infra:
            continue
        req.append("float " + h)
        try:
            v = float(s)
            want.append(str(_bits(v)))
        except ValueError:
            want.append("none")
    rep = _ask(ctx, req)
    for q, w, r in zip(req, want, rep):
        ctx.case(("py", q), branch="pyfloat:" + q.split()[0])
        if w != r:
            ctx.disagree("pyfloat", {"kind": "pyfloat", "request": q}, w, r)

    # --- stream `scan`: nas_sscanf -------------------------------------------------------
    strs = []
    for x in sub[:: max(1, len(sub) // 3000)]:
        strs += _fmt3(bulk, x).split("|")
        strs.append(bulk.format_float8(x).replace("+", "e+") if x > 1 else bulk.format_float16(x).lower())
    strs += [" 10", "-5", "+5", "1.7e-4", "1.7-4", "1.7d4", "1.7D-4", "1.+5", "-1.-5", "ABC", "AB-C", "A+B",
             " ", "", "string", "1.5E3", "  12  ", "GRID*", "D5", "E5", "1.D+0", "-1.5D-13", "1d", "1-", "1.5+",
             "+", "-", "X1", "1.5e", "0", "-0", "0.", "-.5", "+.5-3", "12 3", "1..2", "CORD2R", "THRU"]
    strs = [s for s in strs if not s.startswith("exc:")]
    rep = _ask(ctx, ["scan " + _hex(s) for s in strs])
    for s, r in zip(strs, rep):
        got = _canon_val(bulk.nas_sscanf(s, True))
        ctx.case(("scan", s), branch="scan:" + got[:1])
        if got != r:
            ctx.disagree("scan", {"kind": "scan", "string": s}, got, r)
    ctx.require_branches(["scan:i", "scan:f", "scan:s", "scan:n"])

    # --- stream `cards`: writers and reader ------------------------------------------------
    floats = [x for x, _ in vals if x == x and not math.isinf(x)]
    cards = []
    for fields in ([], [["b"]], [["i", 1]], [["b"]] * 9, [["i", 1]] + [["b"]] * 8, [["i", 1]] * 8, [["i", 1]] * 9,
                   [["s", "AB"], ["b"], ["f", _bits(1.5)]], [["i", 1]] * 4, [["i", 1]] * 5, [["i", 7]] * 16 + [["b"]],
                   [["i", 7]] * 17):
        for w in ("wtcard8", "wtcard16", "wtcard16d"):
            cards.append({"writer": w, "name": "C*" if w != "wtcard8" else "C", "fields": fields})
    ncards = ctx.pick(1500, 15000)
    while len(cards) < ncards:
        cards.append(_rand_card(ctx, bulk, floats))
    # malformed: the writers refuse these
    cards.append({"writer": "wtcard8", "name": "TOOLONGNAME", "fields": [["i", 1]]})
    cards.append({"writer": "wtcard16", "name": "NOSTAR", "fields": [["i", 1]]})
    cards.append({"writer": "wtcard16d", "name": "TOOLONGN*", "fields": [["i", 1]]})
    req = []
    for c in cards:
        req.append("%s %s %s" % ({"wtcard8": "wt8", "wtcard16": "wt16", "wtcard16d": "wt16d"}[c["writer"]],
                                  _hex(c["name"]), " ".join(_tok(f) for f in c["fields"])))
    rep = _ask(ctx, req)
    texts = []
    for i, (c, r) in enumerate(zip(cards, rep)):
        got = _write(bulk, c, np_types=(i % 5 == 0))
        texts.append(got)
        nlines = got.count("\n")
        ctx.case(("card", got), branch="cards:%s:%s" % (c["writer"], "1-line" if nlines <= 1 else
                                                        "2-lines" if nlines == 2 else "3+-lines"))
        model = r if r in ("value-error", "bad-op") else _unhex(r)
        if got == "value-error":
            ctx.count("cards:value-error")
        if got != model:
            ctx.disagree("cards-write", {"kind": "card", "card": c}, got, model)
    if cards:
        ctx.sample({"card": cards[len(cards) // 2], "text": texts[len(cards) // 2]})
    # reader: single-card files, multi-card files with foreign lines, comma forms
    files = []
    for c, t in zip(cards, texts):
        if t.startswith("exc:") or t == "value-error":
            continue
        files.append((t, c["name"], "single"))
    ok = [(c, t) for c, t in zip(cards, texts) if not (t.startswith("exc:") or t == "value-error")]
    for _ in range(ctx.pick(300, 3000)):
        k = rng.randint(2, 5)
        pick = [ok[rng.randrange(len(ok))] for _ in range(k)]
        text = ""
        for c, t in pick:
            if rng.random() < 0.3:
                text += "$ comment line\n"
            if rng.random() < 0.2:
                text += "OTHER          1       2\n"
            text += t
        nm = pick[rng.randrange(k)][0]["name"]
        if rng.random() < 0.3:
            nm = nm[:1]  # a prefix selects several cards
        if rng.random() < 0.3:
            nm = nm.lower()
        files.append((text, nm, "multi"))
    files.append(("HQ,1\n+,2\n", "hq", "comma"))  # F30: short continued first line, keep_name
    files.append(("HQ,1,,,\n,2\n+,,,3\n", "HQ", "comma"))
    for c, t in ok[: ctx.pick(700, 7000)]:
        ct = _comma_text(bulk, c, rng)
        if ct is not None:
            if rng.random() < 0.2:
                ct = ct.replace(",", ", ")
            files.append((ct, c["name"], "comma"))
            n0 = len(ct.split("\n")[0])
            ctx.count("rdcards:comma:first-line-%s" % ("<=72" if n0 <= 72 else "73..80" if n0 <= 80 else ">80"))
    # free-field cards whose first line is 72 .. 80 characters long (legal; a reader that cuts the
    # line at column 72 like the fixed-field reader loses the last fields)
    for L in range(72, 81):
        for _ in range(ctx.pick(6, 40)):
            c = _card_with_comma_first_line(ctx, bulk, L)
            if c is None:
                continue
            ct = _comma_text(bulk, c, rng)
            files.append((ct, c["name"], "comma"))
            files.append((_write(bulk, c), c["name"], "single"))
            ctx.count("rdcards:comma:first-line-%d" % L)
    req = []
    for text, nm, kind in files:
        for keep in (0, 1):
            req.append("rd %d %s %s" % (keep, _hex(nm), _hex(text)))
    rep = _ask(ctx, req)
    j = 0
    for text, nm, kind in files:
        for keep in (0, 1):
            got = _read(bulk, text, nm, bool(keep))
            ctx.case(("rd", keep, nm, text), branch="rdcards:" + kind)
            if got != rep[j]:
                ctx.disagree("cards-read", {"kind": "file", "text": text, "name": nm, "keep_name": keep},
                             got, rep[j])
            j += 1
    ctx.require_branches(["cards:wtcard8:3+-lines", "cards:wtcard16:3+-lines", "cards:wtcard16d:3+-lines",
                          "cards:value-error", "rdcards:single", "rdcards:multi", "rdcards:comma"] +
                         ["rdcards:comma:first-line-%d" % L for L in range(72, 81)] +
                         ["rdcards:comma:first-line-73..80", "rdcards:comma:first-line->80"])
    _corr_extension(ctx, bulk, tabs, vals, ok, floats)


def _corr_extension(ctx, bulk, tabs, vals, ok, floats):
    """streams of the extension: expandtabs, fsearch, the writers' type dispatch and the formatters on
    NumPy / int arguments, rdcards with all its options on files assembled from several writers"""
    import numpy as np
    import time as _time

    rng = ctx.rng
    t_ext = _time.time()

    # --- stream `tabs`: str.expandtabs() ---------------------------------------------------
    strs = ["", "\t", "a\tb", "\t\t", "abcdefgh\tx", "abcdefg\tx", "ab\ncd\te\r\tf", "\n\t", "GRID\t1\t2.5\tXY\n+\t3\n"]
    alphabet = "ab1 .,$*+-\t\t\t\n\rXY"
    for _ in range(ctx.pick(400, 4000)):
        strs.append("".join(rng.choice(alphabet) for _ in range(rng.randint(0, 40))))
    rep = _ask(ctx, ["tabs " + _hex(t) for t in strs])
    for t, r in zip(strs, rep):
        got = t.expandtabs()
        r = _unhex(r) if r not in ("bad-op",) else r
        ctx.case(("tabs", t), nontrivial=("\t" in t), branch="tabs:" + ("tab" if "\t" in t else "plain"))
        if got != r:
            ctx.disagree("tabs", {"kind": "tabs", "string": t}, got, r)

    # --- stream `fsearch` --------------------------------------------------------------------
    req, want = [], []
    for _ in range(ctx.pick(300, 3000)):
        nl = rng.randint(0, 6)
        text = "".join("".join(rng.choice("abAB 1.\t") for _ in range(rng.randint(0, 12))) + "\n" for _ in range(nl))
        if rng.random() < 0.2:
            text += "ab1"  # last line without newline
        pat = "".join(rng.choice("abAB 1.") for _ in range(rng.randint(0, 3)))
        f = io.StringIO(text)
        line, pos = bulk.fsearch(f, pat)
        want.append("none" if line is None else "%s %d" % (_hex(line), pos))
        req.append("fs %s %s" % (_hex(pat), _hex(text)))
        ctx.case(("fs", pat, text), branch="fsearch:" + ("none" if line is None else "found"))
    rep = _ask(ctx, req)
    for q, w, r in zip(req, want, rep):
        if w != r:
            ctx.disagree("fsearch", {"kind": "fsearch", "request": q}, w, r)

    # --- stream `format-dtype`: the formatters on float32 / integer arguments -------------------
    f32b = _f32_bounds(tabs)
    sub = [vals[i][0] for i in range(0, len(vals), max(1, len(vals) // ctx.pick(4000, 40000)))]
    args = []
    for x in sub:
        with np.errstate(over="ignore"):
            v32 = np.float32(x)
        if np.isfinite(v32):
            if float(v32) in f32b:
                ctx.skip("float32 argument equal to the float32 rounding of a branch literal (NumPy compares in float32)")
            else:
                args.append((v32, float(v32), "float32"))
        if abs(x) < 2 ** 53 and x == int(x):
            args.append((int(x), float(int(x)), "int"))
            if abs(x) < 2 ** 31:
                args.append((np.int32(int(x)), float(int(x)), "np.int32"))
            args.append((np.int64(int(x)), float(int(x)), "np.int64"))
    for v in sorted(f32b):
        for w in (np.nextafter(np.float32(v), np.float32(np.inf)), np.nextafter(np.float32(v), np.float32(-np.inf))):
            if float(w) not in f32b:
                args.append((w, float(w), "float32"))
    for n in (0, 1, -1, 7, 10 ** 7, -10 ** 6, 9999999, 10 ** 15, 2 ** 53 - 1, -(2 ** 53 - 1), True, False):
        args.append((n, float(n), "int"))
    rep = _ask(ctx, ["all %d" % _bits(xf) for _, xf, _ in args])
    for (v, xf, kind), r in zip(args, rep):
        got = _fmt3(bulk, v)
        ctx.case(("fmtx", kind, _bits(xf)), nontrivial=(xf != 0.0), branch="format-dtype:" + kind)
        if got != r:
            ctx.disagree("format-dtype", {"kind": "number", "bits": _bits(xf), "repr": repr(v), "dtype": kind}, got, r)
    ctx.require_branches(["format-dtype:float32", "format-dtype:int", "format-dtype:np.int64"])

    # --- stream `cards-dtype`: the writers' type dispatch ---------------------------------------
    req, objs = [], []
    wname = {"wtcard8": "wtx8", "wtcard16": "wtx16", "wtcard16d": "wtx16d"}
    for c, _ in ok[: ctx.pick(700, 6000)]:
        if not c["fields"]:
            continue
        py, toks = [c["name"]], []
        allow_bad = rng.random() < 0.3
        for f in c["fields"]:
            if rng.random() < 0.45:
                o, t = _np_variant(rng, f)
                if t == "x" and not allow_bad:
                    o, t = _py_fields({"name": "", "fields": [f]})[1], _tok(f)
            else:
                o, t = _py_fields({"name": "", "fields": [f]})[1], _tok(f)
            py.append(o)
            toks.append(t)
        if rng.random() < 0.08:
            # a string longer than the field: written as it is (the line is no longer aligned)
            W = 8 if c["writer"] == "wtcard8" else 16
            long = "".join(rng.choice(_LET) for _ in range(W + rng.randint(1, 6)))
            k = rng.randrange(len(toks))
            py[k + 1], toks[k] = long, "s" + long.encode("latin-1").hex()
            ctx.count("cards-dtype:long-string")
        if rng.random() < 0.1:
            py = tuple(py)
        elif rng.random() < 0.05 and all(isinstance(o, str) for o in py):
            py = np.array(py)
        req.append("%s %s %s" % (wname[c["writer"]], _hex(c["name"]), " ".join(toks)))
        objs.append((c, py))
    for w, nm in (("wtcard8", "TOOLONGNAME"), ("wtcard16", "NOSTAR"), ("wtcard16d", "TOOLONGN*")):
        req.append("%s %s i1 x" % (wname[w], _hex(nm)))  # the name checks come before the field types
        objs.append(({"writer": w, "name": nm, "fields": []}, [nm, 1, None]))
    rep = _ask(ctx, req)
    for (c, py), q, r in zip(objs, req, rep):
        f = io.StringIO()
        try:
            getattr(bulk, c["writer"])(f, py)
            got = f.getvalue()
        except ValueError:
            got = "value-error"
        except TypeError:
            got = "type-error"
        except Exception as e:  # noqa: BLE001
            got = "exc:" + type(e).__name__
        model = r if r in ("value-error", "type-error", "bad-op") else _unhex(r)
        ctx.case(("wtx", q), branch="cards-dtype:" + (got if got in ("value-error", "type-error") else "text"))
        if got != model:
            ctx.disagree("cards-dtype", {"kind": "wtx", "request": q, "fields": repr(py)[:400]}, got, model)
    ctx.require_branches(["cards-dtype:text", "cards-dtype:type-error", "cards-dtype:value-error",
                          "cards-dtype:long-string"])

    # --- stream `rdcards-options`: files assembled from several writers, every option -----------
    small = [x for x in floats if abs(x) < 1e15]
    pool_small = [(c, t) for c, t in ((c, _write(bulk, c)) for c in
                                       (_rand_card(ctx, bulk, small) for _ in range(ctx.pick(150, 1200))))
                  if not (t.startswith("exc:") or t == "value-error")]
    req, want, inputs = [], [], []
    for i in range(ctx.pick(900, 9000)):
        intdt = rng.random() < 0.25
        parts = _rand_parts(ctx, bulk, pool_small if intdt else ok)
        text = _parts_text(parts)
        regex = rng.random() < 0.15
        name = _regex_for(rng, parts) if regex else _pick_name(rng, parts)
        rv = rng.choice(["list", "list", "array", "array", "dict"])
        dt = "i" if intdt else "f"
        keep, keepc = rng.randint(0, 1), (1 if rng.random() < 0.3 else 0)
        if rv == "list":
            blank = rng.choice([_DEFAULT, _DEFAULT, None, "", "X", 0, -1, 1.5])
        else:
            blank = rng.choice([_DEFAULT, _DEFAULT, None, 0, -1, 7, 1.5, -2.5] + (["x"] if rng.random() < 0.1 else []))
        q = _rdx_req(text, name, rv, dt, keep, keepc, blank, regex)
        w = _rdx_real(bulk, text, name, rv, dt, keep, keepc, blank, regex)
        req.append(q)
        want.append(w)
        inputs.append({"kind": "rdx", "parts": parts, "name": name, "return_var": rv, "dtype": dt, "keep_name": keep,
                       "keep_comments": keepc, "blank": None if blank is _DEFAULT else blank, "regex": regex,
                       "default_blank": blank is _DEFAULT})
        res = "exc" if w.startswith("exc:") else w[:1]
        ctx.case(("rdx", q), branch="rdcards-options:%s:%s" % (rv, res))
        ctx.count("rdcards-options:" + ("regex" if regex else "prefix"))
        if keepc and rv == "list" and ";m" in w or w.startswith("L:m"):
            ctx.count("rdcards-options:comments-kept")
        if any(p["t"] == "card" and p["form"] == "tab" for p in parts) or "\t" in text:
            ctx.count("rdcards-options:tabs")
        if dt == "i" and rv != "list":
            ctx.count("rdcards-options:dtype-int")
    rep = _ask(ctx, req)
    for q, w, r, inp in zip(req, want, rep, inputs):
        if w != r:
            ctx.disagree("rdcards-options", inp, w, r)
    if inputs:
        ctx.sample({"rdcards": {k: v for k, v in inputs[0].items() if k != "parts"}, "text": _parts_text(inputs[0]["parts"])[:300],
                    "result": want[0][:200]})
    # --- stream `foreign-cards`: files made of written cards of several names only (rdcards_written_cards,
    # rdcards_foreign_written, rdcards_foreign_boundary): a card is seen iff name.lower() is a prefix of its padded
    # name field, its `+` / `*` continuation lines never are
    req, want, inputs = [], [], []

    def _wr(w, nm, fields):
        c = {"writer": w, "name": nm, "fields": fields}
        return c, _write(bulk, c)

    fixed_files = [
        ([_wr("wtcard8", "GRIDX", [["i", 1], ["i", 2]])], "GRID", [["GRIDX", 1, 2]]),
        ([_wr("wtcard8", "CORD2R", [["i", 1], ["i", 2]])], "GRID", _NODATA),
        ([_wr("wtcard8", "GRID", [["i", 1]]), _wr("wtcard8", "CORD2R", [["i", k] for k in range(20)]),
          _wr("wtcard16", "PBAR*", [["i", k] for k in range(11)]), _wr("wtcard16d", "GRIDX*", [["i", 5]]),
          _wr("wtcard16", "GRID*", [["i", 3]])], "grid", None),
    ]
    for _ in range(ctx.pick(400, 4000)):
        base = _rand_name(rng, 5, False)
        fam = [base, base + "X", base + "XY", base[: max(1, len(base) - 1)], _rand_name(rng, 7, False),
               _rand_name(rng, 7, False)]
        cs = []
        for _k in range(rng.randint(2, 5)):
            c, t = ok[rng.randrange(len(ok))]
            nm = rng.choice(fam)[:7]
            c = dict(c, name=nm + ("*" if c["writer"] != "wtcard8" else ""))
            t = _write(bulk, c)
            if not (t.startswith("exc:") or t == "value-error"):
                cs.append((c, t))
        if not cs:
            continue
        nm = rng.choice(fam + [cs[0][0]["name"]])
        if rng.random() < 0.3:
            nm = nm.lower()
        fixed_files.append((cs, nm, None))
    for cs, nm, lit in fixed_files:
        text = "".join(t for _, t in cs)
        keep = 1 if lit is not None else rng.randint(0, 1)
        q = _rdx_req(text, nm, "list", "f", keep, 0, _DEFAULT, False)
        w = _rdx_real(bulk, text, nm, "list", "f", keep, 0, _DEFAULT, False)
        inp = {"kind": "rdx", "parts": [{"t": "card", "card": c, "form": "fixed", "text": t} for c, t in cs],
               "name": nm, "return_var": "list", "dtype": "f", "keep_name": keep, "keep_comments": 0, "blank": None,
               "regex": False, "default_blank": True}
        req.append(q)
        want.append(w)
        inputs.append(inp)
        low = nm.lower()
        # (classified by the input, not by what the code returns: a broken reader must disagree, not starve a branch)
        ctx.case(("foreign", q), branch="foreign-cards:" + (
            "some-read" if any(c["name"].ljust(8).lower().startswith(low) for c, _ in cs) else "none-read"))
        for c, t in cs:
            hit = c["name"].ljust(8).lower().startswith(low)
            lines = t.count("\n")
            if not hit:
                ctx.count("foreign-cards:skipped")
                if lines > 1:
                    ctx.count("foreign-cards:skipped-with-%s-lines" % ("plus" if c["writer"] == "wtcard8" else "star"))
            elif c["name"].rstrip("*").lower() != low.rstrip("*"):
                ctx.count("foreign-cards:picked-up-by-prefix")
            else:
                ctx.count("foreign-cards:own")
        if lit is not None and w != _canon_result(lit):
            ctx.disagree("foreign-cards", inp, w, "the literal of the Lean example: " + _canon_result(lit))
    rep = _ask(ctx, req)
    for q, w, r, inp in zip(req, want, rep, inputs):
        if w != r:
            ctx.disagree("foreign-cards", inp, w, r)
    ctx.require_branches(["foreign-cards:none-read", "foreign-cards:some-read", "foreign-cards:skipped",
                          "foreign-cards:skipped-with-plus-lines", "foreign-cards:skipped-with-star-lines",
                          "foreign-cards:picked-up-by-prefix", "foreign-cards:own"])
    ctx.extra["extension_streams_seconds"] = round(_time.time() - t_ext, 1)
    ctx.require_branches(["rdcards-options:list:L", "rdcards-options:list:n", "rdcards-options:array:A",
                          "rdcards-options:array:n", "rdcards-options:array:exc", "rdcards-options:dict:D",
                          "rdcards-options:regex", "rdcards-options:prefix", "rdcards-options:comments-kept",
                          "rdcards-options:tabs", "rdcards-options:dtype-int", "tabs:tab", "fsearch:found",
                          "fsearch:none"])


# ------------------------------------------------------------------------------------ oracle

_FMT = {"f8": ("format_float8", 8, False), "f16": ("format_float16", 16, False),
        "d16": ("format_double16", 16, True),
        # the scientific helpers themselves (anchored mechanism; only the scientific form is available)
        "s8": ("_format_scientific8", 8, None), "s16": ("_format_scientific16", 16, None)}


def _best_unit(x, W, dstyle):
    """the value of the last digit a W-wide Nastran real can carry for this sign / exponent:
    fixed notation `[-]iii.ddd` (no leading zero below one) or `[-]d.ddd±e` (`D±e`)."""
    e = Decimal(x).adjusted()  # floor(log10 |x|), exact
    sg = 1 if x < 0 else 0
    kint = e + 1 if e >= 0 else 0
    units = []
    q = W - sg - 3 - len(str(abs(e))) - (1 if dstyle else 0)
    if q >= 0:
        units.append(Fraction(10) ** (e - q))
    if dstyle is False:
        p = W - sg - kint - 1
        if p >= 0:
            units.append(Fraction(10) ** (-p))
    return min(units) if units else None


def _number_failures(bulk, x, which=("f8", "f16", "d16", "s8", "s16")):
    out = []
    for key in which:
        fname, W, dstyle = _FMT[key]
        inp = {"kind": "number", "fmt": key, "bits": _bits(x), "repr": repr(x), "call": "%s(%r)" % (fname, x)}
        try:
            s = getattr(bulk, fname)(x)
        except Exception as e:  # noqa: BLE001
            out.append(("%s-raises-%s" % (fname.strip("_").replace("_", "-"), type(e).__name__), "%s raises" % fname,
                        inp, repr(e), "a %d-character field" % W))
            continue
        if len(s) != W:
            fam = "%s-width-%d" % (fname.strip("_").replace("_", "-"), len(s))
            if key == "f16" and -1e14 < x <= -99999999999999.5:
                fam = FAM_F7
            out.append((fam, "%s returns %d characters" % (fname, len(s)), inp, s, "exactly %d characters" % W))
            continue
        v = bulk.nas_sscanf(s)
        if not isinstance(v, float):
            fam = "%s-field-not-read-as-float" % fname.strip("_").replace("_", "-")
            if x > 0 and isinstance(v, int) and "." not in s:
                fam = FAM_CARRY
            out.append((fam, "%s field %r is read back as %r, not as a real" % (fname, s, v), inp,
                        [s, repr(v)], "a field with a decimal point that nas_sscanf reads as a float"))
            continue
        if x == 0.0:
            if v != 0.0:
                out.append(("%s-zero" % fname.strip("_").replace("_", "-"), "zero is not written as zero", inp, s, "0."))
            continue
        if key in ("f8", "f16") and (0.0 < x < 0.001 or -0.01 < x < 0.0):
            # model-free form of mixed_branch_reads_as_sci: below the fixed-notation rows the field reads back as
            # the same double as the scientific field, whichever alternative is emitted
            try:
                vs = bulk.nas_sscanf(getattr(bulk, "_format_scientific%d" % W)(x))
            except Exception as e:  # noqa: BLE001
                vs = repr(e)
            if not (isinstance(vs, float) and vs == v):
                out.append(("%s-small-magnitude-reads-differently-from-scientific-field" % fname.replace("_", "-"),
                            "below the fixed-notation rows the field does not read back as the scientific field does",
                            inp, [s, repr(v)], repr(vs)))
                continue
        if not (1e-300 <= abs(x) <= 1e300):
            continue
        unit = _best_unit(x, W, dstyle)
        if unit is None or math.isinf(v):
            out.append(("%s-unrepresentable" % fname.strip("_").replace("_", "-"), "no representation", inp, s, "finite"))
            continue
        err = abs(Fraction(v) - Fraction(x))
        tol = unit / 2 * Fraction(101, 100) + 2 * Fraction(math.ulp(x))
        if err > tol:
            e = Decimal(x).adjusted()
            fam = "%s-precision-%s-decade-%s" % (fname.strip("_").replace("_", "-"), "neg" if x < 0 else "pos",
                                                  e if -4 <= e <= W else ("small" if e < 0 else "large"))
            out.append((fam, "%s loses precision the field width allows" % fname, inp,
                        {"field": s, "error": float(err)}, {"max_error": float(tol), "last_digit": float(unit)}))
    return out


def _expected_card(bulk, card):
    """what reading the written card must give, field for field (floats through the number round
    trip of their own field)."""
    fmt = {"wtcard8": bulk.format_float8, "wtcard16": bulk.format_float16,
           "wtcard16d": bulk.format_double16}[card["writer"]]
    exp = [card["name"]]
    for f in card["fields"]:
        if f[0] == "b":
            exp.append("")
        elif f[0] == "s":
            exp.append(f[1])
        elif f[0] == "i":
            exp.append(f[1])
        else:
            exp.append(bulk.nas_sscanf(fmt(_dbl(f[1]))))
    return exp


def _same(a, b):
    if type(a) is not type(b):
        return False
    if isinstance(a, float):
        return _bits(a) == _bits(b)
    return a == b


def _rstrip_blanks(lst):
    lst = list(lst)
    while lst and isinstance(lst[-1], str) and lst[-1] == "":
        lst.pop()
    return lst


def _card_failures(bulk, card):
    out = []
    W = 8 if card["writer"] == "wtcard8" else 16
    inp = {"kind": "card", "card": card}
    text = _write(bulk, card)
    if text == "value-error" or text.startswith("exc:"):
        out.append(("card-%s-raises" % card["writer"], "writer raises on a valid card", inp, text, "card text"))
        return out
    lines = text.split("\n")[:-1]
    per = 8 if W == 8 else 4
    for ln in lines:
        if len(ln) > 73 or (len(ln) == 73 and not ln.endswith("*")):
            out.append(("card-%s-line-too-long" % card["writer"], "a line exceeds 72 columns", inp, ln, "<= 72"))
            return out
    if W == 16 and len(lines) % 2:
        out.append(("card-%s-odd-lines" % card["writer"], "large-field card with an odd number of lines", inp,
                    text, "even number of lines"))
    try:
        got = bulk.rdcards(io.StringIO(text), card["name"], return_var="list", keep_name=True)
    except Exception as e:  # noqa: BLE001
        out.append(("card-%s-reader-raises" % card["writer"], "rdcards raises on the written card", inp,
                    repr(e), "the fields"))
        return out
    exp = _expected_card(bulk, card)
    if got is None or len(got) != 1:
        out.append(("card-%s-count" % card["writer"], "written card is not read back as one card", inp,
                    repr(got)[:300], repr(exp)[:300]))
        return out
    g = _rstrip_blanks(got[0])
    e = _rstrip_blanks(exp)
    nmax = 1 + per * max(1, len(lines))
    bad = None
    if len(got[0]) > nmax:
        bad = "length"
    elif len(g) != len(e):
        bad = "length"
    else:
        for i, (a, b) in enumerate(zip(g, e)):
            if not _same(a, b):
                kind = {"b": "blank", "s": "string", "i": "int", "f": "float"}[card["fields"][i - 1][0]] if i else "name"
                bad = "%s-field" % kind
                break
    if bad:
        out.append(("card-roundtrip-%s-%s" % (card["writer"], bad),
                    "rdcards(%s(fields)) differs from fields" % card["writer"], inp,
                    {"text": text, "read": [_canon_val(v) for v in got[0]][:70]},
                    {"fields": [_canon_val(v) for v in e][:70]}))
        return out
    ct = _comma_text(bulk, card)
    if ct is not None:
        def rd(text, keep):
            try:
                r = bulk.rdcards(io.StringIO(text), card["name"], return_var="list", keep_name=keep)
            except Exception as ex:  # noqa: BLE001
                return repr(ex)
            return r

        def agree(a, b):
            if not (isinstance(a, list) and isinstance(b, list) and len(a) == 1 and len(b) == 1):
                return False
            x, y = _rstrip_blanks(a[0]), _rstrip_blanks(b[0])
            return len(x) == len(y) and all(_same(u, v) for u, v in zip(x, y))

        gc = rd(ct, True)
        if not agree(gc, got):
            fam = "card-fixed-vs-comma-%s" % card["writer"]
            first = ct.split("\n")[0]
            if agree(rd(ct, False), rd(text, False)) and first.count(",") < 8 and ct.count("\n") > 1:
                # only the keep_name=True reading of a short, continued first line differs
                fam = FAM_COMMA_NAME
            out.append((fam, "fixed-field and comma forms of the same card read differently (keep_name=True)",
                        inp, {"comma_text": ct, "read": repr(gc)[:400]},
                        {"fixed_read": [_canon_val(v) for v in g][:70]}))
        # the same card with continuation mnemonics in the 10th field of every continued line
        cm = _comma_text(bulk, card, mnemonic=True)
        if cm is not None and cm != ct and len(card["name"]) <= 8:
            gm = rd(cm, True)
            if not agree(gm, got):
                out.append(("card-fixed-vs-comma-mnemonic-%s" % card["writer"],
                            "comma form with continuation mnemonics (+C1 in the 10th field, repeated at the start of "
                            "the next line) reads differently from the fixed-field form", inp,
                            {"comma_text": cm, "read": repr(gm)[:400]}, {"fixed_read": [_canon_val(v) for v in g][:70]}))
    return out


FAM_MULTI = "rdcards-multi-card-file-differs-from-per-card-reads"
FAM_ARRAY = "rdcards-array-shape-or-blank-padding"
FAM_DICT = "rdcards-dict-key-or-value"
FAM_TABS = "rdcards-tab-expansion-differs-from-fixed-columns"
FAM_NPFIELD = "wtcard-numpy-scalar-field-differs-from-python-scalar"
FAM_NODATA = "rdcards-no-data-return"
FAM_PREFIX = "rdcards-name-prefix-or-case-not-selected"
FAM_COMMENTS = "rdcards-keep-comments"
FAM_PLACE = "rdcards-keep-comments-placement"


_ORACLE_STATS = {}


def _stat(k):
    _ORACLE_STATS[k] = _ORACLE_STATS.get(k, 0) + 1


def _rd(bulk, text, name, **kw):
    import warnings

    with warnings.catch_warnings():
        warnings.simplefilter("ignore")
        return bulk.rdcards(io.StringIO(text), name, **kw)


def _same_list(a, b):
    return len(a) == len(b) and all(_same(u, v) for u, v in zip(a, b))


def _file_failures(bulk, parts, name):
    """model-free statement of `rdcards_multi` on a file assembled from several writers: reading the
    file by `name` gives, in file order, what reading each matching card alone gives; the array form
    is the list form with strings and blanks replaced by `blank` and short rows padded with it; the
    dictionary is keyed by the first value, the last card of a key wins.  Only for files whose
    foreign lines cannot be taken for a continuation line and do not match `name`."""
    import numpy as np

    out = []
    low = name.lower()
    for p_ in parts:
        if p_["t"] == "raw" and (not p_["safe"] or p_["text"].lower().startswith(low)):
            _stat("files-skipped-foreign-line-could-continue-or-match")
            return out
    text = _parts_text(parts)
    inp = {"kind": "parts", "parts": parts, "name": name}
    exp = []
    try:
        for p_ in parts:
            if p_["t"] == "card" and p_["text"].lower().startswith(low):
                one = _rd(bulk, p_["text"], name, return_var="list", keep_name=True)
                if one is None or len(one) != 1:
                    if name != p_["card"]["name"]:
                        out.append((FAM_PREFIX, "a card whose first line starts with `name` (case-insensitive) is not "
                                    "selected: `name` is 'the initial part of the string to look for', so the small- "
                                    "and the large-field form NAME / NAME* are both read by NAME", inp,
                                    {"card_text": p_["text"][:200], "read": repr(one)[:200]}, "one card"))
                    return out  # (read by its own name: the single-card oracle _card_failures reports it)
                exp.append(one[0])
        got = _rd(bulk, text, name, return_var="list", keep_name=True, no_data_return=_NODATA)
    except Exception as e:  # noqa: BLE001
        out.append((FAM_MULTI, "rdcards raises on a file assembled from written cards", inp, repr(e), "the cards"))
        return out
    _stat("files-read-%d-matching-cards" % min(len(exp), 3))
    for p_ in parts:
        # rdcards_written_cards: a written card is seen iff name.lower() is a prefix of its padded name field
        if p_["t"] == "card" and p_["form"] == "fixed":
            if not p_["text"].lower().startswith(low):
                _stat("files-foreign-written-card-not-read")
            elif p_["card"]["name"].rstrip("*").lower() != low.rstrip("*"):
                _stat("files-written-card-read-by-a-prefix-of-its-name")
    if not exp:
        if got is not _NODATA:
            out.append((FAM_NODATA, "no card of that name, but rdcards does not return no_data_return", inp,
                        repr(got)[:300], "no_data_return"))
        return out
    if got is _NODATA or len(got) != len(exp) or not all(_same_list(a, b) for a, b in zip(got, exp)):
        out.append((FAM_MULTI, "reading the file by name differs from the per-card reads in file order", inp,
                    {"read": repr(got)[:600]}, {"per_card": repr(exp)[:600]}))
        return out
    # keep_comments=True (safe files have their comments between the blocks only): every line that starts with `$`
    # is kept, once and in order, and the cards are what they are without the comments
    try:
        gotc = _rd(bulk, text, name, return_var="list", keep_name=True, keep_comments=True)
    except Exception as e:  # noqa: BLE001
        out.append((FAM_COMMENTS, "rdcards(keep_comments=True) raises", inp, repr(e), "cards and comments"))
        return out
    wantc = [ln for ln in io.StringIO(text) if ln.startswith("$")]
    if [it for it in gotc if isinstance(it, str)] != wantc or not (
            len([it for it in gotc if not isinstance(it, str)]) == len(exp)
            and all(_same_list(a, b) for a, b in zip([it for it in gotc if not isinstance(it, str)], exp))):
        out.append((FAM_COMMENTS, "keep_comments=True loses, repeats or reorders a comment line, or changes a card", inp,
                    {"read": repr(gotc)[:600]}, {"comments": wantc[:20], "cards": repr(exp)[:400]}))
        return out
    _stat("files-kept-comments-checked")
    # kept_comments_placement: a matching card is preceded by the comment lines met since the previous matching
    # card (foreign cards / foreign lines in between do not flush them); what is pending at the end comes last
    seq, pend, k, carried = [], [], 0, False
    for p_ in parts:
        if p_["t"] == "raw":
            pend += [ln for ln in io.StringIO(p_["text"]) if ln.startswith("$")]
        elif p_["text"].lower().startswith(low):
            seq += pend + [exp[k]]
            pend, k = [], k + 1
        elif pend:
            carried = True
    seq += pend
    if len([x for x in seq if isinstance(x, str)]) == len(wantc):  # (no comment line inside a card's own text)
        okp = len(gotc) == len(seq) and all(
            (a == b) if isinstance(a, str) or isinstance(b, str) else _same_list(a, b) for a, b in zip(gotc, seq))
        if not okp:
            out.append((FAM_PLACE, "keep_comments=True: a card is not preceded by exactly the comment lines met since "
                        "the previous matching card, or the trailing comments do not come last", inp,
                        {"read": repr(gotc)[:600]}, {"expected": repr(seq)[:600]}))
            return out
        _stat("files-kept-comments-placement-checked")
        if carried:
            _stat("files-comment-carried-over-a-foreign-card")
    lst = [c[1:] for c in exp]
    if any(len(c) == 0 for c in lst):
        return out  # `val[0]` of a card without fields: outside the quantifier (cards of 1..60 fields)
    _stat("files-array-and-dict-checked")
    blank = -7
    rows = [[float(v) if isinstance(v, (int, float)) and not isinstance(v, bool) else float(blank) for v in c] for c in lst]
    mx = max(len(r) for r in rows)
    try:
        arr = _rd(bulk, text, name, blank=blank)
    except Exception as e:  # noqa: BLE001
        out.append((FAM_ARRAY, "rdcards(return_var='array') raises", inp, repr(e), "an array"))
        return out
    want = np.full((len(rows), mx), float(blank))
    for i, r in enumerate(rows):
        want[i, : len(r)] = r
    if not (isinstance(arr, np.ndarray) and arr.shape == want.shape and arr.dtype == np.float64
            and np.array_equal(arr.view(np.uint64), want.view(np.uint64))):
        out.append((FAM_ARRAY, "the array form is not the list form padded with `blank`", inp,
                    {"array": repr(arr)[:600]}, {"expected": repr(want)[:600]}))
        return out
    try:
        dct = _rd(bulk, text, name, blank=blank, return_var="dict")
    except Exception as e:  # noqa: BLE001
        out.append((FAM_DICT, "rdcards(return_var='dict') raises", inp, repr(e), "a dictionary"))
        return out
    wantd = {}
    for c, r in zip(lst, rows):
        k = c[0] if isinstance(c[0], (int, float)) and not isinstance(c[0], bool) else blank
        if k in wantd:
            _stat("files-dict-repeated-key")
        wantd[k] = r
    okd = isinstance(dct, dict) and list(dct.keys()) == list(wantd.keys()) and all(
        isinstance(dct[k], np.ndarray) and dct[k].dtype == np.float64 and dct[k].shape == (len(wantd[k]),)
        and np.array_equal(dct[k].view(np.uint64), np.array(wantd[k]).view(np.uint64)) for k in wantd)
    if not okd:
        out.append((FAM_DICT, "the dictionary form is not keyed by the first value / does not hold the last card of a key",
                    inp, {"dict": repr(dct)[:600]}, {"expected": repr(wantd)[:600]}))
    return out


def _tab_failures(bulk, card):
    """a small-field card written with tabs between the fields reads like the fixed-column card"""
    out = []
    text = _write(bulk, card)
    if text == "value-error" or text.startswith("exc:") or card["writer"] != "wtcard8":
        return out
    tt = _tab_text(card, text)
    if tt is None or "\t" not in tt:
        return out
    _stat("tabbed-cards-read")
    inp = {"kind": "tabcard", "card": card}
    try:
        a = _rd(bulk, text, card["name"], return_var="list", keep_name=True)
        b = _rd(bulk, tt, card["name"], return_var="list", keep_name=True)
    except Exception as e:  # noqa: BLE001
        out.append((FAM_TABS, "rdcards raises on a tabbed card", inp, repr(e), "the fields"))
        return out
    if not (a and b and len(a) == len(b) == 1 and _same_list(_rstrip_blanks(a[0]), _rstrip_blanks(b[0]))):
        out.append((FAM_TABS, "a card with tabs between its fields reads differently from the fixed-column card", inp,
                    {"tab_text": tt, "read": repr(b)[:400]}, {"fixed_read": repr(a)[:400]}))
    return out


def _npfield_failures(bulk, card):
    """the writers treat NumPy scalars of the supported types like the Python scalars"""
    out = []
    a = _write(bulk, card)
    b = _write(bulk, card, np_types=True)
    if a != b:
        out.append((FAM_NPFIELD, "a card with numpy.float64 / int64 / str_ fields is written differently",
                    {"kind": "npcard", "card": card}, b[:400], a[:400]))
    return out


def _report(ctx, fails):
    seen = ctx.extra.setdefault("oracle_failures_by_family", {})
    for fam, what, inp, obs, reqd in fails:
        seen[fam] = seen.get(fam, 0) + 1
        if seen[fam] <= 3:  # the first few inputs of a family are enough for the replay
            ctx.fail(fam, what, inp, obs, reqd)


def search(ctx, hints):
    bulk = _bulk()
    # 1. the disagreements first
    for h in hints[:200]:
        i = h["input"]
        if i.get("kind") == "number":
            _report(ctx, _number_failures(bulk, _dbl(i["bits"])))
        elif i.get("kind") == "card":
            _report(ctx, _card_failures(bulk, i["card"]))
        elif i.get("kind") == "rdx":
            _report(ctx, _file_failures(bulk, i["parts"], i["name"] if not i.get("regex") else "NOTHING"))
            for p_ in i["parts"]:
                if p_["t"] == "card":
                    _report(ctx, _file_failures(bulk, i["parts"], p_["card"]["name"]))
                    _report(ctx, _tab_failures(bulk, p_["card"]))
    # 2. base stream: numbers
    vals = _values(ctx, ctx.pick(12, 300), 2)
    n = 0
    for x, origin in vals:
        if origin == "random" or origin == "bound" or origin == "special" or n % 3 == 0:
            _report(ctx, _number_failures(bulk, x))
            ctx.count("oracle-numbers")
        elif not (1e-300 <= abs(x) <= 1e300):
            pass
        n += 1
    ctx.skip("accuracy not claimed beyond 1e-300..1e300",
             sum(1 for x, _ in vals if x != 0 and not (1e-300 <= abs(x) <= 1e300)))
    # 3. base stream: cards
    floats = [x for x, _ in vals if 1e-300 <= abs(x) <= 1e300 or x == 0.0]
    fixed_cards = [
        # F30: comma form "HQ,1\n+,2\n" read with keep_name=True
        {"writer": "wtcard8", "name": "HQ", "fields": [["i", 1]] + [["b"]] * 7 + [["i", 2]]},
        {"writer": "wtcard16", "name": "HQ*", "fields": [["i", 1]] + [["b"]] * 7 + [["i", 2]]},
        {"writer": "wtcard16d", "name": "D*", "fields": [["f", _bits(-99999999999999.94)], ["b"], ["f", _bits(9999999.5)]]},
        {"writer": "wtcard8", "name": "GRID", "fields": [["i", 1], ["b"], ["f", _bits(9999999.5)], ["f", _bits(-999999.5)]]},
    ]
    for L in range(72, 81):
        for _ in range(ctx.pick(4, 20)):
            c = _card_with_comma_first_line(ctx, bulk, L)
            if c is not None:
                fixed_cards.append(c)
    for c in fixed_cards:
        _report(ctx, _card_failures(bulk, c))
        ctx.count("oracle-cards")
    for _ in range(ctx.pick(1200, 12000)):
        c = _rand_card(ctx, bulk, floats)
        # the oracle's quantifier: ints that fit the field
        W = 8 if c["writer"] == "wtcard8" else 16
        c["fields"] = [f if not (f[0] == "i" and len(str(f[1])) > W) else ["i", f[1] % 10 ** (W - 1)]
                       for f in c["fields"]]
        _report(ctx, _card_failures(bulk, c))
        ctx.count("oracle-cards")
    _search_extension(ctx, bulk, floats)


def _search_extension(ctx, bulk, floats):
    """base streams of the extension's oracle: assembled files, tabbed cards, numpy-typed fields"""
    rng = ctx.rng
    pool = []
    for _ in range(ctx.pick(250, 2500)):
        c = _rand_card(ctx, bulk, floats)
        W = 8 if c["writer"] == "wtcard8" else 16
        c["fields"] = [f if not (f[0] == "i" and len(str(f[1])) > W) else ["i", f[1] % 10 ** (W - 1)]
                       for f in c["fields"]]
        t = _write(bulk, c)
        if not (t.startswith("exc:") or t == "value-error"):
            pool.append((c, t))
        _report(ctx, _tab_failures(bulk, c))
        _report(ctx, _npfield_failures(bulk, c))
        ctx.count("oracle-tab-and-numpy-cards")
    # fixed inputs: two names with a common prefix, small- and large-field forms of one name, a repeated key
    def card(w, name, fields):
        return {"writer": w, "name": name, "fields": fields}

    g1 = card("wtcard8", "GRID", [["i", 1], ["b"], ["f", _bits(1.5)], ["f", _bits(-2.25)], ["s", "AB"]])
    g2 = card("wtcard16", "GRID*", [["i", 2], ["b"], ["f", _bits(1e-5)]] + [["i", 7]] * 7)
    g3 = card("wtcard16d", "GRID*", [["i", 1], ["i", 5], ["f", _bits(3.0)]])
    c1 = card("wtcard8", "GRIDX", [["i", 9]] * 11)
    fixed = [[g1, g2, c1, g3], [c1, g1], [g3, g2, g1]]
    for cs in fixed:
        parts = []
        for c in cs:
            parts.append({"t": "raw", "text": "$ comment\n", "safe": True})
            parts.append({"t": "card", "card": c, "form": "fixed", "text": _write(bulk, c)})
            parts.append({"t": "raw", "text": "ENDDATA\n", "safe": True})
        for nm in ("GRID", "grid", "GRID*", "GRIDX", "G", "NOTHING"):
            _report(ctx, _file_failures(bulk, parts, nm))
            ctx.count("oracle-files")
    for _ in range(ctx.pick(500, 5000)):
        parts = [p_ for p_ in _rand_parts(ctx, bulk, pool) if p_["t"] == "card" or p_["safe"]]
        for nm in {_pick_name(rng, parts), _pick_name(rng, parts)}:
            _report(ctx, _file_failures(bulk, parts, nm))
            ctx.count("oracle-files")
    # files made of written cards of several (prefix-related and unrelated) names only, read by each of the names
    for _ in range(ctx.pick(200, 2000)):
        base = _rand_name(rng, 5, False)
        fam = [base, base + "X", base[: max(1, len(base) - 1)], _rand_name(rng, 7, False), _rand_name(rng, 7, False)]
        parts = []
        for _k in range(rng.randint(2, 5)):
            c, t = pool[rng.randrange(len(pool))]
            c = dict(c, name=rng.choice(fam)[:7] + ("*" if c["writer"] != "wtcard8" else ""))
            t = _write(bulk, c)
            if not (t.startswith("exc:") or t == "value-error"):
                parts.append({"t": "card", "card": c, "form": "fixed", "text": t})
        for nm in {rng.choice(fam), rng.choice(fam).lower()}:
            _report(ctx, _file_failures(bulk, parts, nm))
            ctx.count("oracle-files-of-written-cards")
    ctx.extra["oracle_extension"] = dict(_ORACLE_STATS)


def replay(ctx, data):
    bulk = _bulk()
    f = data.get("failure")
    if not f:
        return None
    i = f["input"]
    if i.get("kind") == "number":
        fails = _number_failures(bulk, _dbl(i["bits"]), which=(i.get("fmt"),) if i.get("fmt") in _FMT else tuple(_FMT))
    elif i.get("kind") == "card":
        fails = _card_failures(bulk, i["card"])
    elif i.get("kind") == "parts":
        fails = _file_failures(bulk, i["parts"], i["name"])
    elif i.get("kind") == "tabcard":
        fails = _tab_failures(bulk, i["card"])
    elif i.get("kind") == "npcard":
        fails = _npfield_failures(bulk, i["card"])
    else:
        return None
    if not fails:
        return None
    fam, what, inp, obs, reqd = fails[0]
    return {"family": fam, "what": what, "input": inp, "observed": obs, "required": reqd}
