"""C10 — cycle-counting pipeline and fatigue-damage PSD invariants (DESIGN.md section 6/C10).

Tie
  * exact correspondence between the Lean models (Model/FindapFix = findap as repaired by f8f6e40/4b29dcf, Model/Binify, Model/Fde and the
    C05 rainflow model for the `sigcount` pipeline; run over Rat through Drivers/C10.lean) and
      - cyclecount.findap (the variant that executes: numba is absent) on dyadic signals,
      - the numba-only variant of findap, which is *source text* here: a translator
        (harness/translate/c10_findap_numba.py, Python ast, grammar-checked) extracts the function
        and the harness executes that text as plain Python (transcription, flagged in TRUSTED),
      - np.digitize, cyclecount.getbins, _binify (with / without ensure_boundaries), binify
        (scalar / explicit bins, right, check_bounds), sigcount;
      - getbins with an integer count (`autobins` stream): edges, end-point nudges, strict
        monotonicity, the bin of every datum (data on interior edges, on both ends, constant
        data, one and two samples, both `right` settings);
  * numeric/exact correspondence of the per-frequency bookkeeping of fdepsd.fdepsd (serial loop)
    and of fdepsd._dofde (the worker, driven directly with plain arrays): Amax, BinAmps, Count,
    BinCount, Df4/8/12 against Model/Fde on the cycle tables of the filtered responses.
  * worker stream: Model/FdePsd (`Fde.fdeFreq`: SRSmax, Var, findap -> rainflow, Amax, BinAmps, Count,
    BinCount, the G2max loop, Df_b, Dt_b, sig2_b, G1..G12, Gmax, the pvelo rescaling of Dt_b and halving of sig2_b) run at
    Float on the implementation's own filtered response; srs, Amax, binamps, count, bincount must
    agree bit for bit, var, di_sig, psd, peakamp, var_test, di_test to 1e-9 (element-wise relative).
Search: the property restated on the API (never through the Lean model).
"""
import itertools
import math
import warnings
import os
import sys
from fractions import Fraction

import numpy as np

import runner as _runner

# `check` runs runner.py as __main__; `import runner` is then a second copy of the module, whose
# exception classes main() does not catch.  Use the classes main() knows when they exist.
_main = sys.modules.get("__main__")
TieBroken = getattr(_main, "TieBroken", _runner.TieBroken)
Infra = getattr(_main, "Infra", _runner.Infra)

sys.path.insert(0, os.path.join(os.path.dirname(os.path.dirname(os.path.abspath(__file__)))))
from translate import c10_findap_numba as _tr  # noqa: E402

ID = "C10"
LEAN_MODULES = ["PyYetiVerif.Props.C10", "PyYetiVerif.Props.C10Fde", "PyYetiVerif.Props.C10PreFix",
                "PyYetiVerif.Props.C10Bins", "PyYetiVerif.Props.C10Labels", "PyYetiVerif.Props.C10Psd", "PyYetiVerif.Props.C10Locate",
                "PyYetiVerif.Props.C10Cell", "PyYetiVerif.Props.C10Dups", "PyYetiVerif.Props.C10Totals", "PyYetiVerif.Props.C10G2Inf",
                "PyYetiVerif.Audit.C10"]
AUDIT_FILE = "PyYetiVerif/Audit/C10.lean"
THEOREMS = ["PyYetiVerif.C10." + n for n in (
    # findap, both variants, the code after the repairs f8f6e40 / 4b29dcf - full strength
    "default_first_selected default_alternates default_extremes default_total default_fast_path_is_find_unique "
    "seq_first_selected seq_alternates seq_extremes seq_total variants_agree fixed_F4_example fixed_F14_F22_F23_examples "
    # binning
    "digitize_spec binify_places binify_conserves auto_bins_cover binify_auto_conserves "
    "digitize_eq_iff explicit_bins_range binify_drops_uncovered binify_conserves_2d binify_explicit_bins_spec "
    "roundHalfEven_close labels_distinct_of_gap label_collision_example getLabels_length binify_packaging sigcount_is_composition "
    "sigcount_auto_conserves "
    # the table cell by cell (row = mean bin, column = amplitude bin, np.digitize's edge convention)
    "binify_cell_sum binify_cell_sum_unguarded bins_disjoint binify_explicit_is_guarded binify_explicit_cell_sum binify_auto_cell_sum "
    # the total re-derived from the cells
    "one_axis_partition binify_total_from_cells table_sum_eq_cells binify_conserves_2d_from_cells binify_uncovered_in_no_cell "
    # the G2max loop with numpy's division by zero
    "G2_ge_G1_loop_full g2maxX_eq_g2max_of_lt g2maxX_inf_example "
    # fdepsd bookkeeping
    "cum_count_antitone count_col0_total bincount_sum_total G2_ge_G1 amax_le_srs bincount_spec damage_def damage_per_cycle "
    "table_scaling test_damage_positive test_variance_reproduces_internal test_variance_reproduces var_test_is_documented_variance "
    "G_b_monotone_in_damage G2_ge_G1_loop psd_quadratic_scaling cycle_table_scaling psd_quadratic_scaling_signal "
    "binamps_formula count_is_upper_cumulative counts_antitone bincount_diff psd_G_formulas psd_inverse_in_Q "
    "resp_switch_G1_G2 fdeFreq_neg psd_quadratic_scaling_full psd_quadratic_scaling_input "
    # locate
    "find_unique_spec find_unique_length findap_uses_find_unique find_unique_boundary_example "
    "find_duplicates_eq_spec find_duplicates_iff find_duplicates_monotone_tol find_duplicates_length find_duplicates_neg_tol find_duplicates_example "
).split()]
TRUSTED = [
    "correspondence harness harness/props/c10.py (exact comparison on dyadic inputs; bit-for-bit on srs/Amax/binamps/count/bincount "
    "and 1e-9 element-wise relative on var/di_sig/psd/peakamp/var_test/di_test in the fdepsd worker stream)",
    "the numba-only variant of findap is source text here (numba absent): it is executed as a plain-Python "
    "transcription produced by harness/translate/c10_findap_numba.py; numba's own compilation semantics are not exercised",
    "np.digitize / np.linspace / np.sign / np.diff follow their executable models (digitize and linspace are compared on every run)",
    "scipy.signal.lfilter, srs coefficient functions, detrend/windowends/butter/resample are inputs to the fdepsd "
    "bookkeeping model (their own properties are C03/C19): the model starts from the filtered response; that scaling the input "
    "signal scales the filtered response is taken from lfilter's linearity and sampled by the oracle's x4 run only",
    "Lean's Float.log/sqrt/pow (C library) vs numpy's log/sqrt/power and np.var's pairwise summation vs the model's sequential sum: "
    "compared at 1e-9; the theorems about sig2_b, G1..G12, Dt_b are over the reals (Real.log, Real.sqrt, Real.rpow) and say "
    "nothing about rounding",
    "Python's format(x, '.pf') prints the correctly rounded (ties-to-even) decimal of the exact value of the double: modelled over Rat by "
    "Binify.fmtFixed and compared as strings on every run; pandas DataFrame construction (index/columns/names) is compared, not modelled",
    "np.argsort inside locate.find_duplicates: any order among equal values (the model uses a merge sort)",
]
RULE = (
    "findap: all signals over {0..3} of length 1..6 (7 thorough) x 5 tolerances plus seeded dyadic signals "
    "(plateaus, sub-tolerance drifts, returns to a run head, monotone stretches, walks, lengths 1-300) x "
    "tolerances {0,1e-6,1/1024,0.01,1/16,0.1,1/4,0.3,0.5,1,1.5,-0.01}; one case = one (signal, tol) compared on "
    "both variants; non-trivial = at least one sub-tolerance step or a plateau or a selected interior "
    "reversal; binning: dyadic cycle tables with values on and off bin edges and outside the bins x right x "
    "ensure/check_bounds x scalar/explicit bins; non-trivial = some cycle on an edge or out of range; autobins: bin count in "
    "{1,2,3,4,5,8,12} x dyadic step x data = both ends + points on interior edges and bin centres | constant data | one sample | two "
    "samples x right; fdepsd: option grid resp x nbins x T0 x rolloff x hpfilter x winends on seeded random signals, one case = one "
    "frequency row; worker stream: the same grid (other salt) plus dyadic signals through an identity SDOF filter (cycles exactly "
    "on bin levels, constant-amplitude tables, nbins in {1,2,4,8,16}, both resp); packaging: dyadic cycle tables x explicit bins (values on "
    "the first / last edge, outside, narrow bins whose labels collide) or integer counts on either axis x right x check_bounds x "
    "precision in {0,1,2,3,5} x retbins x use_pandas, plus sigcount on seeded signals - table, label strings, axis names, edges; "
    "locate: dyadic vectors with plateaus and steps exactly equal to stol x tol in {0,1e-6,1/4,1/2,1,-1/4,1/maxstep}; find_duplicates "
    "tol in {0,1/4,1/2,1,-1}; distinct by the canonical input"
)
ASSUMPTIONS = [
    "float arithmetic on the generated dyadic inputs is exact; (signal, tol) pairs whose float stol would decide a "
    "comparison differently from the exact product are skipped and counted",
    "fdepsd rows in which a cycle amplitude lies within 1e-12 (relative) of a bin level are skipped and counted in the Rat-model "
    "stream (the Float worker stream needs no such skip: it performs the same IEEE operations)",
    "scalar `bins` >= 1; an explicit `bins` vector of length 1 is a scalar by the code's own rule",
    "fdepsd formulas: f*T0 > 1 for resp='absacce' (ln N0 > 0 and Dt_b > 0: proved test_damage_positive), f*T0 > 0 and != 1 for 'pvelo'; "
    "Q > 0, f > 0; scaling factor c != 0",
    "labels of COMPUTED (integer-count) edges are compared only when no rounding boundary of the precision-digit format lies within 1e-6 "
    "(relative to the last printed place) of the edge; otherwise skipped and counted; explicit dyadic edges are always compared",
]
PARTIAL = (
    "findap (both variants, the code after the repairs f8f6e40 / 4b29dcf) and the fdepsd test-variance relation (both resp, after "
    "4ed3a4d) are proved at full strength; what the pre-fix text did is recorded in Props/C10PreFix.lean outside the claims.  Still "
    "partial: auto_bins_cover / binify_auto_conserves / labels_distinct_of_gap are over exact arithmetic (doubles: finding F41, fixed; "
    "labels of computed edges within 1e-6 of a rounding boundary are skipped and counted).  binify: every cell of the table is proved to be the summed count of "
    "the cycles of its amplitude x mean interval (binify_cell_sum, also through the API for explicit and automatic bins), and the table "
    "total is re-derived from the cell sums (the bins partition the range: one_axis_partition, binify_total_from_cells, "
    "binify_conserves_2d_from_cells; only the SHAPE of the table is still taken from the loop proof).  find_duplicates: the code model equals the "
    "documented meaning for every tolerance and every vector (find_duplicates_eq_spec, exact arithmetic; argsort's order among equal "
    "values does not matter to the proof, which uses only that the sort result is a sorted permutation - the model's sort is a merge "
    "sort).  psd_quadratic_scaling_full covers c of either sign from the filtered "
    "response on; that detrend/windowends/butter/lfilter/resample are homogeneous is the specification IsLinear "
    "(psd_quadratic_scaling_input), sampled by the oracle's x4 and x(-4) runs, not proved.  G2_ge_G1_loop_full covers the division by zero of "
    "the G2max loop (a selected level whose count EQUALS the total: +inf, modelled by Fde.g2maxX and tied by the g2x stream, which "
    "requires the +inf branch on every run); it assumes what cumulative counts satisfy (0 < count <= total on the examined levels) and that "
    "y1 - y[k] is not NaN (a difference of logs of positive finite counts); a level with count 0 at or above Amax/3 (log 0 = -inf) is "
    "outside the theorem, the Float stream covers it.  String rendering of labels "
    "(digits, sign of a negative value rounding to zero) is executable model + exact stream, theorems are about the label NUMBER.  The "
    "fast path of _unique_kept is modelled by its two vectorised conditions (fastOK); numpy's evaluation of them (maximum.accumulate, "
    "fancy indexing) is tied by the exact findap stream, which requires both the vectorised and the sequential branch on every run."
)
MANIFEST = {
    "level_text": "proof (findap: both variants at full strength - first sample, strict alternation, extremes within stol, variants agree; "
                  "binning, labels, sigcount; fdepsd bookkeeping incl. the test-variance relation for both resp)",
    "level_note": "selection (default variant incl. _unique_kept's vectorised test and sequential scan; numba variant as source text), "
                  "binning (explicit and automatic bins, both `right` conventions, 2-D counts cell by cell, what is dropped), "
                  "labels/packaging, sigcount as a composition and locate.find_unique / find_duplicates (code = documented meaning) are "
                  "modelled exactly over Rat and proved about; everything fdepsd "
                  "computes per frequency after lfilter is one polymorphic Lean definition, proved about over the reals (amax_le_srs, "
                  "bincount_spec, count_is_upper_cumulative, damage_def, psd_G_formulas, test_variance_reproduces, "
                  "var_test_is_documented_variance, G2_ge_G1_loop, psd_quadratic_scaling_full for c of either sign) and run at Float "
                  "against every returned table; only tied/measured: lfilter and the signal pre-processing (specification IsLinear), libm "
                  "rounding of log/sqrt/pow, decimal string rendering of labels",
    "technique": "Lean 4 theorems about executable models + exact correspondence + Float run of the same definitions (numeric 1e-9) "
                 "+ ast transcription of the numba variant with a static no-unbound-read obligation",
}

# families of the REPAIRED findings (known_findings.json: fixed): a recurrence prints VIOLATION
F4 = "findap-default-subtolerance-drift"
F14 = "findap-numba-variant-nxt-unbound"
N1 = "findap-numba-variant-end-rule-drops-held-extreme"
N2 = "findap-variants-differ-step-returns-within-stol-of-run-head"
N3 = "fdepsd-pvelo-var-test-relation-factor-2pow-b-half"
N4 = "getbins-auto-nudge-absorbed-by-rounding"  # NEW finding (this round): p = 0.001*(mx-mn) below half an ulp of the end point

TOLS = [0.0, 1e-6, 1 / 1024, 0.01, 1 / 16, 0.1, 0.25, 0.3, 0.5, 1.0, 1.5, -0.01]


# ---------------------------------------------------------------------------------------
# helpers


def _fr(x):
    f = Fraction(x)
    return str(f.numerator) if f.denominator == 1 else "%d/%d" % (f.numerator, f.denominator)


def _frs(xs):
    return " ".join(_fr(float(x)) for x in xs)


def _pf(s):
    return Fraction(s)


def translate(ctx):
    try:
        _tr.extract(ctx.repo)
    except _tr.Shape as e:
        raise TieBroken("numba-variant findap no longer fits the transcription grammar: %s" % e)
    except (OSError, SyntaxError) as e:
        raise TieBroken("cannot parse pyyeti/cyclecount.py: %s" % e)
    return ["findap-numba-variant-transcription"]


def _variants(ctx):
    from pyyeti import cyclecount

    try:
        seq, info = _tr.load(ctx.repo)
    except Exception as e:  # grammar failure is reported by translate(); keep running without it
        seq, info = None, {"error": repr(e)}
    return cyclecount.findap, seq, info


def _run_findap(fn, y, tol):
    try:
        pv = fn(np.array(y, dtype=float), tol)
        pv = np.asarray(pv)
        if pv.dtype != bool or pv.shape != (len(y),):
            return "bad-output:%s%s" % (pv.dtype, list(pv.shape))
        return [int(i) for i in np.nonzero(pv)[0]]
    except UnboundLocalError:
        return "unbound"
    except ValueError:
        return "value-error"
    except Exception as e:  # a mutation may raise anything
        return "exc:" + type(e).__name__


def _stol_ok(y, tol):
    """True when the float `stol` decides every comparison like the exact product does."""
    y = np.asarray(y, dtype=float)
    if y.size < 2:
        return True
    md = np.abs(np.diff(y)).max()
    F = abs(tol * md)
    E = abs(Fraction(tol) * Fraction(float(md)))
    if Fraction(float(F)) == E:
        return True
    vals = np.unique(y)
    D = np.unique(np.abs(vals[:, None] - vals[None, :]))
    near = D[np.abs(D - F) <= 8 * np.spacing(F) + 1e-300]
    return all((Fraction(float(d)) > E) == (d > F) for d in near)


def _gen_signals(ctx, n, rng=None):
    rng = rng or ctx.rng
    out = []
    for _ in range(n):
        r = rng.random()
        L = rng.randint(1, 12) if r < 0.5 else (rng.randint(3, 60) if r < 0.93 else rng.randint(60, 300))
        style = rng.choice(["small", "plateau", "drift", "return", "monotone", "walk", "wide", "alternating"])
        if style == "small":
            k = rng.randint(1, 5)
            seq = [rng.randint(-k, k) for _ in range(L)]
        elif style == "plateau":
            seq = []
            while len(seq) < L:
                seq += [rng.randint(-6, 6)] * rng.randint(1, 4)
        elif style == "drift":  # big jumps mixed with runs of small steps of one sign
            seq = [rng.randint(-50, 50)]
            while len(seq) < L:
                if rng.random() < 0.35:
                    seq.append(seq[-1] + rng.choice([-1, 1]) * rng.randint(20, 100))
                else:
                    d = rng.choice([-1, 1]) * rng.randint(1, 3)
                    for _ in range(rng.randint(1, 8)):
                        seq.append(seq[-1] + d)
        elif style == "return":  # a small run, then a step that comes back near the run's head
            seq = [rng.randint(-50, 50)]
            while len(seq) < L:
                if rng.random() < 0.4:
                    seq.append(seq[-1] + rng.choice([-1, 1]) * rng.randint(30, 100))
                else:
                    h = seq[-1]
                    a = rng.randint(1, 4)
                    seq += [h + a, h - rng.randint(0, 4)] if rng.random() < 0.5 else [h - a, h + rng.randint(0, 4)]
        elif style == "monotone":
            seq = [0]
            while len(seq) < L:
                d = rng.choice([-1, 1]) * rng.randint(0, 9)
                for _ in range(rng.randint(1, 7)):
                    seq.append(seq[-1] + d)
        elif style == "walk":
            seq = [0]
            for _ in range(L - 1):
                seq.append(seq[-1] + rng.randint(-5, 5))
        elif style == "wide":
            seq = [rng.randint(-(10 ** 6), 10 ** 6) for _ in range(L)]
        else:
            seq, v, s = [], 0, rng.choice([-1, 1])
            for _ in range(L):
                v += s * rng.randint(1, 12)
                seq.append(v)
                s = -s
        seq = seq[:L]
        scale = rng.choice([1, 1, 2, 8, 1024])
        tol = rng.choice(TOLS)
        out.append(([v / scale for v in seq], tol, style))
    return out


def _findap_cases(ctx):
    cases = []
    lmax = ctx.pick(6, 7)
    for L in range(1, lmax + 1):
        for seq in itertools.product(range(4), repeat=L):
            for tol in (0.0, 1e-6, 0.25, 0.5, 0.75) if L <= 5 else (1e-6, 0.5):
                cases.append(([float(v) for v in seq], tol, "exhaustive"))
    ctx.extra["exhaustive_set"] = "findap: all signals over {0..3} of length 1..%d" % lmax
    fixed = [
        ([float(v) for v in list(range(0, 1001)) + [0]], 0.01, "F4"),
        ([1.0, 1.0, 4.0], 1e-6, "F14"),
        ([-100.0, 0.0, 4.0, -4.0], 0.05, "N1"),
        ([0.0, 80.0, 83.0, 78.0, 160.0], 0.05, "N2"),
        ([1.0, 0.0, 2.0], 0.51, "N2"),
        ([1.0, 2, 3, 4, 4, -2, -2, 0], 1e-6, "doc"), ([1.0, 2, 3, 4, 4, -2, -2, -2], 1e-6, "doc"),
        ([1.0, 2, 3, 4, -2], 1e-6, "doc"), ([1.0, 1, 1, 1], 1e-6, "doc"), ([1.0], 1e-6, "doc"), ([], 1e-6, "malformed"),
        ([3.0, 3.0], 1.5, "size2"), ([3.0, 4.0], 1.5, "size2"), ([3.0, 4.0], 0.0, "size2"),
    ]
    cases = fixed + cases + _gen_signals(ctx, ctx.pick(5000, 60000))
    return cases


def _parse_idx(rep):
    if rep in ("value-error", "unbound", "bad-op"):
        return rep
    return [int(t) for t in rep.split()]


# ---------------------------------------------------------------------------------------
# correspondence


def _corr_findap(ctx, drv):
    dflt, seq, info = _variants(ctx)
    ctx.extra["numba_variant_transcription"] = info
    cases = []
    for y, tol, style in _findap_cases(ctx):
        if not _stol_ok(y, tol):
            ctx.skip("findap: float stol decides a comparison differently from the exact product")
            continue
        cases.append((y, tol, style))
    req = []
    for y, tol, _ in cases:
        a = "%s | %s" % (_fr(tol), _frs(y))
        req += ["fd " + a, "fs " + a, "nd " + a, "xk " + a]
    rep = drv.ask(req)
    for i, (y, tol, style) in enumerate(cases):
        m_d, m_s, nd, fast = _parse_idx(rep[4 * i]), _parse_idx(rep[4 * i + 1]), rep[4 * i + 2], rep[4 * i + 3]
        i_d = _run_findap(dflt, y, tol)
        inp = {"y": y if len(y) <= 60 else y[:60] + ["…(%d)" % len(y)], "tol": tol}
        full = {"y": y, "tol": tol}
        yy = np.asarray(y)
        subtol = len(y) >= 2 and isinstance(m_d, list) and len(m_d) < len(y)
        nontriv = bool(subtol or (isinstance(m_d, list) and len(m_d) > 2))
        ctx.case((tuple(y), tol), nontrivial=nontriv, branch="findap:" + style)
        ctx.count("findap:drift" if nd == "0" else "findap:no-drift")
        if isinstance(m_d, list):
            ctx.count("findap-default:all-unique" if len(y) > 1 and not subtol and len(set(np.diff(yy) != 0)) == 1
                      and len(m_d) == len(y) else "findap-default:expanded")
            if len(y) > 1:
                ctx.count("findap-default:unique-kept-vectorised-test-passes" if fast == "1" else "findap-default:unique-kept-sequential-scan")
        else:
            ctx.count("findap-default:" + m_d)
        if i_d != m_d:
            ctx.disagree("findap-default", full if len(y) <= 400 else inp, i_d, m_d)
        if seq is not None:
            i_s = _run_findap(seq, y, tol)
            if isinstance(m_s, list):
                if len(y) <= 1:
                    ctx.count("findap-numba:size-1")
                elif m_s == [0]:
                    ctx.count("findap-numba:no-significant-change")
                elif m_s[-1] == len(y) - 1:
                    ctx.count("findap-numba:end-rule-last")
                else:
                    ctx.count("findap-numba:end-rule-held")
            else:
                ctx.count("findap-numba:" + m_s)
            if i_s != m_s:
                ctx.disagree("findap-numba-transcription", full if len(y) <= 400 else inp, i_s, m_s)
            if isinstance(m_s, list) and isinstance(m_d, list) and m_s != m_d:
                # contradicts the theorem variants_agree (cannot happen)
                ctx.disagree("findap-variants-agree(model)", full if len(y) <= 400 else inp, m_d, m_s)
        if i % 9000 == 0:
            ctx.sample({"findap": inp, "default": m_d if not isinstance(m_d, list) else m_d[:12], "numba": m_s if not isinstance(m_s, list) else m_s[:12]})
    need = ["findap:drift", "findap:no-drift", "findap-default:expanded", "findap-default:value-error",
            "findap-default:unique-kept-vectorised-test-passes", "findap-default:unique-kept-sequential-scan"]
    if seq is not None:
        need += ["findap-numba:no-significant-change", "findap-numba:end-rule-last",
                 "findap-numba:end-rule-held", "findap-numba:size-1"]
    return need


def _gen_bins(rng, lo=-8, hi=8):
    k = rng.randint(2, 7)
    pts = sorted(rng.sample(range(4 * lo, 4 * hi + 1), k))
    return [p / 4 for p in pts]


def _gen_cycles(rng, br, bm, n):
    cyc = []
    for _ in range(n):
        def pick(b):
            r = rng.random()
            if r < 0.35:
                return rng.choice(b)  # on an edge
            if r < 0.5:
                return rng.choice([b[0] - rng.randint(1, 8) / 4, b[-1] + rng.randint(1, 8) / 4])  # outside
            return rng.randint(int(4 * b[0]) - 2, int(4 * b[-1]) + 2) / 4 + rng.choice([0, 0.125])
        cyc.append((pick(br), pick(bm), rng.choice([0.5, 1.0])))
    return cyc


def _cyc_str(cyc):
    return " ; ".join("%s %s %s" % (_fr(a), _fr(m), _fr(c)) for a, m, c in cyc)


def _table_canon(T):
    return [[Fraction(float(v)) for v in row] for row in np.asarray(T, dtype=float).tolist()]


def _parse_table(s):
    if s == "":
        return []
    return [[Fraction(t) for t in row.split()] for row in s.split(";")]


def _spec_str(spec):
    return "s %d" % spec if isinstance(spec, int) else "v " + _frs(spec)


def _corr_binning(ctx, drv):
    from pyyeti import cyclecount

    rng = ctx.rng
    # --- np.digitize --------------------------------------------------------------------
    req, meta = [], []
    for _ in range(ctx.pick(300, 3000)):
        bins = _gen_bins(rng)
        xs = [rng.choice(bins) if rng.random() < 0.4 else rng.randint(-40, 40) / 4 + rng.choice([0, 0.125]) for _ in range(8)]
        right = rng.random() < 0.5
        req.append("dg %d | %s | %s" % (right, _frs(xs), _frs(bins)))
        meta.append((bins, xs, right))
    rep = drv.ask(req)
    for (bins, xs, right), r in zip(meta, rep):
        got = np.digitize(np.array(xs), np.array(bins), right=right).tolist()
        ctx.case(("dg", tuple(bins), tuple(xs), right), nontrivial=any(x in bins for x in xs), branch="digitize:right=%d" % right)
        if got != _parse_idx(r):
            ctx.disagree("np.digitize", {"bins": bins, "x": xs, "right": right}, got, r)
    # --- getbins ------------------------------------------------------------------------
    req, meta = [], []
    for _ in range(ctx.pick(300, 3000)):
        right = rng.random() < 0.5
        if rng.random() < 0.5:
            n = rng.randint(1, 12)
            mn = rng.randint(-40, 40) / 4
            kind = rng.random()
            mx = mn if kind < 0.15 else mn + n * rng.choice([0.25, 0.5, 1, 2, 3]) if kind < 0.8 else rng.randint(-40, 40) / 4
            if rng.random() < 0.3:
                mx, mn = mn, mx
            req.append("gs %d %s %s %d" % (n, _fr(mx), _fr(mn), right))
            meta.append(("s", n, mx, mn, right))
        else:
            bins = _gen_bins(rng)
            if rng.random() < 0.2:
                j = rng.randrange(len(bins) - 1)
                bins[j + 1] = bins[j] if rng.random() < 0.5 else bins[j] - 1  # not increasing
            mx, mn = rng.choice(bins + [rng.randint(-40, 40) / 4]), rng.choice(bins + [rng.randint(-40, 40) / 4])
            req.append("gv %s %s %d | %s" % (_fr(mx), _fr(mn), right, _frs(bins)))
            meta.append(("v", bins, mx, mn, right))
    rep = drv.ask(req)
    for m, r in zip(meta, rep):
        if m[0] == "s":
            _, n, mx, mn, right = m
            bb = cyclecount.getbins(n, mx, mn, right)
            bb2, oob = cyclecount.getbins(n, mx, mn, right, check_bounds=True)
            want = [Fraction(t) for t in r.split()]
            sc = abs(mx) + abs(mn) + 1
            ok = len(bb) == len(want) and oob is False and np.array_equal(bb, bb2) and all(
                abs(Fraction(float(a)) - w) <= Fraction(1, 10 ** 13) * Fraction(sc) for a, w in zip(bb, want))
            ctx.case(("gs",) + m[1:], nontrivial=mx == mn or mx < mn, branch="getbins:scalar" + (":equal" if mx == mn else ""))
            if not ok:
                ctx.disagree("getbins-scalar", {"bins": n, "mx": mx, "mn": mn, "right": right}, np.asarray(bb).tolist(), [float(w) for w in want])
        else:
            _, bins, mx, mn, right = m
            try:
                bb, oob = cyclecount.getbins(bins, mx, mn, right, check_bounds=True)
                got = "%d %s" % (bool(oob), _frs(bb))
            except ValueError:
                got = "value-error"
            ctx.case(("gv", tuple(bins), mx, mn, right), branch="getbins:vector" + (":value-error" if r == "value-error" else ":oob=" + r[0]))
            if got != r:
                ctx.disagree("getbins-vector", {"bins": bins, "mx": mx, "mn": mn, "right": right}, got, r)
    # --- _binify ------------------------------------------------------------------------
    req, meta = [], []
    for _ in range(ctx.pick(500, 5000)):
        br, bm = _gen_bins(rng, 0, 8), _gen_bins(rng)
        cyc = _gen_cycles(rng, br, bm, rng.randint(0, 10))
        right, ens = rng.random() < 0.5, rng.random() < 0.6
        req.append("bf %d %d | %s | %s | %s" % (right, ens, _frs(br), _frs(bm), _cyc_str(cyc)))
        meta.append((br, bm, cyc, right, ens))
    rep = drv.ask(req)
    for (br, bm, cyc, right, ens), r in zip(meta, rep):
        arr = np.array(cyc, dtype=float).reshape(-1, 3)
        try:
            got = _table_canon(cyclecount._binify(arr, np.array(br), np.array(bm), right, ens))
        except IndexError:
            got = "index-error"
        want = r if r == "index-error" else _parse_table(r)
        if want != "index-error" and len(br) == 1:
            want = [[] for _ in range(len(bm) - 1)]
        edge = any(a in br or m in bm for a, m, _ in cyc)
        ctx.case(("bf", tuple(br), tuple(bm), tuple(cyc), right, ens), nontrivial=edge,
                 branch="_binify:ensure=%d%s" % (ens, ":index-error" if r == "index-error" else ""))
        if got != want:
            ctx.disagree("_binify", {"bins_range": br, "bins_mean": bm, "cycles": cyc, "right": right, "ensure": ens}, str(got), r)
    # --- binify (API) and sigcount --------------------------------------------------------
    req, meta = [], []
    for _ in range(ctx.pick(500, 5000)):
        right, check = rng.random() < 0.5, rng.random() < 0.7
        specs = []
        step = rng.choice([0.25, 0.5, 1, 2, 3])
        n_amp = rng.randint(1, 8)
        a0 = rng.randint(0, 20) / 4
        cyc = []
        for _k in range(rng.randint(1, 10)):
            cyc.append((a0 + step * rng.randint(0, 2 * n_amp) / 2, rng.randint(-8, 8) / 4, rng.choice([0.5, 1.0])))
        if rng.random() < 0.8:
            cyc += [(a0, 0.0, 0.5), (a0 + step * n_amp, 1.0, 1.0)]
        amps = [c[0] for c in cyc]
        means = [c[1] for c in cyc]
        for which, vals in (("amp", amps), ("mean", means)):
            if rng.random() < 0.55:
                if which == "amp" and max(amps) - min(amps) == step * n_amp:
                    specs.append(n_amp)
                else:
                    specs.append(rng.choice([1, 2, 4, 8]))
            else:
                b = _gen_bins(rng, 0 if which == "amp" else -8, 8)
                if rng.random() < 0.4:  # make the bins cover the data
                    b = sorted(set([min(vals) - 0.25] + b + [max(vals) + 0.25]))
                if rng.random() < 0.1:
                    b[-1] = b[0]
                specs.append(b)
        req.append("bn %d %d | %s | %s | %s" % (right, check, _spec_str(specs[0]), _spec_str(specs[1]), _cyc_str(cyc)))
        meta.append(("bn", cyc, right, check, specs))
    for _ in range(ctx.pick(200, 2000)):
        y, _, _ = _gen_signals(ctx, 1)[0]
        if len(y) < 3 or not _stol_ok(y, 1e-6):
            continue
        right = rng.random() < 0.5
        specs = [rng.choice([1, 2, 4, _gen_bins(rng, 0, 8)]), rng.choice([1, 2, 4, _gen_bins(rng)])]
        req.append("sc %s %d | %s | %s | %s" % (_fr(1e-6), right, _spec_str(specs[0]), _spec_str(specs[1]), _frs(y)))
        meta.append(("sc", y, right, True, specs))
    rep = drv.ask(req)
    for m, r in zip(meta, rep):
        kind, data, right, check, specs = m
        try:
            if kind == "bn":
                T, ab, mb = cyclecount.binify(np.array(data), specs[0], specs[1], right, retbins=True, use_pandas=False, check_bounds=check)
            else:
                T, ab, mb = cyclecount.sigcount(np.array(data), specs[0], specs[1], right, retbins=True, use_pandas=False)
            got = (_table_canon(T), np.asarray(ab, float), np.asarray(mb, float))
        except ValueError:
            got = "value-error"
        except IndexError:
            got = "index-error"
        except Exception as e:
            got = "exc:" + type(e).__name__
        inp = {"kind": kind, "data": data, "right": right, "check_bounds": check, "ampbins": specs[0], "meanbins": specs[1]}
        br = "%s:%s" % ("binify" if kind == "bn" else "sigcount", r if r in ("value-error", "index-error") else "table")
        if r in ("value-error", "index-error"):
            ctx.case((kind, repr(inp)), branch=br)
            if got != r:
                ctx.disagree(br.split(":")[0], inp, str(got)[:300], r)
            continue
        ts, abs_, mbs = r.split("|")
        want_T = _parse_table(ts)
        want_ab = [Fraction(t) for t in abs_.split()]
        want_mb = [Fraction(t) for t in mbs.split()]
        if isinstance(got, str):
            ctx.case((kind, repr(inp)), branch=br)
            ctx.disagree(br.split(":")[0], inp, got, r[:300])
            continue
        # conditioning: a datum that coincides with an implementation edge must coincide exactly with the model edge
        cyc = data if kind == "bn" else None
        cond = True
        if kind == "bn":
            for vals, ie, me in (([c[0] for c in cyc], got[1], want_ab), ([c[1] for c in cyc], got[2], want_mb)):
                if len(ie) != len(me):
                    continue
                for x in vals:
                    for e, w in zip(ie, me):
                        if (x == e) != (Fraction(x) == w) or (x != e and abs(x - e) < 1e-9):
                            cond = False
        if not cond:
            ctx.skip("binify: datum within rounding of a computed (non-dyadic) edge")
            continue
        edges_ok = len(got[1]) == len(want_ab) and len(got[2]) == len(want_mb) and all(
            abs(Fraction(float(a)) - w) <= Fraction(1, 10 ** 12) * (abs(w) + 1) for a, w in zip(list(got[1]) + list(got[2]), want_ab + want_mb))
        if len(want_ab) == 1:
            want_T = [[] for _ in range(len(want_mb) - 1)]
        ctx.case((kind, repr(inp)), nontrivial=True, branch=br)
        ctx.count("%s:%s-amp:%s-mean" % (br.split(":")[0], "scalar" if isinstance(specs[0], int) else "vector",
                                           "scalar" if isinstance(specs[1], int) else "vector"))
        if got[0] != want_T or not edges_ok:
            ctx.disagree(br.split(":")[0], inp, str((got[0], got[1].tolist(), got[2].tolist()))[:400], r[:400])
    return ["digitize:right=0", "digitize:right=1", "getbins:scalar", "getbins:scalar:equal", "getbins:vector:value-error",
            "getbins:vector:oob=0", "getbins:vector:oob=1", "_binify:ensure=0", "_binify:ensure=1", "_binify:ensure=0:index-error",
            "binify:table", "binify:value-error", "binify:index-error", "sigcount:table"]


# getbins with an integer count: construction, nudges, coverage --------------------------------

def _autobin_cases(ctx, n):
    """(nbins, data, right, kind); dyadic data placed on the interior edges, on both ends, strictly inside; constant data; one and
    two samples; `mx`, `mn` are taken from the data as `binify` does."""
    rng = ctx.rng
    out = [(4, [4.0, 12.0, 6.0, 8.0, 10.0], True, "edges"), (4, [4.0, 12.0, 6.0, 8.0, 10.0], False, "edges"),
           (1, [3.0], True, "one-sample"), (1, [3.0], False, "one-sample"), (5, [-2.5], True, "one-sample"),
           (2, [1.0, 1.0], False, "constant"), (3, [0.0, 0.0, 0.0], True, "constant"), (8, [-7.25] * 4, True, "constant"),
           (2, [1.0, 2.0], True, "two-samples"), (7, [2.0, 1.0], False, "two-samples"), (1, [0.0, 8.0], True, "two-samples")]
    for _ in range(n):
        right = rng.random() < 0.5
        r = rng.random()
        if r < 0.15:
            v = rng.randint(-64, 64) / 8
            out.append((rng.choice([1, 2, 3, 4, 5, 8, 12]), [v] * rng.randint(1, 5), right, "constant" if rng.random() < 0.7 else "one-sample"))
            if out[-1][3] == "one-sample":
                out[-1] = (out[-1][0], [v], right, "one-sample")
            continue
        nb = rng.choice([1, 2, 3, 4, 5, 8, 12])
        step = rng.choice([0.25, 0.5, 1.0, 3.0])
        mn = rng.randint(-64, 64) / 8
        mx = mn + nb * step
        if r < 0.3:
            data = [mn, mx] if rng.random() < 0.5 else [mx, mn]
            kind = "two-samples"
        else:
            data = [mn, mx] + [mn + step * rng.randint(0, 2 * nb) / 2 for _ in range(rng.randint(1, 8))]
            rng.shuffle(data)
            kind = "edges"
        out.append((nb, data, right, kind))
    return out


def _corr_autobins(ctx, drv):
    """exact stream: the integer-count branch of getbins against Binify.getbinsScalar (edges; the un-nudged end and the dyadic
    interior edges bit-for-bit, the nudged end to 1e-15 and strictly beyond the data), and np.digitize on the implementation's
    edges against the model's digitize on the model's edges for every datum (data on edges included)."""
    from pyyeti import cyclecount

    cases = _autobin_cases(ctx, ctx.pick(400, 4000))
    rep = drv.ask(["ab %d %d | %s" % (nb, right, _frs(data)) for nb, data, right, _ in cases])
    for (nb, data, right, kind), r in zip(cases, rep):
        inp = {"bins": nb, "data": data, "right": right}
        mx, mn = max(data), min(data)
        on_edge = False
        try:
            bb = np.asarray(cyclecount.getbins(nb, mx, mn, right), dtype=float)
            idx = np.digitize(np.array(data), bb, right=right).tolist()
        except Exception as e:
            ctx.case(("ab", nb, tuple(data), right), branch="autobins:" + kind)
            ctx.disagree("getbins-auto", inp, repr(e)[:200], r[:200])
            continue
        es, ix, cv = r.split("|")
        want = [Fraction(t) for t in es.split()]
        widx = [int(t) for t in ix.split()]
        ok = len(bb) == len(want) == nb + 1
        if ok:
            lo, hi = (mn, mx) if mx != mn else (mn - 0.5, mx + 0.5)
            sc = Fraction(abs(lo) + abs(hi) + 1)
            for k, (a, w) in enumerate(zip(bb, want)):
                nudged = (k == 0 and right) or (k == nb and not right)
                dyadic = w.denominator & (w.denominator - 1) == 0
                if nudged:
                    ok = ok and abs(Fraction(float(a)) - w) <= Fraction(1, 10 ** 15) * sc and ((a < lo) if right else (a > hi))
                elif dyadic:
                    ok = ok and Fraction(float(a)) == w
                    on_edge = on_edge or (0 < k < nb and float(a) in data)
                else:
                    ok = ok and abs(Fraction(float(a)) - w) <= Fraction(1, 10 ** 15) * sc
            ok = ok and bool(np.all(np.diff(bb) > 0))
        ctx.case(("ab", nb, tuple(data), right), nontrivial=True, branch="autobins:" + kind)
        ctx.count("autobins:right=%d" % right)
        if on_edge:
            ctx.count("autobins:datum-on-interior-edge")
        if nb == 1:
            ctx.count("autobins:single-bin")
        if not ok:
            ctx.disagree("getbins-auto-edges", inp, bb.tolist(), [float(w) for w in want])
        elif idx != widx:
            ctx.disagree("getbins-auto-digitize", inp, idx, widx)
        elif "0" in cv.split():
            # the model itself says a datum is not covered: contradicts the theorem auto_bins_cover (cannot happen)
            ctx.disagree("getbins-auto-cover(model)", inp, idx, cv)
    return ["autobins:edges", "autobins:constant", "autobins:one-sample", "autobins:two-samples", "autobins:right=0", "autobins:right=1",
            "autobins:datum-on-interior-edge", "autobins:single-bin"]


# fdepsd ---------------------------------------------------------------------------------

def _fde_grid(ctx, n, salt):
    rng = ctx.np_rng(salt)
    out = []
    off = [int(v) for v in rng.integers(0, 30, size=6)]
    for k in range(n):
        N = int(rng.integers(300, 900))
        sr = float(rng.choice([200.0, 400.0, 1000.0]))
        style = rng.integers(0, 3)
        t = np.arange(N) / sr
        if style == 0:
            sig = rng.standard_normal(N)
        elif style == 1:
            sig = np.sin(2 * np.pi * 23.0 * t) + 0.3 * rng.standard_normal(N)
        else:
            sig = np.round(rng.standard_normal(N) * 4) / 4  # plateaus and ties
        freq = np.sort(rng.choice(np.arange(8.0, 60.0, 1.0), size=int(rng.integers(1, 4)), replace=False))
        def opt(i, lst):  # cycle through every option value (coverage does not depend on the seed)
            return lst[(k + off[i] + (k // len(lst)) * i) % len(lst)]

        opts = dict(
            resp=opt(0, ["absacce", "pvelo"]),
            nbins=opt(1, [1, 2, 7, 16, 40]),
            T0=opt(2, [60.0, 20.0, 300.0]),
            rolloff=opt(3, ["lanczos", "fft", "prefilter", "linear", None]),
            hpfilter=opt(4, [5.0, None, 2.0]),
            winends=opt(5, ["auto", None]),
            detrend=bool(rng.integers(0, 2)),
            ppc=int(rng.choice([12, 5])),
        )
        if k % 5 == 4:
            opts["winends"] = {"portion": 20}
        out.append((sig, sr, freq, float(rng.choice([10.0, 25.0, 50.0])), opts))
    return out


def _fde_rows(out, Q, resp):
    """cycle tables of the filtered responses, recomputed from the returned `sig`, `sr`."""
    import scipy.signal as signal
    from pyyeti import srs, cyclecount

    coeffunc = srs._process_inputs(resp, "abs", None, "primary")[0]
    rows = []
    for f in out.freq:
        b, a = coeffunc(Q, 1 / out.sr, 2 * np.pi * f)
        resphist = signal.lfilter(b, a, out.sig)
        ind = cyclecount.findap(resphist)
        rf = cyclecount.rainflow(resphist[ind], use_pandas=False)
        rows.append((resphist, np.asarray(rf)))
    return rows


class _IdentityFilter:
    """Harness-side wrapper (no source edit): srs._process_inputs hands fdepsd an identity SDOF
    filter, so with detrend/winends/hpfilter/rolloff off the 'response' is the dyadic input itself
    and the bookkeeping (levels, >= comparisons, sums) is exercised exactly, cycles on bin levels
    included."""

    @staticmethod
    def coef(Q, dT, wn):
        return np.array([1.0]), np.array([1.0])

    def __enter__(self):
        from pyyeti import srs

        self.srs, self.orig = srs, srs._process_inputs
        srs._process_inputs = lambda *a, **k: (self.coef,) + tuple(self.orig(*a, **k)[1:])
        return self

    def __exit__(self, *exc):
        self.srs._process_inputs = self.orig


def _exact_signals(ctx, n, salt):
    rng = ctx.np_rng(salt)
    out = []
    for _ in range(n):
        nb = int(rng.choice([1, 2, 4, 8, 16]))
        top = int(rng.choice([8, 16, 32])) * 2
        L = int(rng.integers(4, 40))
        v, sgn, y = 0, 1, [0.0]
        for _k in range(L):
            step = int(rng.integers(1, top + 1)) if rng.random() < 0.6 else int(rng.choice([top // 2, top // 4 or 1, top]))
            v = v + sgn * step
            y += [v / 8.0] * int(rng.integers(1, 3))
            sgn = -sgn
        out.append((np.array(y), nb))
    return out


def _run_exact(sig, nb, resp="absacce"):
    from pyyeti import fdepsd

    with _IdentityFilter():
        out = fdepsd.fdepsd(sig, 100.0, [10.0, 20.0], 10.0, resp=resp, nbins=nb, detrend=False, winends=None,
                            hpfilter=None, rolloff=None, parallel="no")
    LF = 2
    fdepsd.WN_, fdepsd.SIG_ = 2 * np.pi * out.freq, out.sig
    fdepsd.ASV_, fdepsd.Count_ = np.zeros((3, LF)), np.zeros((LF, nb))
    fdepsd.BinAmps_ = np.zeros((LF, nb)) + np.arange(nb, dtype=float) / nb
    for j in range(LF):
        fdepsd._dofde((j, (_IdentityFilter.coef, 10.0, 0.01, False)))
    return out, fdepsd.Count_.copy(), fdepsd.BinAmps_.copy()


def _corr_fdepsd_exact(ctx, drv):
    from pyyeti import cyclecount

    req, meta = [], []
    for sig, nb in _exact_signals(ctx, ctx.pick(150, 1500), 12):
        try:
            out, wcount, wamps = _run_exact(sig, nb)
        except Exception as e:
            ctx.disagree("fdepsd-exact-raises", {"sig": sig.tolist(), "nbins": nb}, repr(e)[:300], "a result")
            continue
        rf = np.asarray(cyclecount.rainflow(sig[cyclecount.findap(sig)], use_pandas=False))
        req.append("fde %d | %s" % (nb, " ; ".join("%s %s" % (_fr(float(a)), _fr(float(c))) for a, c in zip(rf[:, 0], rf[:, 2]))))
        meta.append((sig, nb, out, wcount, wamps, rf))
    rep = drv.ask(req)
    for (sig, nb, out, wcount, wamps, rf), r in zip(meta, rep):
        am, lv, ct, bc, df = r.split("|")
        lv = [float(Fraction(t)) for t in lv.split()]
        ct = [float(Fraction(t)) for t in ct.split()]
        bc = [float(Fraction(t)) for t in bc.split()]
        df = [float(Fraction(t)) for t in df.split()]
        on_level = bool(np.any(np.isin(rf[:, 0], np.array(lv)[1:]))) if nb > 1 else False
        ctx.case(("fde-exact", tuple(sig.tolist()), nb), nontrivial=on_level,
                 branch="fdepsd-exact:" + ("cycle-on-level" if on_level else "off-level"))
        inp = {"sig": sig.tolist(), "nbins": nb}
        for j in range(2):
            for name, C, A in (("serial", out.count.values, out.binamps.values), ("worker(_dofde)", wcount, wamps)):
                if A[j].tolist() != lv or C[j].tolist() != ct:
                    ctx.disagree("fdepsd-exact-%s-Count" % name, inp, [A[j].tolist(), C[j].tolist()], [lv, ct])
            if out.bincount.values[j].tolist() != bc:
                ctx.disagree("fdepsd-exact-BinCount", inp, out.bincount.values[j].tolist(), bc)
            if not all(abs(a - b) <= 1e-12 * abs(b) for a, b in zip(out.di_sig.values[j], df)):
                ctx.disagree("fdepsd-exact-Df", inp, out.di_sig.values[j].tolist(), df)
    return ["fdepsd-exact:cycle-on-level", "fdepsd-exact:off-level"]


def _oracle_fdepsd_exact(ctx, sig, nb):
    from pyyeti import cyclecount

    sig = np.asarray(sig, dtype=float)
    out, wcount, wamps = _run_exact(sig, nb)
    rf = np.asarray(cyclecount.rainflow(sig[cyclecount.findap(sig)], use_pandas=False))
    inp = {"exact_sig": sig.tolist(), "nbins": nb}
    for name, C, A in (("fdepsd(parallel='no')", out.count.values, out.binamps.values), ("_dofde worker", wcount, wamps)):
        for j in range(2):
            want = [float(rf[rf[:, 0] >= lvl, 2].sum()) for lvl in A[j]]
            if C[j].tolist() != want:
                ctx.fail("fdepsd-count-level-wrong", "%s with an identity SDOF filter: count[j, k] is not the number of cycles with "
                         "amplitude >= binamps[j, k] (a cycle sits exactly on a level)" % name, inp, C[j].tolist(), want)
                return
            if C[j, 0] != rf[:, 2].sum():
                ctx.fail("fdepsd-count-col0-not-total", "%s: first count column is not the total" % name, inp, float(C[j, 0]), float(rf[:, 2].sum()))
                return


def _corr_fdepsd(ctx, drv):
    from pyyeti import fdepsd, srs

    cases = _fde_grid(ctx, ctx.pick(24, 200), 10)
    req, meta = [], []
    for sig, sr, freq, Q, opts in cases:
        try:
            out = fdepsd.fdepsd(sig, sr, freq, Q, parallel="no", **opts)
            rows = _fde_rows(out, Q, opts["resp"])
        except Exception as e:
            ctx.disagree("fdepsd-raises", {"sr": sr, "freq": list(map(float, freq)), "Q": Q, "opts": {k: str(v) for k, v in opts.items()}},
                         repr(e)[:300], "a result")
            continue
        # the worker used by parallel='yes', driven directly with plain arrays
        LF, nb = len(freq), opts["nbins"]
        fdepsd.WN_, fdepsd.SIG_ = 2 * np.pi * out.freq, out.sig
        fdepsd.ASV_, fdepsd.Count_ = np.zeros((3, LF)), np.zeros((LF, nb))
        fdepsd.BinAmps_ = np.zeros((LF, nb)) + np.arange(nb, dtype=float) / nb
        coeffunc = srs._process_inputs(opts["resp"], "abs", None, "primary")[0]
        try:
            for j in range(LF):
                fdepsd._dofde((j, (coeffunc, Q, 1 / out.sr, False)))
        except Exception as e:
            ctx.disagree("fdepsd-worker(_dofde)-raises", {"sr": sr, "Q": Q, "opts": {k: str(v) for k, v in opts.items()}}, repr(e)[:300], "a result")
            continue
        worker = dict(amax=fdepsd.ASV_[0].copy(), srs=fdepsd.ASV_[1].copy(), var=fdepsd.ASV_[2].copy(),
                      binamps=fdepsd.BinAmps_.copy(), count=fdepsd.Count_.copy())
        for j in range(LF):
            resphist, rf = rows[j]
            amp, cnt = rf[:, 0], rf[:, 2]
            lv = (np.arange(nb) / nb) * amp.max()
            d = np.abs(amp[:, None] - lv[None, :])
            if np.any((d < 1e-12 * amp.max()) & (lv[None, :] > 0)):
                ctx.skip("fdepsd: cycle amplitude within 1e-12 of a bin level")
                continue
            req.append("fde %d | %s" % (nb, " ; ".join("%s %s" % (_fr(float(a)), _fr(float(c))) for a, c in zip(amp, cnt))))
            meta.append((out, worker, j, opts, len(amp), Q))
    rep = drv.ask(req)
    for (out, worker, j, opts, ncyc, Q), r in zip(meta, rep):
        am, lv, ct, bc, df = r.split("|")
        am = Fraction(am)
        lv = [float(Fraction(t)) for t in lv.split()]
        ct = [float(Fraction(t)) for t in ct.split()]
        bc = [float(Fraction(t)) for t in bc.split()]
        df = [float(Fraction(t)) for t in df.split()]
        key = (j, repr(sorted((k, str(v)) for k, v in opts.items())), float(out.freq[j]), ncyc, float(out.sig[:3].sum()))
        ctx.case(key, nontrivial=True, branch="fdepsd:resp=%s" % opts["resp"])
        for tag in ("nbins=%s" % opts["nbins"], "rolloff=%s" % opts["rolloff"], "hpfilter=%s" % opts["hpfilter"],
                    "winends=%s" % ("dict" if isinstance(opts["winends"], dict) else opts["winends"]), "T0=%s" % opts["T0"]):
            ctx.count("fdepsd:" + tag)
        inp = {"freq": float(out.freq[j]), "Q": Q, "opts": {k: (v if not isinstance(v, np.generic) else v.item()) for k, v in opts.items()},
               "nsig": int(out.sig.size)}

        def close(a, b, tol=1e-9):
            a, b = np.asarray(a, float), np.asarray(b, float)
            return a.shape == b.shape and bool(np.all(np.abs(a - b) <= tol * (np.abs(b).max() + 1e-300)))

        for name, src in (("serial", dict(amax=out.peakamp.values[:, 0], binamps=out.binamps.values, count=out.count.values)),
                          ("worker(_dofde)", worker)):
            if Fraction(float(src["amax"][j])) != am:
                ctx.disagree("fdepsd-%s-Amax" % name, inp, float(src["amax"][j]), float(am))
            if not close(src["binamps"][j], lv, 1e-13):
                ctx.disagree("fdepsd-%s-BinAmps" % name, inp, src["binamps"][j][:6].tolist(), lv[:6])
            if src["count"][j].tolist() != ct:
                ctx.disagree("fdepsd-%s-Count" % name, inp, src["count"][j][:8].tolist(), ct[:8])
        if out.bincount.values[j].tolist() != bc:
            ctx.disagree("fdepsd-BinCount", inp, out.bincount.values[j][:8].tolist(), bc[:8])
        if not close(out.di_sig.values[j], df, 1e-10) or not all(
                abs(a - b) <= 1e-10 * abs(b) for a, b in zip(out.di_sig.values[j], df)):
            ctx.disagree("fdepsd-Df", inp, out.di_sig.values[j].tolist(), df)
    return ["fdepsd:resp=absacce", "fdepsd:resp=pvelo", "fdepsd:nbins=1", "fdepsd:nbins=16", "fdepsd:rolloff=prefilter",
            "fdepsd:rolloff=None", "fdepsd:rolloff=fft", "fdepsd:rolloff=lanczos", "fdepsd:hpfilter=None", "fdepsd:hpfilter=5.0",
            "fdepsd:winends=auto", "fdepsd:winends=None", "fdepsd:winends=dict"]


# fdepsd: the whole per-frequency worker at Float ------------------------------------------

def _bits(x):
    return " ".join(str(int(v)) for v in np.ascontiguousarray(np.atleast_1d(np.asarray(x, dtype=np.float64))).view(np.uint64))


def _unbits(s):
    return np.array([int(t) for t in s.split()], dtype=np.uint64).view(np.float64)


def _same(a, b):
    """bit-for-bit equal doubles (NaN equals NaN)"""
    a, b = np.asarray(a, float), np.asarray(b, float)
    return a.shape == b.shape and bool(np.all((a == b) | (np.isnan(a) & np.isnan(b))))


def _relclose(a, b, tol=1e-9):
    """element-wise |a-b| <= tol*|b| (equal infinities / NaNs agree)"""
    a, b = np.asarray(a, float), np.asarray(b, float)
    if a.shape != b.shape:
        return False
    with np.errstate(invalid="ignore"):
        ok = (a == b) | (np.isnan(a) & np.isnan(b)) | (np.abs(a - b) <= tol * np.abs(b))
    return bool(np.all(ok))


_PSDROW = ["g1", "g2", "g4", "g8", "g12", "pk2", "pk4", "pk8", "pk12", "v4", "v8", "v12",
           "dt4", "dt8", "dt12", "dto4", "dto8", "dto12"]


def _parse_ff(r):
    head, lv, ct, bc, df, ps = r.split("|")
    h = _unbits(head)
    return dict(srs=h[0], var=h[1], amax=h[2], g2max=h[3], levels=_unbits(lv), count=_unbits(ct),
                bincount=_unbits(bc), df=_unbits(df), **dict(zip(_PSDROW, _unbits(ps))))


def _ff_line(resp, Q, f, T0, nb, resphist):
    return "ff %s %s %s %s %d %s | %s" % ("a" if resp == "absacce" else "p", _bits(Q), _bits(f), _bits(T0), nb,
                                          _bits(1e-6), _bits(resphist))


def _cmp_ff(ctx, tag, inp, out, j, m, worker=None):
    """every returned table of fdepsd (row j) against the Float run of Fde.fdeFreq"""
    bad = []
    exact = [("srs", out.srs.values[j], m["srs"]), ("amp(G1 column)=Amax", out.peakamp.values[j, 0], m["amax"]),
             ("binamps", out.binamps.values[j], m["levels"]), ("count", out.count.values[j], m["count"]),
             ("bincount", out.bincount.values[j], m["bincount"])]
    if worker is not None:
        exact += [("worker(_dofde).BinAmps", worker["binamps"][j], m["levels"]), ("worker(_dofde).Count", worker["count"][j], m["count"])]
        if "srs" in worker:
            exact += [("worker(_dofde).srs", worker["srs"][j], m["srs"]), ("worker(_dofde).Amax", worker["amax"][j], m["amax"])]
    for name, a, b in exact:
        if not _same(a, b):
            bad.append((name, a, b))
    numeric = [("var", out.var.values[j], m["var"]), ("di_sig", out.di_sig.values[j], m["df"]),
               ("psd", out.psd.values[j], [m[k] for k in ("g1", "g2", "g4", "g8", "g12")]),
               ("amp(peakamp G2..G12)", out.peakamp.values[j, 1:], [m[k] for k in ("pk2", "pk4", "pk8", "pk12")]),
               ("var_test", out.var_test.values[j], [m["v4"], m["v8"], m["v12"]]),
               ("di_test", out.di_test.values[j], [m["dto4"], m["dto8"], m["dto12"]])]
    if worker is not None and "var" in worker:
        numeric.append(("worker(_dofde).var", worker["var"][j], m["var"]))
    for name, a, b in numeric:
        if not _relclose(a, b):
            bad.append((name, a, b))
    for name, a, b in bad:
        ctx.disagree("fdepsd-%s-%s" % (tag, name), inp, np.asarray(a, float).ravel()[:8].tolist(), np.asarray(b, float).ravel()[:8].tolist())
    return not bad


def _corr_fde_worker(ctx, drv):
    """numeric tie of Model/FdePsd (`Fde.fdeFreq` run at Float) to fdepsd.fdepsd and fdepsd._dofde: the model is fed the
    implementation's own filtered response (same public helpers) and must reproduce every returned table."""
    from pyyeti import fdepsd, srs
    import scipy.signal as signal

    req, meta = [], []
    for sig, sr, freq, Q, opts in _fde_grid(ctx, ctx.pick(30, 240), 14):
        inp0 = {"sr": sr, "freq": list(map(float, freq)), "Q": Q, "opts": {k: str(v) for k, v in opts.items()}}
        try:
            out = fdepsd.fdepsd(sig, sr, freq, Q, parallel="no", **opts)
            coeffunc = srs._process_inputs(opts["resp"], "abs", None, "primary")[0]
            LF, nb = len(freq), opts["nbins"]
            fdepsd.WN_, fdepsd.SIG_ = 2 * np.pi * out.freq, out.sig
            fdepsd.ASV_, fdepsd.Count_ = np.zeros((3, LF)), np.zeros((LF, nb))
            fdepsd.BinAmps_ = np.zeros((LF, nb)) + np.arange(nb, dtype=float) / nb
            for j in range(LF):
                fdepsd._dofde((j, (coeffunc, Q, 1 / out.sr, False)))
        except Exception as e:
            ctx.disagree("fdepsd-raises", inp0, repr(e)[:300], "a result")
            continue
        worker = dict(amax=fdepsd.ASV_[0].copy(), srs=fdepsd.ASV_[1].copy(), var=fdepsd.ASV_[2].copy(),
                      binamps=fdepsd.BinAmps_.copy(), count=fdepsd.Count_.copy())
        for j, f in enumerate(out.freq):
            b, a = coeffunc(Q, 1 / out.sr, 2 * np.pi * f)
            resphist = signal.lfilter(b, a, out.sig)
            req.append(_ff_line(opts["resp"], Q, f, opts["T0"], nb, resphist))
            meta.append(("grid", dict(inp0, row=j, nsig=int(out.sig.size)), out, j, worker, opts["resp"], nb))
    # dyadic signals through an identity SDOF filter: cycles exactly on the bin levels, constant-amplitude tables
    # constant-amplitude / nearly constant-amplitude tables: a level at or above Amax/3 whose count EQUALS the total is selected, the
    # code divides by y1 - y[k] = 0 and G2 is +inf (G2_ge_G1_loop_full, Fde.g2maxX)
    g2inf = [(np.array(s, dtype=float), nb) for s, nb in (([1, -1, 1, -1, 1, -1, 1], 4), ([1, -1, 1, -1, 1, -1, 1], 4),
                                                          ([0, 1, -1, 1, -1, 1, -1, 0], 4), ([0, 1, -1, 1, -1, 1, -1, 0], 4),
                                                          ([2, -2, 2, -2, 2], 2), ([0.5, -0.5, 0.5, -0.5, 0.5, -0.5], 8))]
    for k, (sig, nb) in enumerate(g2inf + _exact_signals(ctx, ctx.pick(60, 600), 15)):
        resp = ("absacce", "pvelo")[k % 2]
        try:
            out, wcount, wamps = _run_exact(sig, nb, resp)
        except Exception as e:
            ctx.disagree("fdepsd-exact-raises", {"sig": sig.tolist(), "nbins": nb}, repr(e)[:300], "a result")
            continue
        for j, f in enumerate(out.freq):
            req.append(_ff_line(resp, 10.0, f, 60.0, nb, sig))
            meta.append(("exact", {"exact_sig": sig.tolist(), "nbins": nb, "resp": resp, "row": j}, out, j,
                         dict(binamps=wamps, count=wcount), resp, nb))
    rep = drv.ask(req)
    g2req, g2meta = [], []
    for (kind, inp, out, j, worker, resp, nb), r in zip(meta, rep):
        if r in ("value-error", "bad-op"):
            ctx.case((kind, repr(inp)), branch="fdeworker:" + r)
            ctx.disagree("fdepsd-worker-model", inp, "a result", r)
            continue
        m = _parse_ff(r)
        ctx.case((kind, repr(inp), j), nontrivial=True, branch="fdeworker:%s:resp=%s" % (kind, resp))
        ctx.count("fdeworker:g2-%s" % ("raised" if m["g2max"] != m["amax"] ** 2 else "kept"))
        ctx.count("fdeworker:nbins=%s" % ("1" if nb == 1 else "2" if nb == 2 else "many"))
        if kind == "exact" and nb > 1:
            # exact coincidences (a cycle amplitude ON a bin level) inside the Float stream: `amp >= level` must be decided alike
            from pyyeti import cyclecount as _cc
            sg = np.asarray(inp["exact_sig"], dtype=float)
            rf_ = np.asarray(_cc.rainflow(sg[_cc.findap(sg)], use_pandas=False))
            if np.any(np.isin(rf_[:, 0], m["levels"][1:])):
                ctx.count("fdeworker:exact:cycle-on-level")
        ok = _cmp_ff(ctx, "worker" if kind == "grid" else "worker-exact", inp, out, j, m, worker)
        g2req.append("g2x %s | %s | %s" % (_bits(out.peakamp.values[j, 0]), _bits(out.binamps.values[j]), _bits(out.count.values[j])))
        g2meta.append((inp, float(out.peakamp.values[j, 0]), float(out.peakamp.values[j, 1])))
        if ok and len(ctx.samples) < 6 and j == 0 and kind == "grid":
            ctx.sample({"fdepsd-worker": inp, "psd": out.psd.values[j].tolist()})
    # the G2max loop with numpy's division by zero (Fde.g2maxX, Model/FdePsdInf.lean; theorem G2_ge_G1_loop_full): fed the RETURNED
    # Amax / BinAmps / Count of every row above, it must say +inf exactly where fdepsd's G2 peak amplitude (sqrt(G2max)) is +inf and
    # otherwise give a finite G2max whose root is that amplitude; -inf / NaN never
    for (inp, amax, pk2), r in zip(g2meta, drv.ask(g2req)):
        kindx = "pinf" if r == "pinf" else "other" if not r.startswith("fin ") else "fin-kept" if _unbits(r[4:])[0] == amax * amax else "fin-raised"
        ctx.case(("g2x", repr(inp)), nontrivial=True, branch="g2x:" + kindx)
        if r == "pinf":
            agree = bool(np.isposinf(pk2))
        elif r.startswith("fin "):
            agree = bool(np.isfinite(pk2)) and _relclose([pk2], [float(np.sqrt(_unbits(r[4:])[0]))])
        else:
            agree = False
        if not agree:
            ctx.disagree("fdepsd-G2max-division-by-zero-model (g2maxX)", inp, pk2, r)
    return ["fdeworker:grid:resp=absacce", "fdeworker:grid:resp=pvelo", "fdeworker:exact:resp=absacce", "fdeworker:exact:resp=pvelo",
            "fdeworker:g2-raised", "fdeworker:g2-kept", "fdeworker:nbins=1", "fdeworker:nbins=2", "fdeworker:nbins=many",
            "fdeworker:exact:cycle-on-level", "g2x:pinf", "g2x:fin-kept", "g2x:fin-raised"]



# binify / sigcount: everything returned (labels, index/columns, names, retbins) ----------------

def _label_safe(edges_impl, edges_model, p):
    """the decimal label of an implementation edge (a double that may differ from the model's exact rational by rounding of the
    nudge / linspace arithmetic) is the model's unless a rounding boundary of the `precision`-digit format lies between them"""
    for e, w in zip(edges_impl, edges_model):
        fe = Fraction(float(e))
        if fe == w:
            if float(e) == 0.0 and math.copysign(1.0, float(e)) < 0:
                return False  # -0.0 prints "-0.000"; the rational model has no signed zero
            continue
        for v in (fe, w):
            fr = (abs(v) * 10 ** p) % 1
            if abs(fr - Fraction(1, 2)) < Fraction(1, 10 ** 6):
                return False
        if (fe < 0) != (w < 0):
            return False
    return True


def _pack_cases(ctx, n):
    rng = ctx.rng
    out = [("bx", [(1.5, -0.5, 0.5), (2.0, -1.0, 0.5), (2.0, 1.0, 1.0), (4.0, 1.0, 0.5), (4.5, 0.5, 0.5), (4.0, 0.0, 0.5), (3.0, 1.0, 0.5)],
            True, True, 3, True, True, [3, 2], "doc"),
           ("bx", [(1.0, 0.0, 1.0), (2.0, 0.5, 0.5), (3.0, 1.0, 1.0)], True, True, 3, True, True,
            [[1.0, 1.0001220703125, 1.000244140625, 3.5], [-1.0, 2.0]], "collision"),
           ("bx", [(1.0, 0.0, 1.0), (2.0, 0.5, 0.5), (3.0, 1.0, 1.0)], False, True, 0, True, True, [[0.5, 1.5, 2.5, 3.5], [-0.5, 0.5, 2.5]], "ties")]
    for _ in range(n):
        right, check = rng.random() < 0.5, rng.random() < 0.8
        p = rng.choice([0, 1, 2, 3, 3, 5])
        retbins, pandas_ = rng.random() < 0.6, rng.random() < 0.7
        br, bm = _gen_bins(rng, 0, 8), _gen_bins(rng)
        if rng.random() < 0.25:   # narrow bins: labels collide at low precision
            j = rng.randrange(len(br) - 1)
            br = sorted(set(br + [br[j] + 2.0 ** -rng.randint(5, 12), br[j] + 2.0 ** -4]))
        cyc = _gen_cycles(rng, br, bm, rng.randint(1, 9))
        specs = [br if rng.random() < 0.75 else rng.choice([1, 2, 3, 5]), bm if rng.random() < 0.75 else rng.choice([1, 2, 3])]
        if rng.random() < 0.05 and not isinstance(specs[1], int):
            specs[1] = specs[1][:-1] + [specs[1][0]]   # not increasing: ValueError
        out.append(("bx", cyc, right, check, p, retbins, pandas_, specs, "gen"))
    for _ in range(n // 3):
        y, _, _ = _gen_signals(ctx, 1)[0]
        if len(y) < 3 or not _stol_ok(y, 1e-6):
            continue
        out.append(("sx", y, rng.random() < 0.5, True, rng.choice([0, 2, 3]), rng.random() < 0.5, rng.random() < 0.7,
                    [rng.choice([1, 2, 4, _gen_bins(rng, 0, 8)]), rng.choice([1, 2, 3, _gen_bins(rng)])], "gen"))
    return out


def _run_pack(kind, data, right, check, p, retbins, pandas_, specs):
    """-> (table rows as Fractions, index|None, columns|None, names|None, ampb|None, aveb|None) or an exception tag"""
    from pyyeti import cyclecount
    import pandas as pd

    try:
        if kind == "bx":
            res = cyclecount.binify(np.array(data, dtype=float), specs[0], specs[1], right, p, retbins, pandas_, check)
        else:
            res = cyclecount.sigcount(np.array(data, dtype=float), specs[0], specs[1], right, p, retbins, pandas_)
    except ValueError:
        return "value-error"
    except IndexError:
        return "index-error"
    except Exception as e:  # noqa: BLE001
        return "exc:" + type(e).__name__
    ab = mb = None
    if retbins:
        if not (isinstance(res, tuple) and len(res) == 3):
            return "bad-output:retbins"
        res, ab, mb = res
        ab, mb = np.asarray(ab, float), np.asarray(mb, float)
    elif isinstance(res, tuple):
        return "bad-output:tuple-without-retbins"
    if pandas_:
        if not isinstance(res, pd.DataFrame):
            return "bad-output:not-a-DataFrame"
        return (_table_canon(res.values), [str(v) for v in res.index], [str(v) for v in res.columns],
                (str(res.index.name), str(res.columns.name)), ab, mb)
    if not isinstance(res, np.ndarray):
        return "bad-output:not-an-ndarray"
    return (_table_canon(res), None, None, None, ab, mb)


def _corr_packaging(ctx, drv):
    """exact stream: binify / sigcount with use_pandas, retbins, precision, check_bounds, explicit and integer bins on both axes
    against Binify.binifyFull / sigcountFull — table, index and column LABELS (strings), axis names, returned edges."""
    from pyyeti import cyclecount

    cases = _pack_cases(ctx, ctx.pick(500, 5000))
    req = []
    for kind, data, right, check, p, retbins, pandas_, specs, _ in cases:
        for rb, up in ((retbins, pandas_), (True, False)):   # second request: the model's edges, always
            if kind == "bx":
                req.append("bx %d %d %d %d %d | %s | %s | %s" % (right, check, p, rb, up, _spec_str(specs[0]), _spec_str(specs[1]), _cyc_str(data)))
            else:
                req.append("sx %s %d %d %d %d | %s | %s | %s" % (_fr(1e-6), right, p, rb, up, _spec_str(specs[0]), _spec_str(specs[1]), _frs(data)))
    rep = drv.ask(req)
    for k, (kind, data, right, check, p, retbins, pandas_, specs, tag) in enumerate(cases):
        r, r2 = rep[2 * k], rep[2 * k + 1]
        inp = {"kind": kind, "data": data, "right": right, "check_bounds": check, "precision": p, "retbins": retbins,
               "use_pandas": pandas_, "ampbins": specs[0], "meanbins": specs[1]}
        got = _run_pack(kind, data, right, check, p, retbins, pandas_, specs)
        name = "binify-full" if kind == "bx" else "sigcount-full"
        if r in ("value-error", "index-error") or isinstance(got, str):
            ctx.case((kind, repr(inp)), branch="pack:" + (r if r in ("value-error", "index-error") else "table"))
            if got != r:
                ctx.disagree(name, inp, str(got)[:300], r[:300])
            continue
        ts, idx, cols, names, abs_, mbs = r.split("|")
        want_T = _parse_table(ts)
        e2 = r2.split("|")
        mab = [Fraction(t) for t in e2[4].split()]
        mmb = [Fraction(t) for t in e2[5].split()]
        imp2 = _run_pack(kind, data, right, check, p, True, False, specs)
        if isinstance(imp2, str):
            ctx.disagree(name, inp, imp2, r2[:200])
            continue
        iab, imb = imp2[4], imp2[5]
        exact_edges = all(not isinstance(sp, int) for sp in specs)
        if not exact_edges:
            # conditioning as in the `bn` stream: a datum within rounding of a computed (non-dyadic) edge
            if kind == "sx":
                yy = np.array(data, dtype=float)
                rf = np.asarray(cyclecount.rainflow(yy[cyclecount.findap(yy)], use_pandas=False))
                cols_data = (rf[:, 0].tolist(), rf[:, 1].tolist())
            else:
                cols_data = ([c[0] for c in data], [c[1] for c in data])
            bad = False
            for vals, ie, me in zip(cols_data, (iab, imb), (mab, mmb)):
                if len(ie) != len(me):
                    continue
                for x in vals:
                    for e, w in zip(ie, me):
                        if (x == e) != (Fraction(x) == w) or (x != e and abs(x - e) < 1e-9):
                            bad = True
            if bad:
                ctx.skip("binify-full: datum within rounding of a computed (non-dyadic) edge")
                continue
        T, gi, gc, gn, gab, gmb = got
        if len(mab) == 1:
            want_T = [[] for _ in range(len(mmb) - 1)]
        ctx.case((kind, repr(inp)), nontrivial=True, branch="pack:table")
        ctx.count("pack:%s" % ("pandas" if pandas_ else "ndarray"))
        ctx.count("pack:retbins=%d" % retbins)
        ctx.count("pack:precision=%d" % p)
        if kind == "sx":
            ctx.count("pack:sigcount")
        if len(mmb) > 2 and len(mab) > 2:
            ctx.count("pack:two-dimensional")
        if kind == "bx" and exact_edges:
            amps = [c[0] for c in data]
            if right and any(a == specs[0][0] for a in amps):
                ctx.count("pack:explicit:on-first-edge-right")
            if (not right) and any(a == specs[0][-1] for a in amps):
                ctx.count("pack:explicit:on-last-edge-left")
            if any(a > specs[0][-1] or a < specs[0][0] for a in amps):
                ctx.count("pack:explicit:outside")
        ok, what = T == want_T, "table"
        tol_e = Fraction(1, 10 ** 12)

        def edges_ok(ia, ma):
            return len(ia) == len(ma) and all((Fraction(float(a)) == w) if exact_edges else abs(Fraction(float(a)) - w) <= tol_e * (abs(w) + 1)
                                               for a, w in zip(ia, ma))

        if ok and not (edges_ok(iab, mab) and edges_ok(imb, mmb)):
            ok, what = False, "edges"
        if ok and retbins and not (abs_ != "-" and np.array_equal(gab, iab) and np.array_equal(gmb, imb)
                                   and [Fraction(t) for t in abs_.split()] == mab and [Fraction(t) for t in mbs.split()] == mmb):
            ok, what = False, "returned edges (retbins)"
        if ok and not retbins and (abs_ != "-" or mbs != "-"):
            ok, what = False, "retbins=False but the model returns edges"
        if ok and pandas_:
            mi, mc = (idx.split(";") if idx else []), (cols.split(";") if cols else [])
            if names != "%s;%s" % gn:
                ok, what = False, "axis names"
            elif len(gi) != len(mi) or len(gc) != len(mc):
                ok, what = False, "number of labels"
            elif not (exact_edges or (_label_safe(iab, mab, p) and _label_safe(imb, mmb, p))):
                ctx.skip("binify-full: a label rounding boundary lies within rounding of a computed edge")
            else:
                ctx.count("pack:labels-compared")
                if len(set(mc)) < len(mc) or len(set(mi)) < len(mi):
                    ctx.count("pack:label-collision")
                if gi != mi or gc != mc:
                    ok, what = False, "labels"
        if ok and not pandas_ and (idx != "-" or cols != "-" or names != "-"):
            ok, what = False, "use_pandas=False but the model returns labels"
        if not ok:
            ctx.disagree(name + ":" + what, inp, str(got)[:400], r[:400])
    return ["pack:table", "pack:value-error", "pack:pandas", "pack:ndarray", "pack:retbins=0", "pack:retbins=1", "pack:precision=0",
            "pack:precision=3", "pack:precision=5", "pack:sigcount", "pack:two-dimensional", "pack:explicit:on-first-edge-right",
            "pack:explicit:on-last-edge-left", "pack:explicit:outside", "pack:labels-compared", "pack:label-collision"]


# locate.find_unique / find_duplicates -----------------------------------------------------------

def _locate_cases(ctx, n):
    rng = ctx.rng
    out = [([0.0, 1.0, 3.0], 0.5, "u"), ([2.0, 2.0, 5.0, 5.0], 0.0, "u"), ([3.0, 4.0], 1.0, "u"), ([5.0], 1e-6, "u"), ([], 1e-6, "u"),
           ([0.0, 10, 2, 2, 6, 10, 10], 0.0, "d"), ([1.0], 0.0, "d"), ([], 0.0, "d"), ([1.0, 1.25, 3.0, 2.75], 0.25, "d")]
    for _ in range(n):
        L = rng.randint(2, 14)
        k = rng.choice([1, 2, 4, 8])
        y = [rng.randint(-8, 8) / k for _ in range(L)]
        if rng.random() < 0.4:   # plateaus
            y = [v for v in y for _ in range(rng.randint(1, 3))][:16]
        md = max(abs(b - a) for a, b in zip(y, y[1:])) if len(y) > 1 else 0
        tol = rng.choice([0.0, 1e-6, 0.25, 0.5, 1.0, -0.25] + ([1.0 / (md * k)] if md and (md * k) in (1, 2, 4, 8, 16) else []))
        out.append((y, tol, "u"))
        out.append((y, rng.choice([0.0, 0.0, 0.25, 0.5, 1.0, -1.0]), "d"))
    return out


def _corr_locate(ctx, drv):
    from pyyeti import locate

    cases = [(y, tol, k) for y, tol, k in _locate_cases(ctx, ctx.pick(400, 4000)) if k == "d" or _stol_ok(y, tol)]
    rep = drv.ask([("fu %s | %s" if k == "u" else "fdup %s | %s") % (_fr(tol), _frs(y)) for y, tol, k in cases])
    for (y, tol, k), r in zip(cases, rep):
        inp = {"v": y, "tol": tol}
        if k == "u":
            try:
                got = " ".join("1" if b else "0" for b in locate.find_unique(np.array(y, dtype=float), tol))
            except ValueError:
                got = "value-error"
            except Exception as e:  # noqa: BLE001
                got = "exc:" + type(e).__name__
            st = abs(tol * max(abs(b - a) for a, b in zip(y, y[1:]))) if len(y) > 1 else None
            on = st is not None and any(abs(b - a) == st for a, b in zip(y, y[1:]))
            ctx.case(("fu", tuple(y), tol), nontrivial=len(y) > 1, branch="find_unique:" + ("value-error" if r == "value-error" else "mask"))
            if on and st > 0:
                ctx.count("find_unique:step-equals-stol")
            if tol == 0 and any(a == b for a, b in zip(y, y[1:])):
                ctx.count("find_unique:tol=0-plateau")
            if got != r:
                ctx.disagree("locate.find_unique", inp, got, r)
        else:
            code, spec = r.split("|")
            got = " ".join("1" if b else "0" for b in locate.find_duplicates(np.array(y, dtype=float), tol))
            ctx.case(("fdup", tuple(y), tol), nontrivial=len(y) > 1,
                     branch="find_duplicates:" + ("short" if len(y) < 2 else "tol=0" if tol == 0 else "tol>0" if tol > 0 else "tol<0"))
            if got != code.strip():
                ctx.disagree("locate.find_duplicates", inp, got, code)
            if code.strip() != spec.strip():
                ctx.disagree("find_duplicates: sorted-neighbour model vs documented meaning (both Lean)", inp, code, spec)
    return ["find_unique:mask", "find_unique:value-error", "find_unique:step-equals-stol", "find_unique:tol=0-plateau",
            "find_duplicates:short", "find_duplicates:tol=0", "find_duplicates:tol>0", "find_duplicates:tol<0"]


def correspondence(ctx):
    drv = ctx.driver("C10")
    need = _corr_findap(ctx, drv)
    need += _corr_binning(ctx, drv)
    need += _corr_autobins(ctx, drv)
    need += _corr_fdepsd(ctx, drv)
    need += _corr_fdepsd_exact(ctx, drv)
    need += _corr_fde_worker(ctx, drv)
    need += _corr_packaging(ctx, drv)
    need += _corr_locate(ctx, drv)
    ctx.exhaustive = False
    ctx.require_branches(need)


# ---------------------------------------------------------------------------------------
# model-free oracle


def _alt(z):
    d = np.diff(z)
    return bool(np.all(d != 0) and np.all(d[1:] * d[:-1] < 0))


def _input_traits(y, st):
    """Characteristics of the input itself (no pyYeti code involved)."""
    n = len(y)
    drift = False       # some run of sub-tolerance steps moves more than st away from its first sample
    ret = False         # a > st step lands within st of the first sample of the run it leaves
    h, runlen = y[0], 1
    for k in range(1, n):
        if abs(y[k] - y[k - 1]) > st:
            if runlen > 1 and abs(y[k] - h) <= st:
                ret = True
            h, runlen = y[k], 1
        else:
            runlen += 1
            if abs(y[k] - h) > st:
                drift = True
    first_sig = next((k for k in range(1, n) if abs(y[k] - y[0]) > st), None)
    # sequential reference chain: last accepted sample (independent re-statement of "held" sample)
    held = None
    if first_sig is not None:
        c, j = y[first_sig], first_sig
        for k in range(first_sig + 1, n):
            if abs(y[k] - c) > st:
                c, j = y[k], k
        held = j
    end_drop = (n >= 3 and held is not None and held != n - 1 and abs(y[-1] - y[-2]) > st)
    return dict(drift=drift, ret=ret, unbound=(n >= 3 and first_sig == n - 1), end_drop=end_drop)


def _oracle_findap(ctx, dflt, seq, y, tol):
    y = np.asarray(y, dtype=float)
    n = y.size
    inp = {"y": y.tolist(), "tol": tol}
    if n == 0:
        return
    st = abs(tol * np.abs(np.diff(y)).max()) if n >= 2 else 0.0
    tr = _input_traits(y, st) if n >= 2 else dict(drift=False, ret=False, unbound=False, end_drop=False)

    def check(name, pv, known_family, slack):
        if isinstance(pv, str):
            return pv
        pv = np.asarray(pv)
        z = y[pv]
        bad = []
        if not (pv.dtype == bool and pv.shape == y.shape):
            return "bad output"
        if not pv[0]:
            bad.append(("first sample not selected", "no-first"))
        if not _alt(z):
            bad.append(("selected samples do not strictly alternate", "alternation"))
        if z.size and (y.max() - z.max() > st * (1 + 1e-12) or z.min() - y.min() > st * (1 + 1e-12)):
            bad.append(("selected samples miss a global extreme by more than stol", "extreme"))
        for what, tag in bad:
            fam = known_family(tag)
            ctx.fail(fam, "%s findap: %s" % (name, what), inp, {"selected": np.nonzero(pv)[0].tolist(), "stol": st},
                     "first sample, strict max/min alternation, global extremes within stol")
        return None

    try:
        pd_ = dflt(y.copy(), tol)
    except Exception as e:
        ctx.fail("findap-default-raises-" + type(e).__name__, "default findap raises", inp, repr(e), "a boolean vector")
        return
    # families are computed from the input's characteristics; F4 is the family of the repaired finding (f8f6e40): listed `fixed`, so a
    # recurrence is a VIOLATION
    check("default", pd_, lambda tag: F4 if tr["drift"] else "findap-default-%s-without-drift" % tag, 1)
    # the same samples as raw integer counts (24-bit ADC data held in int32, 12-bit data in int16) or single precision: the
    # selection depends on ratios of differences only, so it must be the one of the float64 record (scaling by 2^k is exact)
    if n >= 3 and np.all(np.isfinite(y)) and float(np.abs(y).max()) > 0:
        for dt, top in (("int32", 2.0 ** 23), ("int16", 2.0 ** 11), ("int64", 2.0 ** 40), ("float32", 2.0 ** 10)):
            k = math.floor(math.log2(top / float(np.abs(y).max())))
            ys = y * 2.0 ** k
            if np.any(ys != np.round(ys)):
                continue
            yv = ys.astype(dt)
            if np.any(yv.astype(float) != ys):
                continue
            try:
                with np.errstate(all="ignore"), warnings.catch_warnings():
                    warnings.simplefilter("ignore")
                    pv = np.asarray(dflt(yv, tol))
            except Exception as e:  # noqa: BLE001
                ctx.fail("findap-dtype-%s-raises" % dt, "default findap refuses a %s record" % dt, dict(inp, dtype=dt, scale=2.0 ** k),
                         repr(e)[:120], "a boolean vector")
                continue
            if pv.shape != np.asarray(pd_).shape or not np.array_equal(pv, np.asarray(pd_)):
                ctx.fail("findap-dtype-%s-selects-other-samples" % dt, "default findap selects other samples for the same record stored as "
                         "%s (times 2^%d) than for float64" % (dt, k), dict(inp, dtype=dt, scale=2.0 ** k),
                         np.nonzero(pv)[0].tolist() if pv.dtype == bool else str(pv.dtype), np.nonzero(pd_)[0].tolist())
    if seq is None:
        return
    try:
        ps = seq(y.copy(), tol)
    except UnboundLocalError as e:
        fam = F14 if tr["unbound"] else "findap-numba-variant-unbound-elsewhere"
        ctx.fail(fam, "numba-variant findap (transcription) reads `nxt` before assignment", inp, repr(e), "a boolean vector")
        return
    except Exception as e:
        ctx.fail("findap-numba-variant-raises-" + type(e).__name__, "numba-variant findap raises", inp, repr(e), "a boolean vector")
        return

    def seq_family(tag):
        if tag == "extreme" and tr["end_drop"]:
            z = y[np.asarray(ps)]
            if y.max() - z.max() <= 2 * st * (1 + 1e-12) and z.min() - y.min() <= 2 * st * (1 + 1e-12):
                return N1
        return "findap-numba-variant-%s%s" % (tag, "-with-drift" if tr["drift"] else "")

    check("numba-variant", ps, seq_family, 2)
    if not np.array_equal(np.asarray(pd_), np.asarray(ps)):
        fam = (N2 if tr["ret"] and not tr["drift"] else N1 if tr["end_drop"] and not tr["drift"] else
               "findap-variants-differ-size-2-tol>=1" if n == 2 and abs(tol) >= 1 else
               "findap-variants-differ-with-drift" if tr["drift"] else "findap-variants-differ-without-drift-or-return")
        ctx.fail(fam, "default and numba-variant findap select different samples", inp,
                 {"default": np.nonzero(pd_)[0].tolist(), "numba": np.nonzero(ps)[0].tolist(), "stol": st}, "identical selections")


def _oracle_binify(ctx, cyc, right, check, specs):
    from pyyeti import cyclecount

    inp = {"cycles": cyc, "right": right, "check_bounds": check, "ampbins": specs[0], "meanbins": specs[1]}
    arr = np.array(cyc, dtype=float)
    vec_ok = all(isinstance(s, int) or all(b > a for a, b in zip(s, s[1:])) for s in specs)
    for col, sp in enumerate(specs):  # documented meaning of the out_of_bounds flag
        if not isinstance(sp, int) and len(sp) > 1 and all(b > a for a, b in zip(sp, sp[1:])):
            mx, mn = arr[:, col].max(), arr[:, col].min()
            flag = cyclecount.getbins(sp, mx, mn, right, check_bounds=True)[1]
            if mx == mn:
                mx, mn = mx + 0.5, mn - 0.5
            ins = (lambda x: sp[0] < x <= sp[-1]) if right else (lambda x: sp[0] <= x < sp[-1])
            if bool(flag) != (not (ins(mx) and ins(mn))):
                ctx.fail("getbins-out-of-bounds-flag-wrong-right=%d" % right, "getbins(check_bounds=True) flag differs from 'mx or mn falls "
                         "outside the bins'", dict(inp, column=col), bool(flag), not (ins(mx) and ins(mn)))
    # input characteristic (IEEE facts about the data only): for an integer bin count the end-point nudge p = 0.001*(mx - mn) is
    # below half an ulp of the end point it is applied to, so `bb[0] -= p` / `bb[-1] += p` leaves the edge ON the extreme datum
    absorbed = False
    for col, sp in enumerate(specs):
        if isinstance(sp, int):
            mx, mn = float(arr[:, col].max()), float(arr[:, col].min())
            if mx == mn:
                mx, mn = mx + 0.5, mn - 0.5
            pp = 0.001 * (mx - mn)
            absorbed = absorbed or ((mn - pp == mn) if right else (mx + pp == mx))
    all_auto = all(isinstance(sp, int) for sp in specs)
    try:
        T, ab, mb = cyclecount.binify(arr, specs[0], specs[1], right, retbins=True, use_pandas=False, check_bounds=check)
    except ValueError as e:
        if vec_ok:
            ctx.fail("binify-valueerror-on-valid-bins", "binify raises ValueError for increasing bins", inp, repr(e), "a table")
        return
    except IndexError as e:
        if absorbed and all_auto:
            ctx.fail(N4, "binify with integer bin counts raises IndexError: the end-point nudge of getbins is absorbed by rounding, the "
                     "extreme datum sits on the open end of the outer bin", inp, repr(e), "a table whose total is the cycle count")
        elif check or all_auto:
            ctx.fail("binify-indexerror-with-check-bounds" if not all_auto else "binify-indexerror-with-auto-bins",
                     "binify raises IndexError although check_bounds=True / the bins are automatic", inp, repr(e), "a table")
        return

    # "(at least) 3 columns": the same cycles with further columns appended (the offsets of rainflow(getoffsets=True), a weight
    # column) must give the same table
    try:
        arr_x = np.column_stack([arr, 3 + 7 * np.arange(len(arr)), np.full(len(arr), 41.0)])
        T2 = cyclecount.binify(arr_x, specs[0], specs[1], right, use_pandas=False, check_bounds=check)
        if not np.array_equal(np.asarray(T2), np.asarray(T)):
            ctx.fail("binify-extra-columns-change-table", "appending columns to the 3-column cycle table changes the binned table",
                     inp, np.asarray(T2).tolist(), np.asarray(T).tolist())
    except Exception as e:  # noqa: BLE001
        ctx.fail("binify-extra-columns-raise", "binify refuses a cycle table with more than 3 columns", inp, repr(e)[:120], "the same table")

    def inside(x, b):
        return (b[0] < x <= b[-1]) if right else (b[0] <= x < b[-1])

    covered = all(inside(a, ab) and inside(m, mb) for a, m, _ in cyc)
    total = sum(c for _, _, c in cyc)
    if all_auto:
        for name, bb, nbin in (("ampb", ab, specs[0]), ("aveb", mb, specs[1])):
            if len(bb) != nbin + 1 or not np.all(np.diff(bb) > 0):
                if absorbed:
                    break
                ctx.fail("getbins-auto-edges-not-increasing", "automatically generated bin edges are not %d strictly increasing values" % (nbin + 1),
                         inp, {name: np.asarray(bb).tolist()}, "bins + 1 strictly increasing edges")
                return
    if all_auto and not covered:
        if absorbed:
            ctx.fail(N4, "automatically generated bins do not cover the data: the end-point nudge p = 0.001*(mx - mn) is absorbed by "
                     "rounding, so the extreme datum lies on the open end of the outer bin (right=True: it is counted in the LAST bin "
                     "through index -1)", inp, {"ampb": ab.tolist(), "aveb": mb.tolist(), "table": np.asarray(T).tolist()},
                     "every cycle inside the bins (getbins: 'the range is guaranteed to be covered if `bins` is a scalar')")
            return
        ctx.fail("binify-auto-bins-do-not-cover", "automatically generated bins do not cover the data", inp,
                 {"ampb": ab.tolist(), "aveb": mb.tolist()}, "every cycle inside the bins")
    want = np.zeros((len(mb) - 1, len(ab) - 1))
    for a, m, c in cyc:
        for i in range(len(mb) - 1):
            for j in range(len(ab) - 1):
                lo_m, hi_m, lo_a, hi_a = mb[i], mb[i + 1], ab[j], ab[j + 1]
                in_m = (lo_m < m <= hi_m) if right else (lo_m <= m < hi_m)
                in_a = (lo_a < a <= hi_a) if right else (lo_a <= a < hi_a)
                if in_m and in_a:
                    want[i, j] += c
    if covered or check:
        # the statement of binify_cell_sum / binify_explicit_cell_sum / binify_auto_cell_sum, cell by cell (`want` above)
        ctx.count("oracle:binify-cell-sum")
        if (want > np.max([c for _, _, c in cyc])).any() or len(cyc) > np.count_nonzero(want):
            ctx.count("oracle:binify-cell-sum:several-cycles-in-one-cell-or-dropped")
        if covered and T.sum() != total:
            ctx.fail("binify-count-not-conserved-right=%d" % right, "bins cover the data but the table total differs from the cycle count",
                     inp, float(T.sum()), total)
        if not np.array_equal(T, want):
            ctx.fail("binify-cycle-in-wrong-bin-right=%d" % right, "a cycle is not in the bin whose documented half-open interval contains it",
                     inp, np.asarray(T).tolist(), want.tolist())


def _oracle_fdepsd(ctx, sig, sr, freq, Q, opts):
    from pyyeti import fdepsd

    inp = {"sig_seed_note": "signal regenerated from (seed, salt, index)", "sr": sr, "freq": list(map(float, freq)), "Q": Q,
           "opts": {k: (v if not isinstance(v, np.generic) else v.item()) for k, v in opts.items()}, "sig": np.asarray(sig).tolist()}
    out = fdepsd.fdepsd(sig, sr, freq, Q, parallel="no", **opts)
    resp = opts["resp"]
    rows = _fde_rows(out, Q, resp)
    cnt, bc, ba = out.count.values, out.bincount.values, out.binamps.values
    nb = opts["nbins"]

    def fail(fam, what, obs, req):
        ctx.fail(fam, "fdepsd: " + what, inp, obs, req)

    if np.any(np.diff(cnt, axis=1) > 0):
        fail("fdepsd-cumulative-count-increases", "cumulative count increases with amplitude", cnt[:, :8].tolist(), "non-increasing rows")
    for j, (resphist, rf) in enumerate(rows):
        tot = rf[:, 2].sum()
        if cnt[j, 0] != tot:
            fail("fdepsd-count-col0-not-total", "first count column differs from the total cycle count", float(cnt[j, 0]), float(tot))
        if out.peakamp.values[j, 0] > out.srs.values[j] * (1 + 1e-12):
            fail("fdepsd-amax-exceeds-srs", "largest cycle amplitude exceeds the SRS peak", float(out.peakamp.values[j, 0]), float(out.srs.values[j]))
        if out.peakamp.values[j, 0] != rf[:, 0].max() or abs(out.srs.values[j] - np.abs(resphist).max()) > 1e-12 * np.abs(resphist).max():
            fail("fdepsd-amax-or-srs-wrong", "Amax / SRS peak differ from the response's", [float(out.peakamp.values[j, 0]), float(out.srs.values[j])],
                 [float(rf[:, 0].max()), float(np.abs(resphist).max())])
        # each cumulative entry counts the cycles at or above the documented left-side boundary
        for jj in range(nb):
            lvl = ba[j, jj]
            near = np.abs(rf[:, 0] - lvl) < 1e-12 * rf[:, 0].max()
            if np.any(near & (rf[:, 0] != lvl)):
                ctx.count("oracle:fdepsd-level-within-1e-12-skipped")
                continue
            if cnt[j, jj] != rf[rf[:, 0] >= lvl, 2].sum():
                fail("fdepsd-count-level-wrong", "count[j, k] is not the number of cycles with amplitude >= binamps[j, k]",
                     [jj, float(cnt[j, jj])], float(rf[rf[:, 0] >= lvl, 2].sum()))
                break
        if not np.allclose(ba[j], np.arange(nb) / nb * rf[:, 0].max(), rtol=1e-13, atol=0):
            fail("fdepsd-binamps-wrong", "binamps are not k/nbins * Amax", ba[j, :6].tolist(), (np.arange(nb) / nb * rf[:, 0].max())[:6].tolist())
    if np.any(bc < 0) or not np.allclose(bc.sum(axis=1), cnt[:, 0], rtol=1e-12):
        fail("fdepsd-bincount-inconsistent", "bincount negative or not summing to the total", bc[:, :8].tolist(), "non-negative, row sum = count[:, 0]")
    psd = out.psd.values
    if np.any(psd[:, 1] < psd[:, 0] * (1 - 1e-12)) or not np.all(np.isfinite(psd)):
        fail("fdepsd-G2-below-G1-or-nonfinite", "G2 < G1 or a non-finite PSD value", psd.tolist(), "finite, G2 >= G1")
    for k, b in enumerate((4, 8, 12)):
        want = ((ba ** b) * bc).sum(axis=1)
        if not np.allclose(out.di_sig.values[:, k], want, rtol=1e-10, atol=0):
            fail("fdepsd-damage-def-b=%d" % b, "di_sig is not sum(binamps**b * bincount)", out.di_sig.values[:, k].tolist(), want.tolist())
        lhs = out.var_test.values[:, k] ** (b / 2) * out.di_test.values[:, k]
        ds = out.di_sig.values[:, k]
        if not np.allclose(lhs, ds, rtol=1e-9, atol=0):
            fam = N3 if (resp == "pvelo" and np.all(ds > 0) and np.allclose(lhs, 2.0 ** (b / 2) * ds, rtol=1e-9, atol=0)) \
                else "fdepsd-test-variance-relation-b=%d-%s" % (b, resp)
            fail(fam, "var_test**(b/2) * di_test != di_sig (documented relation)", (lhs / np.where(ds == 0, 1, ds)).tolist(), "ratio 1.0 for every frequency")
    # damage cycle by cycle: every cycle contributes (left edge of its amplitude bin)**b * count
    for j, (resphist, rf) in enumerate(rows):
        amp, cc = rf[:, 0], rf[:, 2]
        d = np.abs(amp[:, None] - ba[j][None, :])
        if np.any((d < 1e-12 * amp.max()) & (d > 0)):
            continue
        k = np.searchsorted(ba[j], amp, side="right") - 1
        for col, b in enumerate((4, 8, 12)):
            want = float(np.sum(ba[j][k] ** b * cc))
            if not np.isclose(out.di_sig.values[j, col], want, rtol=1e-10, atol=0):
                fail("fdepsd-damage-per-cycle-b=%d" % b, "di_sig is not the sum over the cycles of (left edge of the cycle's bin)**b * count",
                     float(out.di_sig.values[j, col]), want)
                break
    # G1/G2 against the documented Mile's-type relation and G2max >= Amax**2; damage-based PSDs from var_test
    pk = out.peakamp.values
    lnN0 = np.log(out.freq * opts["T0"])
    if resp == "absacce":
        g1 = pk[:, 0] ** 2 / (Q * np.pi * out.freq * lnN0)
        g2 = pk[:, 1] ** 2 / (Q * np.pi * out.freq * lnN0)
        gb = out.var_test.values / ((Q * np.pi / 2) * out.freq)[:, None]
    else:
        g1 = pk[:, 0] ** 2 * 4 * np.pi * out.freq / (Q * lnN0)
        g2 = pk[:, 1] ** 2 * 4 * np.pi * out.freq / (Q * lnN0)
        gb = out.var_test.values * ((8 * np.pi / Q) * out.freq)[:, None]   # sigma_pvelo**2 = Q*PSD/(8*pi*f)
    if not (np.allclose(psd[:, 0], g1, rtol=1e-9, atol=0) and np.allclose(psd[:, 1], g2, rtol=1e-9, atol=0)
            and np.allclose(psd[:, 2:], gb, rtol=1e-9, atol=0)):
        fail("fdepsd-psd-formula-%s" % resp, "G1/G2 are not the Mile's-type conversion (with T0, Q, f) of the peak amplitudes, or G4/G8/G12 not "
             "that of var_test (documented: sigma_absacce**2 = pi/2*f*Q*PSD, sigma_pvelo**2 = Q*PSD/(8*pi*f))", psd.tolist(), np.column_stack((g1, g2, gb)).tolist())
    # G2: the bound over the levels at or above Amax/3 — G2max is the largest x-intercept of the lines through (0, ln Count_0) and
    # (binamps_k**2, ln Count_k), never below Amax**2 (restated as a maximum of intercepts; the code picks argmax of a slope)
    for j in range(len(out.freq)):
        c0, am = cnt[j, 0], pk[j, 0]
        if not c0 > 1:
            continue
        sel = ba[j] >= am / 3
        want = am ** 2
        if sel.any():
            ck = cnt[j, sel]
            if np.any(ck >= c0) or np.any(ck <= 0):
                continue
            want = max(want, float(np.max(ba[j, sel] ** 2 * np.log(c0) / (np.log(c0) - np.log(ck)))))
        if not np.isclose(pk[j, 1] ** 2, want, rtol=1e-9, atol=0):
            fail("fdepsd-G2-not-the-bound-over-levels-from-amax-third", "peakamp G2**2 is not max(Amax**2, largest x-intercept over the levels "
                 ">= Amax/3)", float(pk[j, 1] ** 2), want)
            break
    # the test damage indicator in closed form (Taylor remainder of exp; an expression different from the code's polynomial in
    # Abar): absacce  Dt_b = 2**(b/2) (b/2)! (N0 - sum_{k<=b/2} u**k/k!),  u = ln N0,  N0 = f*T0;  pvelo (as returned): 2**(b/2) (b/2)! N0
    N0 = out.freq * opts["T0"]
    for col, b in enumerate((4, 8, 12)):
        h = b // 2
        lead = 2.0 ** h * math.factorial(h)
        want = lead * (N0 - sum(np.log(N0) ** k / math.factorial(k) for k in range(h + 1))) if resp == "absacce" else lead * N0
        if not np.allclose(out.di_test.values[:, col], want, rtol=1e-7, atol=0):
            fail("fdepsd-di-test-formula-%s-b=%d" % (resp, b), "di_test is not the documented function of f*T0 and b", out.di_test.values[:, col].tolist(),
                 np.asarray(want).tolist())
    # quadratic scaling (power-of-two factor: the float operations commute with it up to pow/log rounding)
    out4 = fdepsd.fdepsd(4.0 * np.asarray(sig), sr, freq, Q, parallel="no", **opts)
    # ... and a factor of the other sign (psd_quadratic_scaling_full: everything depends on |c| only)
    outm = fdepsd.fdepsd(-4.0 * np.asarray(sig), sr, freq, Q, parallel="no", **opts)
    for name in ("psd", "peakamp", "binamps", "count", "bincount", "var", "srs", "di_sig", "di_test", "var_test"):
        a_, b_ = np.asarray(getattr(outm, name).values, float), np.asarray(getattr(out4, name).values, float)
        if a_.shape != b_.shape or not np.allclose(a_, b_, rtol=1e-9, atol=0):
            fail("fdepsd-negated-signal-differs-%s" % name, "scaling the signal by -4 and by +4 give different `%s`" % name,
                 a_.ravel()[:6].tolist(), b_.ravel()[:6].tolist())
            break
    if not np.allclose(out4.psd.values, 16.0 * psd, rtol=1e-9, atol=0) or not np.array_equal(out4.count.values, cnt):
        fail("fdepsd-psd-not-quadratic", "PSD outputs do not scale with the square of the input amplitude", out4.psd.values.tolist(), (16 * psd).tolist())
    checks = [("binamps", out4.binamps.values, 4.0 * ba), ("peakamp", out4.peakamp.values, 4.0 * pk), ("srs", out4.srs.values, 4.0 * out.srs.values),
              ("var", out4.var.values, 16.0 * out.var.values), ("var_test", out4.var_test.values, 16.0 * out.var_test.values),
              ("di_test", out4.di_test.values, out.di_test.values), ("bincount", out4.bincount.values, bc),
              ("di_sig", out4.di_sig.values, out.di_sig.values * np.array([4.0 ** 4, 4.0 ** 8, 4.0 ** 12]))]
    for name, a, b_ in checks:
        if not np.allclose(a, b_, rtol=1e-9, atol=0):
            fail("fdepsd-scaling-%s" % name, "scaling the signal by 4: `%s` does not scale as stated (amplitudes x4, variances/PSDs x16, "
                 "di_sig x4**b, counts and di_test unchanged)" % name, np.asarray(a).ravel()[:6].tolist(), np.asarray(b_).ravel()[:6].tolist())
            break


def _oracle_autobins(ctx, nb, data, right):
    """getbins with an integer count, restated on the API: bins+1 strictly increasing edges whose documented half-open
    intervals cover [min, max] of the data; then binify with these counts conserves and places (via _oracle_binify)."""
    from pyyeti import cyclecount

    inp = {"bins": nb, "data": list(data), "right": right}
    mx, mn = max(data), min(data)
    bb = np.asarray(cyclecount.getbins(nb, mx, mn, right), dtype=float)
    bb2, oob = cyclecount.getbins(nb, mn, mx, right, check_bounds=True)  # either order of mx, mn
    if len(bb) != nb + 1 or not np.all(np.diff(bb) > 0) or not np.array_equal(bb, bb2) or oob is not False:
        ctx.fail("getbins-auto-edges-not-increasing", "getbins(int): not bins+1 strictly increasing edges, or dependent on the order of "
                 "mx, mn, or out_of_bounds not False", inp, [bb.tolist(), np.asarray(bb2).tolist(), oob], "bins + 1 increasing edges")
        return
    for x in data:
        hit = [k for k in range(nb) if ((bb[k] < x <= bb[k + 1]) if right else (bb[k] <= x < bb[k + 1]))]
        if len(hit) != 1:
            ctx.fail("getbins-auto-bins-do-not-cover-right=%d" % right, "a datum between mn and mx lies in no documented bin interval",
                     inp, {"edges": bb.tolist(), "datum": x}, "exactly one bin contains it")
            return
    cyc = [(abs(a) + 1.0, a, 0.5 if i % 2 else 1.0) for i, a in enumerate(data)]
    _oracle_binify(ctx, cyc, right, True, [nb, nb])


def _bin_cases(ctx, n):
    rng = ctx.rng
    out = []
    for _ in range(n):
        right, check = rng.random() < 0.5, rng.random() < 0.7
        br, bm = _gen_bins(rng, 0, 8), _gen_bins(rng)
        cyc = _gen_cycles(rng, br, bm, rng.randint(1, 8))
        specs = [rng.choice([br, rng.choice([1, 2, 3, 4, 5, 8])]), rng.choice([bm, rng.choice([1, 2, 3, 4])])]
        if rng.random() < 0.5:
            specs = [s if isinstance(s, int) else sorted(set([min(c[k] for c in cyc) - 0.25] + s + [max(c[k] for c in cyc) + 0.25]))
                     for k, s in enumerate(specs)]
        out.append((cyc, right, check, specs))
    return out


def _guard(ctx, which, inp, fn, *a):
    """an exception escaping the API on a valid input is itself a failing input"""
    try:
        fn(*a)
    except Exception as e:
        ctx.fail("%s-raises-%s" % (which, type(e).__name__), "%s raises on a valid input" % which, inp, repr(e)[:300], "a result")


def _oracle_packaging(ctx, cyc, right, check, p, specs):
    """binify's packaging restated on the API: the DataFrame carries the ndarray's numbers, one label per bin in the documented format
    of the returned edges, the documented axis names; explicit edge vectors are returned as given; labels of bins wider than one unit
    in the last printed place are all different."""
    from pyyeti import cyclecount

    inp = {"cycles": cyc, "right": right, "check_bounds": check, "precision": p, "ampbins": specs[0], "meanbins": specs[1]}
    arr = np.array(cyc, dtype=float)
    try:
        T, ab, mb = cyclecount.binify(arr, specs[0], specs[1], right, p, True, False, check)
    except (ValueError, IndexError):
        return
    df = cyclecount.binify(arr, specs[0], specs[1], right, p, False, True, check)
    if not hasattr(df, "columns") or not np.array_equal(np.asarray(df.values), np.asarray(T)):
        ctx.fail("binify-pandas-table-differs-from-ndarray", "use_pandas=True and use_pandas=False return different numbers", inp,
                 str(np.asarray(getattr(df, "values", df)).tolist())[:200], np.asarray(T).tolist())
        return
    for name, sp, bb in (("ampbins", specs[0], ab), ("meanbins", specs[1], mb)):
        if not isinstance(sp, int) and len(sp) > 1 and not np.array_equal(np.asarray(bb, float), np.asarray(sp, float)):
            ctx.fail("binify-retbins-not-the-given-edges", "retbins does not return the explicit `%s` vector" % name, inp, np.asarray(bb).tolist(), list(sp))
            return
    lo_, hi_ = ("(", "]") if right else ("[", ")")

    def labels(bb):
        return ["%s%.*f, %.*f%s" % (lo_, p, a, p, b, hi_) for a, b in zip(bb[:-1], bb[1:])]

    if [str(v) for v in df.columns] != labels(ab) or [str(v) for v in df.index] != labels(mb):
        ctx.fail("binify-labels-not-the-documented-format-precision=%d" % p, "index / columns are not one '(lo, hi]' / '[lo, hi)' label per bin with "
                 "`precision` decimals of the returned edges", inp, [list(map(str, df.index)), list(map(str, df.columns))], [labels(mb), labels(ab)])
        return
    if (df.index.name, df.columns.name) != ("Mean", "Amp"):
        ctx.fail("binify-axis-names", "axis names are not Mean / Amp", inp, [df.index.name, df.columns.name], ["Mean", "Amp"])
    for bb, lab in ((ab, list(map(str, df.columns))), (mb, list(map(str, df.index)))):
        if len(bb) > 1 and np.all(np.diff(bb) > 1.000001 * 10.0 ** -p) and len(set(lab)) != len(lab):
            ctx.fail("binify-labels-collide-on-wide-bins", "two bins wider than 10**-precision carry the same label", inp, lab, "distinct labels")


def _oracle_locate(ctx, y, tol):
    from pyyeti import locate

    v = np.array(y, dtype=float)
    inp = {"v": list(y), "tol": tol}
    if v.size >= 2:
        u = np.asarray(locate.find_unique(v, tol))
        d = np.diff(v)
        st = abs(tol * np.abs(d).max())
        want = [True] + [bool(abs(x) > st) for x in d]
        if u.dtype != bool or u.tolist() != want:
            ctx.fail("find-unique-mask-wrong" + ("-tol=0" if tol == 0 else "-step-equals-stol" if np.any(np.abs(d) == st) else ""),
                     "locate.find_unique: a value is flagged although it differs from the previous one by no more than tol*max|diff| (or not "
                     "flagged although it differs by more)", inp, u.tolist(), want)
    dd = np.asarray(locate.find_duplicates(v, tol))
    want = [any(j != k and abs(v[j] - v[k]) <= tol for j in range(v.size)) for k in range(v.size)]
    if dd.tolist() != want:
        ctx.fail("find-duplicates-wrong", "locate.find_duplicates: not 'True for any value repeated anywhere else (within tol)'", inp, dd.tolist(), want)


def _oracle_sigcount(ctx, y):
    from pyyeti import cyclecount

    yy = np.array(y)
    # sigcount = binify o rainflow o findap, with every option passed through
    rf = cyclecount.rainflow(yy[cyclecount.findap(yy)], use_pandas=False)
    for specs, right in (((3, 2), True), (([0.0, 1.0, 2.5, 80.0], 2), False)):
        a = cyclecount.sigcount(yy, specs[0], specs[1], right, 2, True, True)
        b = cyclecount.binify(rf, specs[0], specs[1], right, 2, True, True)
        same = (np.array_equal(np.asarray(a[0].values), np.asarray(b[0].values)) and list(a[0].columns) == list(b[0].columns)
                and list(a[0].index) == list(b[0].index) and np.array_equal(a[1], b[1]) and np.array_equal(a[2], b[2]))
        if not same:
            ctx.fail("sigcount-not-binify-of-rainflow-of-findap", "sigcount(sig, ...) differs from binify(rainflow(sig[findap(sig)]), ...)",
                     {"y": list(y), "ampbins": specs[0], "meanbins": specs[1], "right": right},
                     str(np.asarray(a[0].values).tolist())[:200], str(np.asarray(b[0].values).tolist())[:200])
            return
    T = cyclecount.sigcount(yy, 3, 2, use_pandas=False)
    npk = int(np.count_nonzero(cyclecount.findap(yy)))
    if npk >= 2 and 2 * T.sum() != npk - 1:
        ctx.fail("sigcount-total", "sigcount table total is not (number of reversals - 1)/2", {"y": list(y)}, float(T.sum()), (npk - 1) / 2)


def search(ctx, hints):
    dflt, seq, _ = _variants(ctx)
    cases = []
    for h in hints[:60]:
        i = h.get("input", {})
        if isinstance(i, dict) and "y" in i and "tol" in i and all(isinstance(v, (int, float)) for v in i["y"]):
            cases.append((i["y"], i["tol"]))
    # regression guards for the repaired findings (must PASS on /repo; a revert of f8f6e40 / 4b29dcf makes them failing inputs)
    guards = [("FIXED_F4", [float(v) for v in list(range(0, 1001)) + [0]], 0.01), ("FIXED_F4", [0.0, 1.0, 2.0, 0.0], 0.51),
              ("FIXED_F14", [1.0, 1.0, 4.0], 1e-6), ("FIXED_F22", [-100.0, 0.0, 4.0, -4.0], 0.05),
              ("FIXED_F23", [0.0, 80.0, 83.0, 78.0, 160.0], 0.05), ("FIXED_F23", [1.0, 0.0, 2.0], 0.51),
              ("FIXED_F23(size 2, tol >= 1)", [3.0, 4.0], 1.5)]
    for name, y, tol in guards:
        ctx.count("guard:" + name)
        cases.append((y, tol))
    for L in range(1, 6):
        for s in itertools.product(range(4), repeat=L):
            for tol in (1e-6, 0.5):
                cases.append(([float(v) for v in s], tol))
    cases += [(y, tol) for y, tol, _ in _gen_signals(ctx, ctx.pick(3000, 30000))]
    for y, tol in cases:
        ctx.count("oracle:findap")
        _oracle_findap(ctx, dflt, seq, y, tol)
    for h in hints[:60]:
        i = h.get("input", {})
        if isinstance(i, dict) and i.get("kind") == "bn":
            _oracle_binify(ctx, [tuple(c) for c in i["data"]], i["right"], i["check_bounds"], [i["ampbins"], i["meanbins"]])
        if isinstance(i, dict) and "cycles" in i and "bins_range" in i:
            _oracle_binify(ctx, [tuple(c) for c in i["cycles"]], i["right"], True, [i["bins_range"], i["bins_mean"]])
    for cyc, right, check, specs in _bin_cases(ctx, ctx.pick(1500, 15000)):
        ctx.count("oracle:binify")
        _guard(ctx, "binify", {"cycles": cyc, "right": right, "check_bounds": check, "ampbins": specs[0], "meanbins": specs[1]},
               _oracle_binify, ctx, cyc, right, check, specs)
    for kind, data, right, check, p, retbins, pandas_, specs, _ in _pack_cases(ctx, ctx.pick(400, 4000)):
        if kind != "bx":
            continue
        ctx.count("oracle:binify-packaging")
        _guard(ctx, "binify", {"cycles": data, "right": right, "check_bounds": check, "precision": p, "ampbins": specs[0], "meanbins": specs[1]},
               _oracle_packaging, ctx, data, right, check, p, specs)
    for y, tol, _ in _locate_cases(ctx, ctx.pick(400, 4000)):
        ctx.count("oracle:locate")
        _guard(ctx, "locate", {"v": y, "tol": tol}, _oracle_locate, ctx, y, tol)
    for h in hints[:60]:
        i = h.get("input", {})
        if isinstance(i, dict) and "bins" in i and "data" in i:
            _guard(ctx, "getbins", i, _oracle_autobins, ctx, i["bins"], i["data"], i["right"])
    for nb, data, right, _ in _autobin_cases(ctx, ctx.pick(400, 4000)):
        ctx.count("oracle:autobins")
        _guard(ctx, "getbins", {"bins": nb, "data": data, "right": right}, _oracle_autobins, ctx, nb, data, right)
    # data whose spread is below ~1e-13 of their magnitude (finding N4): means 1e6 .. 1e6 + 2e-8
    for right in (True, False):
        cyc = [(3.0, 1e6, 1.0), (5.0, 1e6 + 1e-8, 0.5), (4.0, 1e6 + 2e-8, 1.0)]
        ctx.count("oracle:autobins-tiny-spread")
        _guard(ctx, "binify", {"cycles": cyc, "right": right, "check_bounds": True, "ampbins": 2, "meanbins": 2},
               _oracle_binify, ctx, cyc, right, True, [2, 2])
    from pyyeti import cyclecount
    for y, _, _ in _gen_signals(ctx, ctx.pick(300, 3000)):
        if len(y) < 3 or len(set(y)) < 2:
            continue
        ctx.count("oracle:sigcount")
        _guard(ctx, "sigcount", {"y": y}, _oracle_sigcount, ctx, y)
    # FIXED_F25 (repair 4ed3a4d): the recorded input
    ctx.count("guard:FIXED_F25")
    g_sig, g_opts = np.random.default_rng(0).standard_normal(1500), dict(resp="pvelo", nbins=16, hpfilter=None, winends=None, T0=60.0)
    _guard(ctx, "fdepsd", {"sr": 200.0, "freq": [10.0, 17.0, 25.0], "Q": 12, "sig": g_sig.tolist(), "opts": g_opts},
           _oracle_fdepsd, ctx, g_sig, 200.0, np.array([10.0, 17.0, 25.0]), 12, g_opts)
    for sig, sr, freq, Q, opts in _fde_grid(ctx, ctx.pick(16, 120), 11):
        ctx.count("oracle:fdepsd")
        _guard(ctx, "fdepsd", {"sr": sr, "freq": list(map(float, freq)), "Q": Q, "sig": np.asarray(sig).tolist(),
                               "opts": {k: (v if not isinstance(v, np.generic) else v.item()) for k, v in opts.items()}},
               _oracle_fdepsd, ctx, sig, sr, freq, Q, opts)
    for sig, nb in _exact_signals(ctx, ctx.pick(150, 1500), 13):
        ctx.count("oracle:fdepsd-exact")
        _guard(ctx, "fdepsd", {"exact_sig": sig.tolist(), "nbins": nb}, _oracle_fdepsd_exact, ctx, sig, nb)
    # keep one representative per family (the runner prints one line per family)
    seen, keep = set(), []
    for f in ctx.failures:
        if f["family"] not in seen:
            seen.add(f["family"])
            keep.append(f)
    ctx.failures[:] = keep


def replay(ctx, data):
    f = data["failure"]
    i = f["input"]
    dflt, seq, _ = _variants(ctx)
    if "y" in i and "tol" in i:
        _oracle_findap(ctx, dflt, seq, i["y"], i["tol"])
    elif "bins" in i and "data" in i:
        _guard(ctx, "getbins", i, _oracle_autobins, ctx, i["bins"], i["data"], i["right"])
    elif "cycles" in i and "precision" in i:
        _guard(ctx, "binify", i, _oracle_packaging, ctx, [tuple(c) for c in i["cycles"]], i["right"], i["check_bounds"], i["precision"],
               [i["ampbins"], i["meanbins"]])
    elif "v" in i and "tol" in i:
        _guard(ctx, "locate", i, _oracle_locate, ctx, i["v"], i["tol"])
    elif "cycles" in i:
        _guard(ctx, "binify", i, _oracle_binify, ctx, [tuple(c) for c in i["cycles"]], i["right"], i["check_bounds"], [i["ampbins"], i["meanbins"]])
    elif "exact_sig" in i:
        _guard(ctx, "fdepsd", i, _oracle_fdepsd_exact, ctx, i["exact_sig"], i["nbins"])
    elif "sig" in i:
        _guard(ctx, "fdepsd", i, _oracle_fdepsd, ctx, np.array(i["sig"]), i["sr"], np.array(i["freq"]), i["Q"], i["opts"])
    elif "y" in i:
        _guard(ctx, "sigcount", i, _oracle_sigcount, ctx, i["y"])
    for g in ctx.failures:
        if g["family"] == f["family"]:
            return g
    return ctx.failures[0] if ctx.failures else None
