"""C08 — the step-wise generator equals the batch solution for any send history
(DESIGN.md section 6/C08).

Tie: correspondence over HISTORIES and over CALL SEQUENCES.  The real generators of /repo (SolveUnc
real-uncoupled, SolveUnc complex-coupled, SolveUnc(cd_as_force=True), SolveCDF, SolveExp2) and
their statement-by-statement Lean transcriptions (lean/PyYetiVerif/Model/GenMachineInst.lean:
`uncStepApi`, `exp2StepApi`, `cplxStepApi`; Model/GenMachine.lean: `cdfStepApi` with its hidden
cache) are driven by the same request lists.  The Lean side gets the configuration (partition,
m / b / k, d0 / v0 / static_ic, F0) and the solver's stored integration coefficients and computes
everything else itself: the first column (`initDvaPart`, `initDva`), every request, `finalize`
(`eomAcc`, `finalizeRec`), whole call sequences on one object (`objRun`), `get_f2x` (`apiF2x` of
the generator's own one-step map).  Streams:

  hist  after EVERY request the column written (d, v, the rows of a the generator writes, Force),
        the cd-as-force generator's hidden locals, the error kind of refused requests — bit for
        bit on the real-uncoupled generator (elementwise arithmetic only), Force always bit for
        bit, otherwise 1e-9 of scale (BLAS / LAPACK summation order);
  ic    the first column of d, v through generator() and through tsolve() for every option
        combination d0 x v0 x static_ic and several F0 (generic, zero on the elastic rows, zero,
        dyadic) — bit for bit for the uncoupled solvers;
  api   call sequences on ONE solver object (generator() twice, generator / tsolve / resume,
        finalize twice, finalize of partial histories, get_f2x around generator(), a generator
        resumed after finalize, a generator killed by a refused request): every answer compared;
  f2x   get_f2x against `apiF2x`.

Model-free oracle (`search`): generator vs batch `tsolve` of the force history in effect after
every request, `finalize` vs batch, the equation of motion / static rf rows / zero unvisited
columns on EVERY column of a finalized record, the first column against the documented meaning
of d0 / v0 / static_ic, call sequences on one object against the same work on fresh objects,
`get_f2x` vs the change a unit add-on produces.
"""
import itertools
import json
import struct
import warnings
from types import SimpleNamespace

import numpy as np

from runner import Infra, TieBroken

ID = "C08"
LEAN_MODULES = ["PyYetiVerif.Props.C08", "PyYetiVerif.Props.C08Init", "PyYetiVerif.Props.C08Inst",
                "PyYetiVerif.Props.C08Api", "PyYetiVerif.Props.C08Branches", "PyYetiVerif.Audit.C08"]
AUDIT_FILE = "PyYetiVerif/Audit/C08.lean"
THEOREMS = [
    "PyYetiVerif.C08." + n
    for n in (
        "gen_invariant visible_eq_batch history_independent finalize_eq_batch f2x_is_unit_addon f2x_order0 "
        "api_refines cdf_cache_sound cdf_eq_batch cdf_alpha_identity "
        # initial conditions and finalize (Props/C08Init.lean)
        "first_column_cases gen_first_column_eq_batch gen_start_eq_batch_start static_ic_is_equilibrium "
        "static_ic_zero_accel gen_eq_tsolve_all_options rf_rows_static_every_step finalize_accel_eom "
        "finalize_accel_eom_cdf finalize_accel_rb finalize_partial_history "
        # the concrete generators are one-step machines (Props/C08Inst.lean)
        "unc_step_is_instance exp2_step_is_instance exp2Lin_addOn exp2_gen_eq_batch complex_step_is_instance "
        "cplxLin_addOn complex_gen_eq_batch complex_recovery_is_real_part conj_pair_sum_real "
        # call sequences on one object (Props/C08Api.lean)
        "api_sequence_refines spec_finalize_is_tsolve latest_generator_wins second_finalize_fails "
        "resumed_generator_unaffected "
        # the generated branch table (Props/C08Branches.lean)
        "generated_branches_ok request_writes_own_column"
    ).split()
]
TRUSTED = [
    "correspondence harness harness/props/c08.py: hands the Lean driver the configuration and the "
    "solver's stored integration coefficients (pc.F..Bp, pc.alpha, bo / pc.Fe, Ae, Be, ur_inv_*, "
    "rur_*, iur_* / E_dd..E_vv, P, Q); the coefficients themselves are C01/C07's subject, not C08's",
    "lean/Drivers/C08.lean instantiates the abstract coefficient maps with Float arrays in the "
    "operation order of the source (diagonal scalings, row-major matrix products, Gaussian "
    "elimination with partial pivoting for np.linalg.solve / lu_solve)",
    "additivity of the coefficient maps (they are scalings / matrix products) and `solve` solving: "
    "hypotheses of the theorems; IEEE round-off is measured (1e-9 of scale; bit for bit on the "
    "real-uncoupled generator, the first column of the uncoupled solvers and the Force array)",
    "la.solve for alpha = bo (I + Bp bo)^-1: the identity bo (I - Bp alpha) = alpha assumed by "
    "cdf_cache_sound is re-measured on every cd-as-force case (residual <= 1e-10 of scale)",
    "reading generator locals dmpfrc1 / i_last through gen.gi_frame.f_locals (skipped and "
    "counted if the names disappear)",
    "translator harness/translate/c08_branches.py (Python ast, no execution): which generator "
    "branch writes which array at which index",
]
RULE = (
    "a case is one (solver configuration, request list) or (configuration, API call list) or "
    "(configuration, option combination, F0): random valid histories of length <= 60 (advance, repeat "
    "the current step, jump back, add-ons incl. after redo) on nt in 4..14, all valid request lists up "
    "to a bounded length on a 3-step horizon, a malformed stream (add-on first, i >= nt, i = 0, skipped "
    "steps); every option combination d0 None/given x v0 None/given x static_ic False/True with F0 "
    "generic / zero on the elastic rows / zero / dyadic through generator() and through tsolve(); API "
    "call lists of eight shapes on one object (generator twice, generator-tsolve-resume, finalize "
    "twice, finalize of a partial history, get_f2x around generator(), resume after finalize, a "
    "generator killed by a refused request, random interleavings of up to three generators); "
    "configurations cover SolveUnc real-uncoupled / complex-coupled / cd_as_force, SolveCDF, SolveExp2, "
    "order 0/1, rb / rf blocks, rf-only, m None / vector / full; non-trivial = the list contains a redo, "
    "a jump-back or an add-on (the repo's tests send strictly increasing indices), any option "
    "combination other than all-default, any API call list; distinct by (configuration, list)"
)
ASSUMPTIONS = [
    "get_f2x for the zero-order hold returns zeros by documented design (the static residual-flexibility "
    "response of an order-0 add-on is not reported); the unit-add-on statement is for order 1",
    "generator limitations documented by pyyeti hold: contiguous rb/el/rf blocks (slices), no pre_eig",
    "systems are inside the solvers' conditioning domain (eig_success, distinct roots); others are skipped and counted",
    "real equations of motion (systype float); nt >= 2 (for nt = 1 the generator function stops at a bare `yield`)",
    "one solver object serves ONE live generator as far as finalize() is concerned: finalize() reports the "
    "generator created last (theorem latest_generator_wins names the interleaving); the record finalize "
    "returns aliases the generator's arrays, so a generator resumed after finalize() changes sol.d / sol.v / "
    "sol.force but not sol.a (observed, not modelled: the model's records are values)",
]
PARTIAL = ""
MANIFEST = {
    "level_text": "proof",
    "level_note": (
        "machine-checked: invariant / batch equality / finalize / unit add-on for every valid "
        "history of the abstract one-step machine; the real-uncoupled, SolveExp2 (E, P, Q) and "
        "complex-modal generators transcribed statement by statement ARE such machines; cache "
        "soundness of the cd-as-force generator for every request list; the first column for every "
        "option combination (generator() and tsolve() start alike, static_ic is the elastic "
        "equilibrium, rf rows static at every step); finalize: M a + B v + K d = F in every column, "
        "partial histories (nothing truncated, stale columns left in place, zeros beyond the largest "
        "index sent); every admissible interleaving of generator() / send / tsolve() / finalize() / "
        "get_f2x() on one object answers like independent pure histories, finalize() reporting the "
        "generator created last.  Tied, not proved: that the Python statements are the transcribed "
        "ones (per-request correspondence, bit for bit where the arithmetic is elementwise; branch "
        "table regenerated from the source by ast), IEEE round-off, LAPACK solves"
    ),
    "technique": "Lean 4 proof by induction over request lists and call lists + history / call-sequence correspondence + ast translator",
}



def translate(ctx):
    """regenerate the branch table of the generator functions from the source (ast, no execution)"""
    from translate import c08_branches

    c08_branches.generate(ctx.repo, ctx.lean)
    return ["GenMachineBranches.lean"]


KINDS = ("unc", "cplx", "cdf_flag", "cdf", "exp2")
TOL = 1e-9
_DEV = {"model": 0.0, "batch": 0.0}  # largest |difference| / scale seen (head-room under TOL)


def _dev(which, diff, scale):
    if np.size(diff):
        r = float(np.max(np.abs(diff) / scale))
        if r == r and r > _DEV[which]:
            _DEV[which] = r


# ---------------------------------------------------------------------------------------
# configurations


def _mk_spec(rng, kind, order, nrb, nel, nrf, mstyle, ic, hstep=None, explicit_rb=False):
    """JSON-able description of one solver configuration; DOF order rb, el, rf."""
    n = nrb + nel + nrf
    h = hstep or rng.choice([0.005, 0.01, 0.02])
    mass = [round(rng.uniform(0.5, 3.0), 3) for _ in range(n)]
    if mstyle == "none":
        mass = [1.0] * n
    # distinct elastic frequencies 2..20 Hz
    freqs = sorted(rng.sample([2.0, 3.5, 5.0, 7.0, 9.5, 12.0, 15.0, 19.0], nel))
    zetas = [rng.choice([0.01, 0.03, 0.1, 0.3]) for _ in range(nel)]
    if kind in ("unc",) and nel and rng.random() < 0.35:
        zetas[rng.randrange(nel)] = rng.choice([1.0, 2.0])  # critically / over-damped
    k = [0.0] * nrb
    b = [0.0] * nrb
    for j in range(nel):
        w = 2 * np.pi * freqs[j]
        mm = mass[nrb + j]
        k.append(mm * w * w)
        b.append(2 * zetas[j] * mm * w)
    for j in range(nrf):
        k.append(rng.choice([4.0e5, 1.0e6, 2.5e6]))
        b.append(0.0)
    K = np.diag(k)
    B = np.diag(b)
    M = np.diag(mass)
    el = list(range(nrb, nrb + nel))
    rf = list(range(nrb + nel, n))
    coupled = {"b": False, "k": False, "m": False}
    if kind in ("cplx", "cdf", "cdf_flag", "exp2") and nel >= 2 or kind in ("cdf", "cdf_flag"):
        pool = list(el)
        if kind in ("cdf", "cdf_flag") and nrb and rng.random() < 0.5:
            pool = list(range(nrb + nel))  # damping may also couple the rigid-body rows
            for j in range(nrb):
                B[j, j] = 0.3 * rng.uniform(0.5, 1.5)
        for a_ in pool:
            for c_ in pool:
                if a_ < c_ and rng.random() < 0.8:
                    s = np.sqrt(max(B[a_, a_], 0.05) * max(B[c_, c_], 0.05))
                    B[a_, c_] = B[c_, a_] = rng.choice([-1, 1]) * rng.uniform(0.05, 0.3) * s
        coupled["b"] = bool(np.any(B - np.diag(np.diag(B))))
    if kind in ("cplx", "exp2") and nel >= 2 and rng.random() < 0.5:
        for a_ in el:
            for c_ in el:
                if a_ < c_:
                    s = np.sqrt(K[a_, a_] * K[c_, c_])
                    K[a_, c_] = K[c_, a_] = rng.choice([-1, 1]) * rng.uniform(0.02, 0.1) * s
        coupled["k"] = True
    if kind in ("cplx", "exp2") and mstyle == "full":
        for blk in (list(range(nrb)), el):
            for a_ in blk:
                for c_ in blk:
                    if a_ < c_:
                        s = np.sqrt(M[a_, a_] * M[c_, c_])
                        M[a_, c_] = M[c_, a_] = rng.choice([-1, 1]) * rng.uniform(0.02, 0.15) * s
        coupled["m"] = True
    if kind in ("cplx", "exp2") and nrf == 2 and rng.random() < 0.5 and (coupled["b"] or coupled["k"] or coupled["m"]):
        K[rf[0], rf[1]] = K[rf[1], rf[0]] = 0.1 * np.sqrt(K[rf[0], rf[0]] * K[rf[1], rf[1]])
    if kind == "cplx" and not (coupled["b"] or coupled["k"] or coupled["m"]):
        # force the complex-eigenvalue path with an (uncoupled) 2-d system: one tiny coupling
        if nel >= 2:
            B[el[0], el[1]] = B[el[1], el[0]] = 0.05 * np.sqrt(B[el[0], el[0]] * B[el[1], el[1]])
            coupled["b"] = True

    def enc(A_, is_coupled):
        if is_coupled:
            return A_.tolist()
        d = np.diag(A_).tolist()
        return np.diag(d).tolist() if rng.random() < 0.2 else d

    spec = {
        "kind": kind,
        "order": order,
        "h": h,
        "n": n,
        "nrb": nrb,
        "nel": nel,
        "nrf": nrf,
        "m": None if mstyle == "none" else enc(M, coupled["m"]),
        "b": enc(B, coupled["b"]),
        "k": enc(K, coupled["k"]),
        "rb": (list(range(nrb)) if explicit_rb else None),
        "rf": rf,
        "ic": ic,
    }
    return spec


LAYOUTS = ("rb,el,rf", "el,rb,rf", "rf,rb,el", "rf,el,rb")  # orders that keep the non-rf rows contiguous


def _relayout(spec, layout):
    """the same system with its row blocks in another order (the generators need every partition
    and the non-rf rows contiguous; which block comes first is the caller's business)"""
    nrb, nel, nrf = spec["nrb"], spec["nel"], spec["nrf"]
    old = {"rb": list(range(nrb)), "el": list(range(nrb, nrb + nel)), "rf": list(range(nrb + nel, nrb + nel + nrf))}
    perm = []
    part = {}
    for name in layout.split(","):
        part[name] = list(range(len(perm), len(perm) + len(old[name])))
        perm += old[name]
    ix = np.ix_(perm, perm)
    out = dict(spec)
    for key in ("m", "b", "k"):
        if spec[key] is None:
            continue
        a_ = np.array(spec[key], dtype=float)
        out[key] = (a_[perm] if a_.ndim == 1 else a_[ix]).tolist()
    out["rf"] = part["rf"]
    out["rb"] = part["rb"] if spec["rb"] is not None else None
    out["part"] = part
    out["layout"] = layout
    ic = spec["ic"]
    out["ic"] = {"d0": None if ic["d0"] is None else [ic["d0"][q] for q in perm],
                 "v0": None if ic["v0"] is None else [ic["v0"][q] for q in perm], "static": ic["static"]}
    return out


def _ic(rng, style, n):
    if style == "zero":
        return {"d0": None, "v0": None, "static": False}
    if style == "static":
        return {"d0": None, "v0": None, "static": True}
    if style == "d0v0":
        return {"d0": [rng.gauss(0, 0.01) for _ in range(n)], "v0": [rng.gauss(0, 0.5) for _ in range(n)], "static": bool(rng.random() < 0.3)}
    if style == "v0static":
        return {"d0": None, "v0": [rng.gauss(0, 0.5) for _ in range(n)], "static": True}
    if style == "v0":  # an initial velocity only: nothing else makes the solver apply the initial conditions
        return {"d0": None, "v0": [rng.gauss(0, 0.5) for _ in range(n)], "static": False}
    if style == "d0static":
        return {"d0": [rng.gauss(0, 0.01) for _ in range(n)], "v0": None, "static": True}
    return {"d0": [rng.gauss(0, 0.01) for _ in range(n)], "v0": None, "static": False}


def _configs(ctx, count):
    """A covering set first (every kind x order with rb+rf, m none/given, static/d0v0), then random."""
    rng = ctx.rng
    out = []
    base = []
    for kind in KINDS:
        for order in (1, 0):
            base.append((kind, order, 1, 2, 1, "vec", "static"))
            base.append((kind, order, 0, 2, 0, "none", "d0v0"))
    base.append(("unc", 1, 0, 0, 2, "vec", "zero"))   # rf-only: `if not self.ksize` branch
    base.append(("exp2", 1, 0, 0, 2, "none", "zero"))
    base.append(("cdf", 1, 0, 0, 1, "vec", "zero"))
    base.append(("cplx", 1, 2, 2, 2, "full", "v0static"))
    base.append(("exp2", 1, 1, 3, 2, "full", "d0"))
    base.append(("cplx", 0, 1, 3, 0, "full", "d0v0"))
    for kind in KINDS:  # every option combination of the initial conditions that is not covered above, on every solver
        base.append((kind, 1, 1, 2, 1, "vec", "v0"))
        base.append((kind, 0, 0, 2, 0, "none", "v0"))
        base.append((kind, 1, 1, 2, 0, "full", "d0static"))
    for bi, (kind, order, nrb, nel, nrf, ms, ic) in enumerate(base):
        n = nrb + nel + nrf
        out.append(_mk_spec(rng, kind, order, nrb, nel, nrf, ms, _ic(rng, ic, n)))
        if bi % 2 == 0:
            out[-1]["usage"] = {"f2x_first": True, "f0_dtype": ("int64", "float32", "float64")[(bi // 2) % 3]}
    # the row blocks in every order that keeps the non-rf rows contiguous, on every solver
    for ki, kind in enumerate(KINDS):
        for li, layout in enumerate(LAYOUTS[1:]):
            sp = _mk_spec(rng, kind, (ki + li) % 2, 1 + (li % 2), 2, 1 + ((ki + li) % 2), ("vec", "full", "none")[(ki + li) % 3],
                          _ic(rng, ("static", "v0static", "d0v0")[li], 1 + (li % 2) + 2 + 1 + ((ki + li) % 2)),
                          explicit_rb=(li == 1))
            out.append(_relayout(sp, layout))
    while len(out) < count:
        kind = rng.choice(KINDS)
        order = rng.choice([0, 1, 1])
        nrb = rng.choice([0, 0, 1, 2])
        nel = rng.choice([1, 2, 2, 3])
        nrf = rng.choice([0, 0, 1, 2])
        ms = rng.choice(["none", "vec", "vec", "full"])
        ic = rng.choice(["zero", "static", "d0v0", "v0static", "d0", "v0", "v0", "d0static"])
        out.append(_mk_spec(rng, kind, order, nrb, nel, nrf, ms, _ic(rng, ic, nrb + nel + nrf),
                            explicit_rb=(rng.random() < 0.3)))
        if rng.random() < 0.45:
            out[-1]["usage"] = {"f2x_first": rng.random() < 0.6,
                                "f0_dtype": rng.choice(["float64", "int64", "float32"])}
        if rng.random() < 0.3:
            out[-1] = _relayout(out[-1], rng.choice(LAYOUTS[1:]))
    return out


_PROTO = {}


def _build(spec):
    """a fresh solver for the configuration (deep copy of a pristine instance built once)"""
    import copy

    key = json.dumps(spec, sort_keys=True)
    if key not in _PROTO:
        if len(_PROTO) > 4000:
            _PROTO.clear()
        _PROTO[key] = _build_new(spec)
    return copy.deepcopy(_PROTO[key])


def _build_new(spec):
    from pyyeti import ode

    m = None if spec["m"] is None else np.array(spec["m"], dtype=float)
    b = np.array(spec["b"], dtype=float)
    k = np.array(spec["k"], dtype=float)
    kw = dict(h=spec["h"], order=spec["order"])
    if spec["rb"] is not None:
        kw["rb"] = list(spec["rb"])
    if spec["rf"]:
        kw["rf"] = list(spec["rf"])
    kind = spec["kind"]
    with warnings.catch_warnings():
        warnings.simplefilter("ignore")
        if kind in ("unc", "cplx"):
            ts = ode.SolveUnc(m, b, k, **kw)
        elif kind == "cdf_flag":
            ts = ode.SolveUnc(m, b, k, cd_as_force=True, **kw)
        elif kind == "cdf":
            ts = ode.SolveCDF(m, b, k, **kw)
        else:
            ts = ode.SolveExp2(m, b, k, **kw)
    return ts


def _path(ts, spec):
    """which generator implementation the configuration reaches"""
    if spec["kind"] == "exp2":
        return "se2"
    if ts.unc and ts.systype is float:
        return "real-cdf" if ts.cdforces else "real-unc"
    return "complex"


def _well_conditioned(ts, spec):
    pc = getattr(ts, "pc", None)
    if spec["kind"] != "exp2" and pc is not None and hasattr(pc, "eig_success"):
        if not pc.eig_success:
            return False
    return bool(ts.slices)


def _ickw(spec):
    ic = spec["ic"]
    d0 = None if ic["d0"] is None else np.array(ic["d0"], dtype=float)
    v0 = None if ic["v0"] is None else np.array(ic["v0"], dtype=float)
    return dict(d0=d0, v0=v0, static_ic=bool(ic["static"]))


# ---------------------------------------------------------------------------------------
# histories


def _force(rng, n):
    if rng.random() < 0.18:
        # SPARSE force vectors: exactly zero except on 0, 1 or 2 coordinates (a unit load on one equation - e.g. a
        # residual-flexibility one - and nothing on the others; an all-zero add-on after bodies have separated)
        f = [0.0] * n
        for j in rng.sample(range(n), min(n, rng.choice([0, 1, 1, 2]))):
            f[j] = rng.choice([1.0, -1.0, 10.0 * rng.gauss(0, 1)])
        return f
    return [rng.choice([1.0, 10.0, 100.0]) * rng.gauss(0, 1) for _ in range(n)]


def _random_history(rng, n, nt, length, finish):
    """valid request list; -1 = add-on"""
    ops = []
    cur = 0
    tags = set()
    redone = False
    for _ in range(length):
        r = rng.random()
        if cur == 0 or (r < 0.45 and cur + 1 < nt):
            i = cur + 1
            redone = False
        elif r < 0.62:
            i = cur
            tags.add("repeat")
            redone = True
        elif r < 0.80 and cur >= 2:
            i = rng.randint(1, cur - 1)
            tags.add("jumpback")
            redone = True
        elif r < 0.80 or cur + 1 >= nt and r < 0.85:
            i = cur
            tags.add("repeat")
            redone = True
        else:
            ops.append([-1, _force(rng, n)])
            tags.add("addon")
            if redone:
                tags.add("addon-after-redo")
            continue
        ops.append([i, _force(rng, n)])
        cur = i
    if finish:
        while cur + 1 < nt:
            cur += 1
            ops.append([cur, _force(rng, n)])
            if rng.random() < 0.2:
                ops.append([-1, _force(rng, n)])
                tags.add("addon")
    return ops, tags


def _valid(ops, nt):
    cur = 0
    for i, _ in ops:
        if i < 0:
            if cur < 1:
                return False
        else:
            if not (1 <= i <= cur + 1 and i < nt):
                return False
            cur = i
    return True


def _tags(ops):
    cur = 0
    tags = set()
    redone = False
    for i, _ in ops:
        if i < 0:
            tags.add("addon")
            if redone:
                tags.add("addon-after-redo")
        else:
            if i == cur and cur > 0:
                tags.add("repeat")
                redone = True
            elif i < cur:
                tags.add("jumpback")
                redone = True
            elif i > cur + 1 or i == 0:
                tags.add("malformed")
            else:
                redone = False
            cur = i
    return tags


def _enumerated(nt, maxlen):
    """all valid request shapes up to maxlen on indices 1..nt-1 (index -1 = add-on)"""
    out = []

    def rec(prefix, cur):
        if prefix:
            out.append(list(prefix))
        if len(prefix) == maxlen:
            return
        for i in range(1, min(cur + 1, nt - 1) + 1):
            rec(prefix + [i], i)
        if cur >= 1:
            rec(prefix + [-1], cur)

    rec([], 0)
    return out


# ---------------------------------------------------------------------------------------
# running the real generator


class _Run:
    """Drive the real generator with a request list, snapshotting after every request."""

    def __init__(self, spec, nt, f0):
        self.spec = spec
        self.ts = _build(spec)
        self.nt = nt
        self.f0 = np.array(f0, dtype=float)
        usage = spec.get("usage") or {}
        # how the caller uses the object (none of this may change any result):
        #  * get_f2x asked for BEFORE the generator is started (the usual Henkel-Mar order), on this very object
        #  * the initial force vector handed over as an integer or single-precision array
        if usage.get("f2x_first"):
            g = np.random.default_rng(7)
            phi = g.normal(size=(2, spec["n"]))
            with warnings.catch_warnings():
                warnings.simplefilter("ignore")
                for velo in (False, True, False):
                    self.ts.get_f2x(phi, velo)
        f0arg = self.f0.copy()
        if usage.get("f0_dtype") == "int64":
            f0arg = np.round(self.f0).astype(np.int64)
            self.f0 = f0arg.astype(float)  # (not np.round(f0): that keeps -0.0)
        elif usage.get("f0_dtype") == "float32":
            f0arg = self.f0.astype(np.float32)
            self.f0 = f0arg.astype(float)
        with warnings.catch_warnings():
            warnings.simplefilter("ignore")
            self.gen, self.d, self.v = self.ts.generator(nt, f0arg, **_ickw(spec))
        self.path = _path(self.ts, spec)

    def hidden(self):
        fr = self.gen.gi_frame
        if fr is None:
            return None
        loc = fr.f_locals
        if "dmpfrc1" in loc and "i_last" in loc:
            return np.array(loc["dmpfrc1"], dtype=float).copy(), int(loc["i_last"])
        return None

    def send(self, i, f):
        """returns None or the error kind"""
        try:
            self.gen.send((i, np.array(f, dtype=float)))
        except UnboundLocalError:
            return "err:unbound"
        except IndexError:
            return "err:index"
        except StopIteration:
            return "err:stop"
        except Exception as e:  # any other refusal
            return "err:" + type(e).__name__
        return None


def _hex(x):
    return struct.pack(">d", float(x)).hex()


def _hexs(a):
    return " ".join(_hex(x) for x in np.asarray(a, dtype=float).ravel())


def _unhex(tok):
    return struct.unpack(">d", bytes.fromhex(tok))[0]


# ---------------------------------------------------------------------------------------
# requests for the Lean driver (lean/Drivers/C08.lean): everything the model needs is taken from
# the configuration (partition, m / b / k blocks, options) and from the solver's stored
# integration coefficients; the model computes the first column, every step, finalize itself


def _mats(spec):
    n = spec["n"]

    def full(x):
        a_ = np.array(x, dtype=float)
        return np.diag(a_) if a_.ndim == 1 else a_

    M = np.eye(n) if spec["m"] is None else full(spec["m"])
    return M, full(spec["b"]), full(spec["k"])


def _part(spec):
    if spec.get("part"):
        pt = spec["part"]
        return np.array(pt["rb"], dtype=int), np.array(pt["el"], dtype=int), np.array(pt["rf"], dtype=int)
    nrb, nel, nrf = spec["nrb"], spec["nel"], spec["nrf"]
    rb = np.arange(0, nrb)
    el = np.arange(nrb, nrb + nel)
    rf = np.arange(nrb + nel, nrb + nel + nrf)
    return rb, el, rf


def _nonrf(spec):
    rb, el, _ = _part(spec)
    return np.sort(np.concatenate((rb, el)))


def _partition_ok(ts, spec):
    """the partition the solver made is the one the configuration was built with"""
    rb, el, rf = _part(spec)
    ar = np.arange(spec["n"])
    try:
        return (np.array_equal(ar[ts.rb], rb) and np.array_equal(ar[ts.el], el) and np.array_equal(ar[ts.rf], rf))
    except Exception:
        return False


def _part_block(spec):
    rb, el, rf = _part(spec)
    return " ".join(str(x) for x in [rb.size, el.size, rf.size] + rb.tolist() + el.tolist() + rf.tolist())


def _icenv_block(ts, spec):
    _, _, K = _mats(spec)
    rb, el, rf = _part(spec)
    if ts.unc:
        return " ".join(p for p in ("u", _hexs(np.diag(K)[el]), _hexs(np.diag(K)[rf])) if p)
    return " ".join(p for p in ("c", _hexs(K[np.ix_(el, el)]), _hexs(K[np.ix_(rf, rf)])) if p)


def _opts_block(ic):
    parts = ["1" if ic["static"] else "0"]
    for key in ("d0", "v0"):
        if ic[key] is None:
            parts.append("0")
        else:
            parts.append("1 " + _hexs(ic[key]))
    return " ".join(parts)


def _cx(a):
    a = np.asarray(a, dtype=complex)
    return " ".join(p for p in (_hexs(a.real), _hexs(a.imag)) if p)


def _mass_block(spec, rows, unc):
    if spec["m"] is None or rows.size == 0:
        return "n"
    M, _, _ = _mats(spec)
    if unc:
        return "d " + _hexs(np.diag(M)[rows])
    return "f " + _hexs(M[np.ix_(rows, rows)])


def _solver_block(ts, spec, path, nt):
    """SOLVER block: the integration coefficients as stored on the solver object (they are C01's and
    C07's subject), mass blocks from the configuration"""
    rb, el, rf = _part(spec)
    nonrf = _nonrf(spec)
    order = ts.order
    if path in ("real-unc", "real-cdf"):
        parts = ["unc" if path == "real-unc" else "cdf", str(order), str(nt)]
        if nonrf.size:
            pc = ts.pc
            parts += [_hexs(x) for x in (pc.F, pc.G, pc.A, pc.B, pc.Fp, pc.Gp, pc.Ap, pc.Bp)]
            if path == "real-cdf":
                parts += [_hexs(pc.alpha), _hexs(ts.bo)]
        return " ".join(p for p in parts if p)
    if path == "se2":
        parts = ["exp2", str(order), str(nt)]
        if nonrf.size:
            Q = ts.Q if np.ndim(ts.Q) == 2 else np.zeros_like(ts.P)  # order 0: getEPQ returns no Q matrix
            parts += [_hexs(x) for x in (ts.E_dd, ts.E_dv, ts.E_vd, ts.E_vv, ts.P, Q)]
        parts.append(_mass_block(spec, nonrf, ts.unc))
        return " ".join(p for p in parts if p)
    pc = ts.pc
    ny = int(pc.Fe.size)
    parts = ["cpx", str(order), str(nt), str(ny)]
    if rb.size:
        parts.append(_hexs([pc.G, pc.A, pc.Ap]))
    else:
        parts.append(_hexs([0.0, 0.0, 0.0]))
    parts.append(_mass_block(spec, rb, ts.unc))
    parts.append(_mass_block(spec, el, ts.unc))
    parts += [_cx(pc.Fe), _cx(pc.Ae), _cx(pc.Be), _cx(pc.ur_inv_v), _cx(pc.ur_inv_d),
              _hexs(pc.rur_d), _hexs(pc.iur_d), _hexs(pc.rur_v), _hexs(pc.iur_v)]
    return " ".join(p for p in parts if p)


def _eom_block(ts, spec, path):
    rb, el, rf = _part(spec)
    kd = el if path == "complex" else _nonrf(spec)
    M, B, K = _mats(spec)
    hasm = spec["m"] is not None
    if ts.unc and not ts.cdforces:
        parts = ["u", "1" if hasm else "0"] + ([_hexs(np.diag(M)[kd])] if hasm else []) + [_hexs(np.diag(B)[kd]), _hexs(np.diag(K)[kd])]
    else:
        ix = np.ix_(kd, kd)
        parts = ["c", "1" if hasm else "0"] + ([_hexs(M[ix])] if hasm else []) + [_hexs(B[ix]), _hexs(K[ix])]
    return " ".join(p for p in parts if p)


def _ops_tokens(ops):
    toks = []
    for i, f in ops:
        if i < 0:
            toks.append("a " + _hexs(f))
        else:
            toks.append("s %d %s" % (i, _hexs(f)))
    return " ".join(toks)


def _pristine(spec):
    """the solver as constructed, never used: the model's coefficients are read off THIS object, so
    a call that changes stored coefficients (get_f2x, generator, tsolve, finalize) cannot go unnoticed"""
    _build(spec)
    return _PROTO[json.dumps(spec, sort_keys=True)]


def _prefix(run):
    return " ".join([_part_block(run.spec), _icenv_block(run.ts, run.spec)])


def _hist_request(run, ops):
    return " ".join(p for p in ["hist", _prefix(run), _solver_block(_pristine(run.spec), run.spec, run.path, run.nt),
                                _opts_block(run.spec["ic"]), _hexs(run.f0), _ops_tokens(ops)] if p)


def _floats(toks):
    return np.array([_unhex(x) for x in toks], dtype=float)


def _decode_hist(rep, n, k, cdf):
    out = []
    if rep == "":
        return out
    for rec in rep.split(";"):
        if rec.startswith("err:") or rec == "bad-op":
            out.append(rec)
            continue
        t = rec.split()
        r = dict(col=int(t[0]), d=_floats(t[1:1 + n]), v=_floats(t[1 + n:1 + 2 * n]),
                 a=_floats(t[1 + 2 * n:1 + 3 * n]), f=_floats(t[1 + 3 * n:1 + 4 * n]))
        if cdf:
            r["dmp"] = _floats(t[1 + 4 * n:1 + 4 * n + k])
            r["ilast"] = int(t[-1])
        out.append(r)
    return out


def _drive(run, ops):
    """run the real generator; per request: error kind or the written column's content plus a
    frame check (no other column changed)"""
    ts = run.ts
    recs = [dict(col=0, dcol=run.d[:, 0].copy(), vcol=run.v[:, 0].copy(), fcol=ts._force[:, 0].copy(),
                 acol=ts._a[:, 0].copy(), hidden=run.hidden())]
    frame_bad = None
    if any(np.any(arr[:, 1:] != 0.0) for arr in (run.d, run.v, ts._force, ts._a)):
        frame_bad = "generator start: columns after the first are not zero"
    cur = None
    for i, f in ops:
        before = (run.d.copy(), run.v.copy(), ts._force.copy(), ts._a.copy())
        err = run.send(i, f)
        if err:
            recs.append(err)
            break
        if i >= 0:
            cur = i
        c = cur
        after = (run.d, run.v, ts._force, ts._a)
        for name, b_, a_ in zip(("d", "v", "force", "a"), before, after):
            mask = np.ones(run.nt, bool)
            mask[c] = False
            if b_[:, mask].tobytes() != a_[:, mask].tobytes():
                frame_bad = frame_bad or "request %r changed array %s outside column %d" % (i, name, c)
        recs.append(dict(col=c, dcol=run.d[:, c].copy(), vcol=run.v[:, c].copy(),
                         fcol=ts._force[:, c].copy(), acol=ts._a[:, c].copy(), hidden=run.hidden()))
    return recs, frame_bad


def _scales(run, sol):
    h = run.spec["h"]
    sd = float(np.abs(sol.d).max()) + h * float(np.abs(sol.v).max()) + h * h * float(np.abs(sol.a).max())
    sd = max(sd, 1e-300)
    return sd, sd / h, sd / (h * h)


def _same_bits(a, b):
    """bit patterns equal (+0.0 and -0.0 are told apart only where the values differ otherwise)"""
    a = np.asarray(a, dtype=float)
    b = np.asarray(b, dtype=float)
    return a.shape == b.shape and (a.tobytes() == b.tobytes() or np.array_equal(a, b))


def _vec_bad(impl, model, scale, exact):
    if impl.shape != model.shape:
        return True
    if exact:
        return not _same_bits(impl, model)
    _dev("model", impl - model, scale)
    return bool(np.any(np.abs(impl - model) > TOL * scale)) or not np.all(np.isfinite(impl))


def _compare_case(ctx, spec, nt, f0, ops, rep_line, run, recs, frame_bad, stream):
    """impl records vs Lean reply; reports disagreements; returns branch tags"""
    inp = {"spec": spec, "nt": nt, "f0": list(f0), "ops": ops, "check": "history"}
    n = spec["n"]
    cdf = run.path == "real-cdf"
    exact = run.path == "real-unc"  # elementwise arithmetic only: the model is bit-exact
    model = _decode_hist(rep_line, n, spec["nrb"] + spec["nel"], cdf)
    tags = set()
    if frame_bad:
        ctx.disagree(stream + ":frame", inp, frame_bad, "a request writes only its own column")
    if len(model) != len(recs):
        ctx.disagree(stream + ":length", inp, "%d records" % len(recs), "%d records" % len(model))
        return tags
    ts = run.ts
    try:
        sol = ts.finalize(get_force=True)
        sd, sv, sa = _scales(run, sol)
    except Exception as e:  # finalize must not fail
        ctx.disagree(stream + ":finalize", inp, repr(e), "a solution record")
        return tags
    # the scales come from the final solution; a history whose LAST sends are zero forces ends in a (nearly) zero solution
    # while earlier records were not small: take the largest magnitude met in any record as well
    for a_ in recs:
        if not isinstance(a_, str):
            sd = max(sd, float(np.abs(a_["dcol"]).max(initial=0.0)))
            sv = max(sv, float(np.abs(a_["vcol"]).max(initial=0.0)))
            sa = max(sa, float(np.abs(a_["acol"]).max(initial=0.0)))
    for step, (a_, m_) in enumerate(zip(recs, model)):
        if isinstance(a_, str) or isinstance(m_, str):
            if a_ != m_:
                ctx.disagree(stream + ":error-kind", dict(inp, step=step - 1), a_ if isinstance(a_, str) else "accepted",
                             m_ if isinstance(m_, str) else "accepted")
            else:
                tags.add(a_)
            continue
        if a_["col"] != m_["col"]:
            ctx.disagree(stream + ":column", dict(inp, step=step - 1), a_["col"], m_["col"])
            continue
        bad = None
        which = "first-column" if step == 0 else None
        if _vec_bad(a_["dcol"], m_["d"], sd, exact):
            bad = (which or "d", a_["dcol"].tolist(), m_["d"].tolist())
        elif _vec_bad(a_["vcol"], m_["v"], sv, exact):
            bad = (which or "v", a_["vcol"].tolist(), m_["v"].tolist())
        elif _vec_bad(a_["acol"], m_["a"], sa, exact):
            bad = ("static-rows", a_["acol"].tolist(), m_["a"].tolist())
        elif not _same_bits(a_["fcol"], m_["f"]):
            bad = ("force", a_["fcol"].tolist(), m_["f"].tolist())
        if bad:
            ctx.disagree(stream + ":" + bad[0] + (":bits" if exact else ""), dict(inp, step=step - 1), bad[1], bad[2])
            break
        if cdf:
            hid = a_["hidden"]
            if hid is None:
                ctx.skip("cdf hidden locals dmpfrc1/i_last not readable")
            else:
                if hid[1] != m_["ilast"]:
                    ctx.disagree(stream + ":i_last", dict(inp, step=step), hid[1], m_["ilast"])
                    break
                if np.any(np.abs(hid[0] - m_["dmp"]) > TOL * max(sv * float(np.abs(ts.bo).max()), 1e-300)):
                    ctx.disagree(stream + ":dmpfrc1", dict(inp, step=step), hid[0].tolist(), m_["dmp"].tolist())
                    break
    if exact:
        tags.add("exact:real-unc-bits")
    return tags


def _new_case(ctx, spec, nt, ops, f0=None):
    rng = ctx.rng
    f0 = f0 if f0 is not None else _force(rng, spec["n"])
    return dict(spec=spec, nt=nt, f0=f0, ops=ops)


def _cases(ctx):
    """(case, stream) list"""
    rng = ctx.rng
    cases = []
    specs = _configs(ctx, ctx.pick(300, 1500))
    ctx.extra["configurations"] = len(specs)
    for spec in specs:
        n = spec["n"]
        for _ in range(ctx.pick(4, 6)):
            nt = rng.randint(4, 14)
            ln = rng.choice([rng.randint(1, 12), rng.randint(10, 60)])
            ops, _ = _random_history(rng, n, nt, ln, finish=(rng.random() < 0.6))
            cases.append((_new_case(ctx, spec, nt, ops), "random"))
    # bounded enumeration on a 3-step horizon
    maxlen = ctx.pick(6, 7)
    shapes = _enumerated(4, maxlen)
    nspec = ctx.pick(10, 26)
    ctx.extra["exhaustive_set"] = (
        "all %d valid request lists of length <= %d over {send 1, send 2, send 3, add-on} on a "
        "3-step horizon (nt = 4), on %d covering configurations (every solver kind x order)" % (len(shapes), maxlen, nspec)
    )
    # one covering configuration per (kind, order) pair first
    for spec in (specs[:20:2] if not ctx.thorough else specs[:26])[:nspec]:
        for shape in shapes:
            ops = [[i, _force(rng, spec["n"])] for i in shape]
            cases.append((_new_case(ctx, spec, 4, ops), "enumerated"))
    # malformed stream
    for spec in specs[:20]:
        n = spec["n"]
        f = lambda: _force(rng, n)
        cases.append((_new_case(ctx, spec, 5, [[-1, f()], [1, f()]]), "malformed"))
        cases.append((_new_case(ctx, spec, 5, [[1, f()], [5, f()], [2, f()]]), "malformed"))
        cases.append((_new_case(ctx, spec, 5, [[1, f()], [-1, f()], [9, f()]]), "malformed"))
        cases.append((_new_case(ctx, spec, 5, [[1, f()], [2, f()], [0, f()], [-1, f()], [1, f()]]), "malformed"))
        cases.append((_new_case(ctx, spec, 6, [[1, f()], [3, f()], [-1, f()], [4, f()], [2, f()], [3, f()]]), "malformed"))
        cases.append((_new_case(ctx, spec, 6, [[2, f()], [-3, f()], [3, f()], [1, f()], [2, f()]]), "malformed"))
    return cases, specs


# ---- first column (initial conditions) ---------------------------------------------------

IC_STYLES = ("zero", "static", "d0", "v0", "d0v0", "d0static", "v0static", "d0v0static")


def _ic_full(rng, style, n):
    """every option combination d0 None/given x v0 None/given x static_ic False/True"""
    d0 = [rng.gauss(0, 0.01) for _ in range(n)] if "d0" in style else None
    v0 = [rng.gauss(0, 0.5) for _ in range(n)] if "v0" in style else None
    return {"d0": d0, "v0": v0, "static": style.endswith("static")}


def _ic_label(ic):
    return "d0=%d,v0=%d,static=%d" % (ic["d0"] is not None, ic["v0"] is not None, bool(ic["static"]))


def _f0_variants(rng, spec):
    """initial forces: generic; zero on the elastic rows (`F0[el].any()` False); all zero; dyadic"""
    n = spec["n"]
    rb, el, rf = _part(spec)
    gen = _force(rng, n)
    noel = list(gen)
    for j in el:
        noel[j] = 0.0
    dy = [rng.choice([-1, 1]) * rng.choice([0.5, 1.0, 2.0, 3.0, 0.25]) for _ in range(n)]
    return [("generic", gen), ("el-zero", noel), ("zero", [0.0] * n), ("dyadic", dy)]


def _ic_impl(spec, ic, f0, via):
    """first column of d, v through generator() or through tsolve()"""
    ts = _build(spec)
    kw = _ickw(dict(spec, ic=ic))
    with warnings.catch_warnings():
        warnings.simplefilter("ignore")
        if via == "gen":
            _, d, v = ts.generator(3, np.array(f0, dtype=float), **kw)
            return ts, d[:, 0].copy(), v[:, 0].copy()
        sol = ts.tsolve(np.array(f0, dtype=float)[:, None], **kw)
        return ts, np.asarray(sol.d)[:, 0].copy(), np.asarray(sol.v)[:, 0].copy()


def _ic_stream(ctx, drv, specs):
    rng = ctx.rng
    items = []
    reqs = []
    seen_kind = {}
    for spec in specs:
        key = (spec["kind"], spec["nrb"] > 0, spec["nrf"] > 0, spec["m"] is None, spec.get("layout", LAYOUTS[0]))
        if seen_kind.get(key, 0) >= ctx.pick(2, 6):
            continue
        seen_kind[key] = seen_kind.get(key, 0) + 1
        proto = _build(spec)
        if not _well_conditioned(proto, spec):
            continue
        for style in IC_STYLES:
            ic = _ic_full(rng, style, spec["n"])
            for fname, f0 in _f0_variants(rng, spec):
                if fname == "dyadic" and style not in ("static", "v0static"):
                    continue
                items.append((spec, ic, fname, f0))
                reqs.append(" ".join(p for p in ["ic", _part_block(spec), _icenv_block(proto, spec), _opts_block(ic), _hexs(f0)] if p))
    reps = drv.ask(reqs)
    for (spec, ic, fname, f0), rep in zip(items, reps):
        if rep == "bad-op":
            raise Infra("driver rejected a C08 ic request")
        n = spec["n"]
        parts = [_floats(p.split()) for p in rep.split("|")]
        inp = {"spec": dict(spec, ic=ic), "f0": f0, "check": "ic"}
        lab = _ic_label(ic)
        rb, el, rf = _part(spec)
        hit_static = ic["static"] and ic["d0"] is None and el.size and any(f0[j] != 0.0 for j in el)
        for via, (md, mv) in (("gen", parts[0:2]), ("batch", parts[2:4])):
            ts, d0c, v0c = _ic_impl(spec, ic, f0, via)
            exact = bool(ts.unc)
            sd = max(float(np.abs(d0c).max()), float(np.abs(md).max()), 1e-300)
            sv = max(float(np.abs(v0c).max()), float(np.abs(mv).max()), 1e-300)
            if not _partition_ok(ts, spec):
                ctx.disagree("ic:partition", inp, "rb/el/rf of the solver", "rb/el/rf of the configuration")
            if _vec_bad(d0c, md, sd, exact):
                ctx.disagree("ic:%s:d%s" % (via, ":bits" if exact else ""), inp, d0c.tolist(), md.tolist())
            elif _vec_bad(v0c, mv, sv, exact):
                ctx.disagree("ic:%s:v%s" % (via, ":bits" if exact else ""), inp, v0c.tolist(), mv.tolist())
            ctx.case(("ic", json.dumps(spec, sort_keys=True), json.dumps(ic), fname, via),
                     nontrivial=(lab != "d0=0,v0=0,static=0"), branch="stream:ic")
            ctx.count("ic:" + via)
            ctx.count("ic-layout:" + spec.get("layout", LAYOUTS[0]))
            ctx.count("ic-exact" if exact else "ic-numeric")
        ctx.count("icopt:" + lab)
        ctx.count("ic:f0-" + fname)
        if hit_static:
            ctx.count("ic:static-solve-unc" if _build(spec).unc else "ic:static-solve-coupled")
        if ic["static"] and ic["d0"] is None and not hit_static:
            ctx.count("ic:static-any-false")
        if ic["static"] and ic["d0"] is not None:
            ctx.count("ic:static-ignored-d0-given")


# ---- API call sequences on one solver object ------------------------------------------------


def _api_sequence(rng, spec, shape):
    """a call list on ONE solver object.  Calls: ["G", nt, ic, f0], ["S", g, i, f] (i = -1: add-on),
    ["T", nt, ic, force columns], ["Z", get_force], ["X", velo].  Sends are documented requests
    for the generator they go to (its own `1 <= i <= last + 1`); `shape` chooses the pattern."""
    n = spec["n"]
    calls = []
    gens = []  # [nt, cur]

    def newgen():
        nt = rng.randint(3, 7)
        calls.append(["G", nt, _ic_full(rng, rng.choice(IC_STYLES), n), _force(rng, n)])
        gens.append([nt, 0])
        return len(gens) - 1

    def send(g, kind=None):
        nt, cur = gens[g]
        r = rng.random()
        if kind == "adv" or cur == 0 or (kind is None and r < 0.5 and cur + 1 < nt):
            if cur + 1 >= nt:
                i = cur
            else:
                i = cur + 1
        elif kind is None and r < 0.65 and cur >= 1:
            calls.append(["S", g, -1, _force(rng, n)])
            return
        elif r < 0.85 or cur < 2:
            i = cur
        else:
            i = rng.randint(1, cur - 1)
        calls.append(["S", g, i, _force(rng, n)])
        gens[g][1] = i

    def tsolve():
        nt = rng.randint(1, 6)
        calls.append(["T", nt, _ic_full(rng, rng.choice(IC_STYLES), n), [_force(rng, n) for _ in range(nt)]])

    if shape == "gen-twice":            # generator() twice, both driven alternately, finalize
        a = newgen()
        for _ in range(rng.randint(1, 3)):
            send(a)
        b = newgen()
        for _ in range(rng.randint(3, 9)):
            send(rng.choice([a, b]))
        calls.append(["Z", True])
    elif shape == "gen-tsolve-resume":  # generator, tsolve in the middle, the generator resumed
        a = newgen()
        for _ in range(rng.randint(1, 3)):
            send(a)
        tsolve()
        calls.append(["X", bool(rng.random() < 0.5)])
        for _ in range(rng.randint(2, 6)):
            send(a)
        calls.append(["Z", bool(rng.random() < 0.5)])
    elif shape == "finalize-twice":     # finalize, finalize again (AttributeError), also before any generator
        if rng.random() < 0.5:
            calls.append(["Z", False])
        a = newgen()
        for _ in range(rng.randint(1, 5)):
            send(a)
        calls.append(["Z", True])
        calls.append(["Z", bool(rng.random() < 0.5)])
    elif shape == "finalize-partial":   # fewer than nt steps sent, possibly ending on a jump back
        a = newgen()
        nt = gens[a][0]
        reach = rng.randint(1, nt - 1)
        for _ in range(reach):
            send(a, "adv")
        if rng.random() < 0.6 and gens[a][1] >= 2:
            i = rng.randint(1, gens[a][1] - 1)
            calls.append(["S", a, i, _force(rng, n)])
            gens[a][1] = i
            if rng.random() < 0.5:
                calls.append(["S", a, -1, _force(rng, n)])
        calls.append(["Z", True])
    elif shape == "f2x-around":         # get_f2x before and after generator(), and between sends
        calls.append(["X", False])
        a = newgen()
        calls.append(["X", True])
        for _ in range(rng.randint(2, 6)):
            send(a)
            if rng.random() < 0.3:
                calls.append(["X", bool(rng.random() < 0.5)])
        calls.append(["Z", False])
    elif shape == "resume-after-finalize":  # finalize, then the generator goes on, then a new one
        a = newgen()
        for _ in range(rng.randint(1, 3)):
            send(a)
        calls.append(["Z", True])
        for _ in range(rng.randint(1, 3)):
            send(a)
        b = newgen()
        send(b)
        send(a)
        calls.append(["Z", True])
    elif shape == "dead-generator":     # a refused request kills that generator only
        a = newgen()
        b = newgen()
        send(a)
        send(b)
        calls.append(["S", a, gens[a][0] + 2, _force(rng, n)])   # IndexError
        calls.append(["S", a, 1, _force(rng, n)])                # StopIteration
        send(b)
        calls.append(["Z", True])
    else:                                # random interleaving
        a = newgen()
        for _ in range(rng.randint(4, 14)):
            r = rng.random()
            if r < 0.12 and len(gens) < 3:
                newgen()
            elif r < 0.22:
                tsolve()
            elif r < 0.30:
                calls.append(["Z", bool(rng.random() < 0.5)])
            elif r < 0.36:
                calls.append(["X", bool(rng.random() < 0.5)])
            else:
                send(rng.randrange(len(gens)))
        calls.append(["Z", True])
    return calls


API_SHAPES = ("gen-twice", "gen-tsolve-resume", "finalize-twice", "finalize-partial", "f2x-around",
              "resume-after-finalize", "dead-generator", "random")


def _api_tokens(calls):
    toks = []
    for c in calls:
        if c[0] == "G":
            toks.append("G %d %s %s" % (c[1], _opts_block(c[2]), _hexs(c[3])))
        elif c[0] == "S":
            toks.append("S %d %s" % (c[1], ("a " + _hexs(c[3])) if c[2] < 0 else ("s %d %s" % (c[2], _hexs(c[3])))))
        elif c[0] == "T":
            toks.append("T %d %s %s" % (c[1], _opts_block(c[2]), " ".join(_hexs(col) for col in c[3])))
        elif c[0] == "Z":
            toks.append("Z %d" % (1 if c[1] else 0))
        else:
            toks.append("X")
    return " ".join(toks)


def _api_impl(spec, calls, phi):
    """the calls on ONE real solver object; outputs are snapshots taken when the call returns"""
    ts = _build(spec)
    gens = []
    outs = []
    with warnings.catch_warnings():
        warnings.simplefilter("ignore")
        for c in calls:
            if c[0] == "G":
                kw = _ickw({"ic": c[2]})
                gen, d, v = ts.generator(c[1], np.array(c[3], dtype=float), **kw)
                gens.append(dict(gen=gen, d=d, v=v, a=ts._a, f=ts._force, cur=None, nt=c[1]))
                outs.append(("gen", len(gens) - 1, d[:, 0].copy(), v[:, 0].copy(), ts._a[:, 0].copy()))
            elif c[0] == "S":
                g = gens[c[1]]
                try:
                    g["gen"].send((c[2], np.array(c[3], dtype=float)))
                except UnboundLocalError:
                    outs.append(("err:unbound",))
                    continue
                except IndexError:
                    outs.append(("err:index",))
                    continue
                except StopIteration:
                    outs.append(("err:stop",))
                    continue
                if c[2] >= 0:
                    g["cur"] = c[2]
                j = g["cur"]
                outs.append(("sent", j, g["d"][:, j].copy(), g["v"][:, j].copy(), g["a"][:, j].copy(), g["f"][:, j].copy()))
            elif c[0] == "T":
                kw = _ickw({"ic": c[2]})
                sol = ts.tsolve(np.array(c[3], dtype=float).T.copy(), **kw)
                outs.append(("sol", c[1], np.array(sol.d), np.array(sol.v), np.array(sol.a), None))
            elif c[0] == "Z":
                try:
                    sol = ts.finalize(get_force=bool(c[1]))
                except AttributeError:
                    outs.append(("err:attr",))
                    continue
                outs.append(("sol", sol.d.shape[1], sol.d.copy(), sol.v.copy(), sol.a.copy(),
                             sol.force.copy() if c[1] else None, hasattr(sol, "force")))
            else:
                outs.append(("flex", np.asarray(ts.get_f2x(phi, bool(c[1])), dtype=float)))
    return outs, gens, ts


def _decode_api(rep, n):
    out = []
    for rec in rep.split(";"):
        t = rec.split()
        if not t:
            continue
        if t[0].startswith("err:"):
            out.append((t[0],))
        elif t[0] == "gen":
            out.append(("gen", int(t[1]), _floats(t[2:2 + n]), _floats(t[2 + n:2 + 2 * n]), _floats(t[2 + 2 * n:2 + 3 * n])))
        elif t[0] == "sent":
            v = _floats(t[2:])
            out.append(("sent", int(t[1]), v[:n], v[n:2 * n], v[2 * n:3 * n], v[3 * n:4 * n]))
        elif t[0] == "sol":
            nt = int(t[1])
            v = _floats(t[2:])
            blk = n * nt
            arrs = [v[q * blk:(q + 1) * blk].reshape(nt, n).T for q in range(len(v) // blk if blk else 0)]
            while len(arrs) < 3:
                arrs.append(np.zeros((n, nt)))
            out.append(("sol", nt, arrs[0], arrs[1], arrs[2], arrs[3] if len(arrs) > 3 else None))
        elif t[0] == "flex":
            out.append(("flex",))
        else:
            out.append(("?", rec[:40]))
    return out


def _api_scales(spec, outs):
    h = spec["h"]
    md = mv = ma = 0.0
    for o in outs:
        if o[0] in ("gen", "sent"):
            md = max(md, float(np.abs(o[2]).max()))
            mv = max(mv, float(np.abs(o[3]).max()))
            ma = max(ma, float(np.abs(o[4]).max()))
        elif o[0] == "sol":
            md = max(md, float(np.abs(o[2]).max()))
            mv = max(mv, float(np.abs(o[3]).max()))
            ma = max(ma, float(np.abs(o[4]).max()))
    sd = max(md + h * mv + h * h * ma, 1e-300)
    return sd, sd / h, sd / (h * h)


def _api_compare(ctx, spec, shape, calls, impl, model, flex_model, path):
    """returns None or (call index, what, impl, model).  Of the acceleration array only the rows the
    generator itself writes (rigid-body rows, complex path) are compared after a send: the other
    rows belong to `finalize`, which fills them in place (a generator resumed after `finalize`
    still carries them; `generator()` hands out d and v only)."""
    arows = _part(spec)[0] if path == "complex" else np.arange(0)
    if len(impl) != len(model):
        return (len(calls), "number-of-answers", len(impl), len(model))
    sd, sv, sa = _api_scales(spec, impl)
    for q, (a_, m_) in enumerate(zip(impl, model)):
        if a_[0] != m_[0]:
            return (q, "answer-kind", a_[0], m_[0])
        if a_[0] == "gen":
            if a_[1] != m_[1]:
                return (q, "handle", a_[1], m_[1])
            for nm, x, y, s_ in (("d", a_[2], m_[2], sd), ("v", a_[3], m_[3], sv), ("a", a_[4], m_[4], sa)):
                if _vec_bad(x, y, s_, False):
                    return (q, "first-column-" + nm, x.tolist(), y.tolist())
        elif a_[0] == "sent":
            if a_[1] != m_[1]:
                return (q, "column", a_[1], m_[1])
            for nm, x, y, s_ in (("d", a_[2], m_[2], sd), ("v", a_[3], m_[3], sv), ("a", a_[4][arows], m_[4][arows], sa)):
                if _vec_bad(x, y, s_, False):
                    return (q, "sent-" + nm, x.tolist(), y.tolist())
            if not _same_bits(a_[5], m_[5]):
                return (q, "sent-force", a_[5].tolist(), m_[5].tolist())
        elif a_[0] == "sol":
            if a_[1] != m_[1]:
                return (q, "sol-nt", a_[1], m_[1])
            for nm, x, y, s_ in (("d", a_[2], m_[2], sd), ("v", a_[3], m_[3], sv), ("a", a_[4], m_[4], sa)):
                if _vec_bad(np.asarray(x), np.asarray(y), s_, False):
                    return (q, ("finalize-" if calls[q][0] == "Z" else "tsolve-") + nm, np.asarray(x).tolist(), np.asarray(y).tolist())
            if calls[q][0] == "Z":
                want_force = bool(calls[q][1])
                if (a_[5] is not None) != want_force or a_[6] != want_force or (m_[5] is not None) != want_force:
                    return (q, "finalize-get_force", [a_[5] is not None, a_[6]], want_force)
                if want_force and not _same_bits(a_[5], m_[5]):
                    return (q, "finalize-force", a_[5].tolist(), m_[5].tolist())
        elif a_[0] == "flex":
            fm = flex_model[bool(calls[q][1])]
            sc = max(float(np.abs(a_[1]).max()), float(np.abs(fm).max()), 1e-300)
            if a_[1].shape != fm.shape or np.any(np.abs(a_[1] - fm) > TOL * sc):
                return (q, "get_f2x", a_[1].tolist(), fm.tolist())
    return None


def _f2x_request(run, phi, velo):
    return " ".join(p for p in ["f2x", _prefix(run), _solver_block(_pristine(run.spec), run.spec, run.path, run.nt),
                                "1" if velo else "0", str(phi.shape[0]), _hexs(phi)] if p)


def _api_stream(ctx, drv, specs):
    rng = ctx.rng
    np_rng = ctx.np_rng(81)
    items = []
    reqs = []
    per_spec = ctx.pick(3, 5)
    nspec = ctx.pick(60, 240)
    for si, spec in enumerate(specs[:nspec]):
        run0 = _Run(dict(spec, usage=None), 3, [0.0] * spec["n"])
        if not _well_conditioned(run0.ts, spec):
            ctx.skip("outside conditioning domain (eig_success False / not slices)")
            continue
        ny = int(np_rng.integers(1, 3))
        phi = np_rng.normal(size=(ny, spec["n"]))
        f2 = [_f2x_request(run0, phi, velo) for velo in (False, True)]
        for r_ in range(per_spec):
            shape = API_SHAPES[(si * per_spec + r_) % len(API_SHAPES)]
            calls = _api_sequence(rng, spec, shape)
            line = " ".join(p for p in ["api", _prefix(run0), _solver_block(_pristine(run0.spec), spec, run0.path, 0),
                                        _eom_block(run0.ts, spec, run0.path), _api_tokens(calls)] if p)
            items.append((spec, shape, calls, phi, run0.path))
            reqs += [line] + f2
    reps = drv.ask(reqs)
    for q, (spec, shape, calls, phi, path) in enumerate(items):
        rep, fx0, fx1 = reps[3 * q:3 * q + 3]
        if "bad-op" in (rep, fx0, fx1):
            raise Infra("driver rejected a C08 api / f2x request")
        ny = phi.shape[0]
        flex_model = {False: _floats(fx0.split()).reshape(ny, ny), True: _floats(fx1.split()).reshape(ny, ny)}
        impl, _, _ = _api_impl(spec, calls, phi)
        model = _decode_api(rep, spec["n"])
        res = _api_compare(ctx, spec, shape, calls, impl, model, flex_model, path)
        inp = {"spec": spec, "calls": calls, "phi": phi.tolist(), "check": "api"}
        if res:
            ctx.disagree("api:" + res[1], dict(inp, call=res[0]), res[2], res[3])
        ctx.case(("api", json.dumps(spec, sort_keys=True), json.dumps(calls)), nontrivial=True, branch="stream:api")
        ctx.count("api:" + shape)
        ctx.count("api-path:" + path)
        for o in impl:
            if o[0].startswith("err:"):
                ctx.count("api:" + o[0])
        if sum(1 for c in calls if c[0] == "G") >= 2:
            ctx.count("api:two-generators-one-object")
        if len(ctx.samples) < 6 and shape in ("gen-twice", "resume-after-finalize"):
            ctx.sample({"api_shape": shape, "kind": spec["kind"],
                        "calls": [c[0] + (str(c[1]) if c[0] in "SZ" else "") + (":%d" % c[2] if c[0] == "S" else "") for c in calls]})


def correspondence(ctx):
    drv = ctx.driver("C08")
    cases, specs = _cases(ctx)
    reqs = []
    live = []
    np_rng = ctx.np_rng(8)
    f2x_items = []
    for case, stream in cases:
        spec = case["spec"]
        try:
            run = _Run(spec, case["nt"], case["f0"])
        except Exception as e:
            raise Infra("cannot build configuration %r: %r" % (spec, e))
        if not _well_conditioned(run.ts, spec):
            ctx.skip("outside conditioning domain (eig_success False / not slices)")
            continue
        if not _partition_ok(run.ts, spec):
            ctx.disagree("partition", {"spec": spec, "check": "partition"}, "rb/el/rf of the solver", "rb/el/rf of the configuration")
            continue
        line = _hist_request(run, case["ops"])
        recs, frame_bad = _drive(run, case["ops"])
        reqs.append(line)
        live.append((case, stream, run, recs, frame_bad))
    # get_f2x on every configuration
    seen = set()
    for case, stream, run, recs, frame_bad in live:
        key = json.dumps(case["spec"], sort_keys=True)
        if key in seen:
            continue
        seen.add(key)
        ny = int(np_rng.integers(1, 4))
        phi = np_rng.normal(size=(ny, run.ts.n))
        for velo in (False, True):
            f2x_items.append((case["spec"], phi, velo))
    f2x_reqs = []
    f2x_live = []
    for spec, phi, velo in f2x_items:
        run = _Run(spec, 3, [0.0] * spec["n"])
        f2x_reqs.append(_f2x_request(run, phi, velo))
        f2x_live.append((spec, phi, velo, run))
    rep = drv.ask(reqs + f2x_reqs)
    hist_rep, f2x_rep = rep[: len(reqs)], rep[len(reqs):]
    for (case, stream, run, recs, frame_bad), line in zip(live, hist_rep):
        spec = case["spec"]
        tags = _tags(case["ops"])
        if line == "bad-op":
            raise Infra("driver rejected a C08 request")
        etags = _compare_case(ctx, spec, case["nt"], case["f0"], case["ops"], line, run, recs, frame_bad, stream)
        nontrivial = bool(tags & {"repeat", "jumpback", "addon", "malformed"})
        key = (json.dumps(spec, sort_keys=True), json.dumps(case["ops"]))
        ctx.case(key, nontrivial=nontrivial, branch="stream:" + stream)
        ctx.count("path:" + run.path)
        ctx.count("kind:" + spec["kind"])
        ctx.count("order:%d" % spec["order"])
        ctx.count("machine:%s-order%d" % (run.path, spec["order"]))
        ctx.count("layout:" + spec.get("layout", LAYOUTS[0]))
        if spec["nrb"]:
            ctx.count("feat:rb")
        if spec["nrf"]:
            ctx.count("feat:rf")
        if spec["nel"] == 0 and spec["nrb"] == 0:
            ctx.count("feat:rf-only")
        ctx.count("feat:m-none" if spec["m"] is None else "feat:m-given")
        ic = spec["ic"]
        ctx.count("ic:static" if (ic["static"] and ic["d0"] is None) else ("ic:d0v0" if (ic["d0"] is not None or ic["v0"] is not None) else "ic:zero"))
        ctx.count("hist-icopt:" + _ic_label(ic))
        for t in tags:
            ctx.count("op:" + t)
        for t in etags:
            ctx.count(t)
        if run.path == "real-cdf":
            hits = 0
            miss = 0
            cur = 0
            for i, _ in case["ops"]:
                if i >= 1:
                    if i - 1 == cur:
                        hits += 1
                    else:
                        miss += 1
                    cur = i
            if hits:
                ctx.count("cdf:cache-hit")
            if miss:
                ctx.count("cdf:cache-miss")
            # the identity cdf_cache_sound assumes, measured
            ts = run.ts
            if ts.ksize:
                al, bo, Bp = ts.pc.alpha, ts.bo, ts.pc.Bp
                res = bo @ (np.eye(ts.ksize) - Bp[:, None] * al) - al
                sc = max(float(np.abs(bo).max()), 1e-300)
                if float(np.abs(res).max()) > 1e-10 * sc:
                    ctx.disagree("cdf:alpha-identity", {"spec": spec, "check": "alpha"}, float(np.abs(res).max()), "<= 1e-10 * |bo|")
        if len(ctx.samples) < 4 and nontrivial and stream == "random":
            ctx.sample({"kind": spec["kind"], "order": spec["order"], "nt": case["nt"],
                        "requests": [i for i, _ in case["ops"]][:40], "path": run.path})
    for (spec, phi, velo, run), line in zip(f2x_live, f2x_rep):
        if line == "bad-op":
            raise Infra("driver rejected a C08 f2x request")
        ny = phi.shape[0]
        model = _floats(line.split()).reshape(ny, ny)
        with warnings.catch_warnings():
            warnings.simplefilter("ignore")
            impl = np.asarray(run.ts.get_f2x(phi, velo), dtype=float)
        ctx.case(("f2x", json.dumps(spec, sort_keys=True), velo), nontrivial=(spec["order"] == 1), branch="stream:f2x")
        sc = max(float(np.abs(impl).max()), float(np.abs(model).max()), 1e-300)
        if impl.shape != model.shape or np.any(np.abs(impl - model) > TOL * sc):
            ctx.disagree("f2x", {"spec": spec, "phi": phi.tolist(), "velo": velo, "check": "f2x"}, impl.tolist(), model.tolist())
    _ic_stream(ctx, drv, specs)
    _api_stream(ctx, drv, specs)
    ctx.exhaustive = False  # exhaustive only over the finite set named in extra.exhaustive_set
    ctx.extra["max_deviation_over_scale_model"] = _DEV["model"]
    ctx.require_branches(
        ["path:real-unc", "path:real-cdf", "path:complex", "path:se2", "kind:cdf", "kind:cdf_flag",
         "order:0", "order:1", "feat:rb", "feat:rf", "feat:rf-only", "feat:m-none", "feat:m-given",
         "ic:static", "ic:d0v0", "op:repeat", "op:jumpback", "op:addon", "op:addon-after-redo",
         "err:unbound", "err:index", "cdf:cache-hit", "cdf:cache-miss", "stream:enumerated", "stream:f2x",
         "exact:real-unc-bits", "stream:ic", "stream:api", "ic:gen", "ic:batch", "ic-exact", "ic-numeric",
         "ic:static-solve-unc", "ic:static-solve-coupled", "ic:static-any-false", "ic:static-ignored-d0-given",
         "ic:f0-el-zero", "ic:f0-zero", "ic:f0-dyadic"]
        + ["icopt:d0=%d,v0=%d,static=%d" % (a_, b_, c_) for a_ in (0, 1) for b_ in (0, 1) for c_ in (0, 1)]
        + ["machine:%s-order%d" % (p_, o_) for p_ in ("real-unc", "real-cdf", "complex", "se2") for o_ in (0, 1)]
        + ["layout:" + l_ for l_ in LAYOUTS] + ["ic-layout:" + l_ for l_ in LAYOUTS]
        + ["api:" + s_ for s_ in API_SHAPES]
        + ["api-path:" + p_ for p_ in ("real-unc", "real-cdf", "complex", "se2")]
        + ["api:err:attr", "api:err:index", "api:err:stop", "api:two-generators-one-object"]
    )


# ---------------------------------------------------------------------------------------
# model-free oracle: generator vs batch on the public API


def _close(a, b, scale):
    if a.shape == b.shape:
        _dev("batch", a - b, scale)
    return a.shape == b.shape and not np.any(np.abs(a - b) > TOL * scale) and np.all(np.isfinite(a))


def _oracle_history(spec, nt, f0, ops, every=True):
    """None or (stage, step, observed, required).  Valid histories only."""
    run = _Run(spec, nt, f0)
    ts = run.ts
    if not _well_conditioned(ts, spec):
        return "skip"
    tb = _build(spec)  # separate instance for batch
    n = spec["n"]
    feff = np.zeros((n, nt))
    feff[:, 0] = run.f0
    cur = 0
    kw = _ickw(spec)
    h = spec["h"]

    def batch(c):
        with warnings.catch_warnings():
            warnings.simplefilter("ignore")
            return tb.tsolve(feff[:, : c + 1].copy(), **kw)

    for step, (i, f) in enumerate(ops):
        f = np.array(f, dtype=float)
        err = run.send(i, f)
        if err:
            return ("refused", step, err, "a documented request is accepted")
        if i < 0:
            feff[:, cur] = feff[:, cur] + f
        else:
            feff[:, i] = f
            cur = i
        if every or step == len(ops) - 1:
            sol = batch(cur)
            sd, sv, _ = _scales(run, sol)
            if not _close(run.d[:, : cur + 1], sol.d, sd):
                return ("visible-d", step, run.d[:, : cur + 1].tolist(), sol.d.tolist())
            if not _close(run.v[:, : cur + 1], sol.v, sv):
                return ("visible-v", step, run.v[:, : cur + 1].tolist(), sol.v.tolist())
    with warnings.catch_warnings():
        warnings.simplefilter("ignore")
        fin = ts.finalize(get_force=True)
    sol = batch(cur)
    sd, sv, sa = _scales(run, sol)
    c = cur + 1
    if fin.force[:, :c].tobytes() != feff[:, :c].tobytes():
        return ("finalize-force", len(ops), fin.force[:, :c].tolist(), feff[:, :c].tolist())
    for name, s_ in (("d", sd), ("v", sv), ("a", sa)):
        if not _close(getattr(fin, name)[:, :c], getattr(sol, name), s_):
            return ("finalize-" + name, len(ops), getattr(fin, name)[:, :c].tolist(), getattr(sol, name).tolist())
    if fin.d.shape != (n, nt) or len(fin.t) != nt:
        return ("finalize-shape", len(ops), list(fin.d.shape), [n, nt])
    hw = max([i for i, _ in ops if i >= 0] + [0])
    return _oracle_record(spec, fin, hw, len(ops))


def _oracle_record(spec, fin, hw, step):
    """what must hold of EVERY column of a finalized record, complete history or not: the equation
    of motion on the non-rf rows, static residual-flexibility rows, zeros beyond the largest index
    ever sent"""
    M, B, K = _mats(spec)
    rb, el, rf = _part(spec)
    nr = _nonrf(spec)
    nt = fin.d.shape[1]
    for name in ("d", "v", "a", "force"):
        arr = getattr(fin, name)
        if np.any(arr[:, hw + 1:] != 0.0):
            return ("finalize-unvisited-%s" % name, step, arr[:, hw + 1:].tolist(), "zeros beyond column %d" % hw)
    if nr.size:
        ix = np.ix_(nr, nr)
        d, v, a, F = fin.d[nr], fin.v[nr], fin.a[nr], fin.force[nr]
        res = M[ix] @ a + B[ix] @ v + K[ix] @ d - F
        sc = np.abs(M[ix]) @ np.abs(a) + np.abs(B[ix]) @ np.abs(v) + np.abs(K[ix]) @ np.abs(d) + np.abs(F)
        if np.any(np.abs(res) > TOL * sc + 1e-300) or not np.all(np.isfinite(res)):
            j = int(np.argmax(np.max(np.abs(res) - TOL * sc, axis=0)))
            return ("finalize-eom", step, {"column": j, "residual": res[:, j].tolist()}, "M a + B v + K d = F on the non-rf rows of every column")
    if rf.size:
        ixr = np.ix_(rf, rf)
        res = K[ixr] @ fin.d[rf] - fin.force[rf]
        sc = np.abs(K[ixr]) @ np.abs(fin.d[rf]) + np.abs(fin.force[rf])
        if np.any(np.abs(res) > TOL * sc + 1e-300):
            j = int(np.argmax(np.max(np.abs(res) - TOL * sc, axis=0)))
            return ("finalize-rf-static", step, {"column": j, "residual": res[:, j].tolist()}, "k_rf d_rf = F_rf in every column")
        if np.any(fin.v[rf] != 0.0) or np.any(fin.a[rf] != 0.0):
            return ("finalize-rf-va", step, [fin.v[rf].tolist(), fin.a[rf].tolist()], "zeros")
    return None


def _oracle_ic(spec, ic, f0):
    """the first column by the documented meaning of d0 / v0 / static_ic, through generator() and
    through tsolve(); None or (stage, observed, required)"""
    M, B, K = _mats(spec)
    rb, el, rf = _part(spec)
    nr = _nonrf(spec)
    f0 = np.array(f0, dtype=float)
    cols = {}
    for via in ("gen", "batch"):
        ts, d, v = _ic_impl(spec, ic, f0, via)
        if not _well_conditioned(ts, spec):
            return "skip"
        cols[via] = (d, v)
        pre = via + "-"
        if ic["d0"] is not None:
            want = np.array(ic["d0"], dtype=float)[nr]
            if not np.array_equal(d[nr], want):
                return (pre + "d0-not-copied", d[nr].tolist(), want.tolist())
        elif ic["static"] and el.size and np.any(f0[el] != 0.0):
            if np.any(d[rb] != 0.0):
                return (pre + "static-rb-not-zero", d[rb].tolist(), "zeros")
            ixe = np.ix_(el, el)
            res = K[ixe] @ d[el] - f0[el]
            sc = np.abs(K[ixe]) @ np.abs(d[el]) + np.abs(f0[el])
            if np.any(np.abs(res) > TOL * sc + 1e-300) or not np.all(np.isfinite(d)):
                return (pre + "static-not-equilibrium", {"d_el": d[el].tolist(), "residual": res.tolist()}, "k_ee d_el = F0_el")
        elif np.any(d[nr] != 0.0):
            return (pre + "d-not-zero", d[nr].tolist(), "zeros")
        if ic["v0"] is not None:
            want = np.array(ic["v0"], dtype=float)[nr]
            if not np.array_equal(v[nr], want):
                return (pre + "v0-not-copied", v[nr].tolist(), want.tolist())
        elif np.any(v[nr] != 0.0):
            return (pre + "v-not-zero", v[nr].tolist(), "zeros")
        if rf.size:
            ixr = np.ix_(rf, rf)
            res = K[ixr] @ d[rf] - f0[rf]
            sc = np.abs(K[ixr]) @ np.abs(d[rf]) + np.abs(f0[rf])
            if np.any(np.abs(res) > TOL * sc + 1e-300) or np.any(v[rf] != 0.0):
                return (pre + "rf-not-static", d[rf].tolist(), "k_rf d_rf = F0_rf, v_rf = 0")
    for q, name in ((0, "d"), (1, "v")):
        g, b_ = cols["gen"][q], cols["batch"][q]
        sc = max(float(np.abs(g).max()), float(np.abs(b_).max()), 1e-300)
        if np.any(np.abs(g - b_) > 1e-12 * sc):
            return ("gen-vs-batch-" + name, g.tolist(), b_.tolist())
    return None


def _oracle_api(spec, calls, phi):
    """the calls on one object against the same work done on fresh objects: every generator alone
    (its arrays = batch tsolve of its own force history), every finalize = the generator created
    last, replayed alone; tsolve / get_f2x = a fresh solver's.  None or (what, call, observed, required)"""
    impl, gens, ts = _api_impl(spec, calls, phi)
    n = spec["n"]
    created = []   # per generator: dict(nt, ic, f0, ops so far, dead)
    slot = None
    for q, (c, out) in enumerate(zip(calls, impl)):
        if c[0] == "G":
            created.append(dict(nt=c[1], ic=c[2], f0=c[3], ops=[], dead=False))
            slot = len(created) - 1
        elif c[0] == "S":
            g = created[c[1]]
            if out[0].startswith("err:"):
                if not g["dead"] and _valid(g["ops"] + [[c[2], c[3]]], g["nt"]):
                    return ("send-refused", q, out[0], "a documented request is accepted")
                g["dead"] = True
            else:
                g["ops"].append([c[2], c[3]])
        elif c[0] == "T":
            fresh = _build(spec)
            with warnings.catch_warnings():
                warnings.simplefilter("ignore")
                sol = fresh.tsolve(np.array(c[3], dtype=float).T.copy(), **_ickw({"ic": c[2]}))
            for nm, x, y in (("d", out[2], sol.d), ("v", out[3], sol.v), ("a", out[4], sol.a)):
                sc = max(float(np.abs(y).max()), 1e-300)
                if x.shape != y.shape or np.any(np.abs(x - y) > 1e-12 * sc):
                    return ("tsolve-depends-on-object-history-" + nm, q, np.asarray(x).tolist(), np.asarray(y).tolist())
        elif c[0] == "X":
            fresh = _build(spec)
            with warnings.catch_warnings():
                warnings.simplefilter("ignore")
                fx = np.asarray(fresh.get_f2x(phi, bool(c[1])), dtype=float)
            sc = max(float(np.abs(fx).max()), 1e-300)
            if out[1].shape != fx.shape or np.any(np.abs(out[1] - fx) > 1e-12 * sc):
                return ("get_f2x-depends-on-object-history", q, out[1].tolist(), fx.tolist())
        else:  # finalize
            if slot is None:
                if out[0] != "err:attr":
                    return ("finalize-without-generator", q, out[0], "AttributeError")
                continue
            if out[0] != "sol":
                return ("finalize-refused", q, out[0], "a solution record")
            g = created[slot]
            slot = None
            if g["dead"] or not _valid(g["ops"], g["nt"]):
                continue
            gspec = dict(spec, ic=g["ic"], usage=None)
            run = _Run(gspec, g["nt"], g["f0"])
            for i, f in g["ops"]:
                run.send(i, f)
            with warnings.catch_warnings():
                warnings.simplefilter("ignore")
                fin = run.ts.finalize(get_force=True)
            for nm, x, y in (("d", out[2], fin.d), ("v", out[3], fin.v), ("a", out[4], fin.a)):
                sc = max(float(np.abs(y).max()), 1e-300)
                if x.shape != y.shape or np.any(np.abs(x - y) > 1e-12 * sc):
                    return ("finalize-not-the-latest-generator-alone-" + nm, q, np.asarray(x).tolist(), np.asarray(y).tolist())
            if bool(c[1]) != bool(out[6]):
                return ("finalize-get_force", q, "force attribute present: %s" % out[6], "only included if get_force is True (documented)")
            if bool(c[1]) != (out[5] is not None) or (out[5] is not None and out[5].tobytes() != fin.force.tobytes()):
                return ("finalize-force", q, None if out[5] is None else out[5].tolist(), fin.force.tolist() if c[1] else None)
            hw = max([i for i, _ in g["ops"] if i >= 0] + [0])
            rec = SimpleNamespace(d=out[2], v=out[3], a=out[4], force=fin.force)
            r2 = _oracle_record(gspec, rec, hw, q)
            if r2:
                return (r2[0], q, r2[2], r2[3])
    # every generator's own arrays at the end = batch of its own history (nobody else wrote to them)
    for gi, (g, live) in enumerate(zip(created, gens)):
        if g["dead"] or not _valid(g["ops"], g["nt"]):
            continue
        feff = np.zeros((n, g["nt"]))
        feff[:, 0] = g["f0"]
        cur = 0
        for i, f in g["ops"]:
            if i < 0:
                feff[:, cur] += np.array(f, dtype=float)
            else:
                feff[:, i] = f
                cur = i
        fresh = _build(spec)
        with warnings.catch_warnings():
            warnings.simplefilter("ignore")
            sol = fresh.tsolve(feff[:, : cur + 1].copy(), **_ickw({"ic": g["ic"]}))
        h = spec["h"]
        sd = max(float(np.abs(sol.d).max()) + h * float(np.abs(sol.v).max()) + h * h * float(np.abs(sol.a).max()), 1e-300)
        if not _close(live["d"][:, : cur + 1], sol.d, sd):
            return ("generator-%d-of-%d-disturbed-d" % (gi, len(created)), len(calls), live["d"][:, : cur + 1].tolist(), sol.d.tolist())
        if not _close(live["v"][:, : cur + 1], sol.v, sd / h):
            return ("generator-%d-of-%d-disturbed-v" % (gi, len(created)), len(calls), live["v"][:, : cur + 1].tolist(), sol.v.tolist())
    return None


def _renumber(ops, drop):
    """remove request `drop` and renumber the later sends so that every move (advance / repeat /
    jump back by k) is kept relative to the step reached"""
    out = []
    ocur = 0
    ncur = 0
    for j, (i, f) in enumerate(ops):
        if i < 0:
            if j != drop and ncur >= 1:
                out.append([i, f])
            continue
        delta = i - ocur
        ocur = i
        if j == drop:
            continue
        ni = max(1, ncur + delta)
        out.append([ni, f])
        ncur = ni
    return out


def _shrink(spec, nt, f0, ops):
    """greedy delta debugging on the request list (keeps validity)"""
    best = list(ops)
    res = _oracle_history(spec, nt, f0, best)
    changed = True
    while changed and len(best) > 1:
        changed = False
        for j in range(len(best)):
            for cand in (best[:j] + best[j + 1:], _renumber(best, j)):
                if not cand or not _valid(cand, nt) or cand == best:
                    continue
                r = _oracle_history(spec, nt, f0, cand)
                if r and r != "skip":
                    best, res, changed = cand, r, True
                    break
            if changed:
                break
    return best, res


def _family(spec, ops, stage):
    tags = sorted(_tags(ops) - {"addon-after-redo"}) or ["plain"]
    feats = []
    if spec["nrb"]:
        feats.append("rb")
    if spec["nrf"]:
        feats.append("rf")
    return "%s-order%d-%s-%s%s" % (spec["kind"], spec["order"], "+".join(tags), stage.split("-")[0],
                                   ("-" + "+".join(feats)) if feats else "")


def _oracle_f2x(spec, phi, velo, pre_ops, nt, f0):
    """get_f2x vs the change a unit add-on produces in the current step (order 1), zero for order 0"""
    run0 = _Run(spec, nt, f0)
    if not _well_conditioned(run0.ts, spec):
        return "skip"
    with warnings.catch_warnings():
        warnings.simplefilter("ignore")
        flex = np.asarray(run0.ts.get_f2x(phi, velo), dtype=float)
    ny = phi.shape[0]
    if flex.shape != (ny, ny):
        return ("f2x-shape", 0, list(flex.shape), [ny, ny])
    got = np.zeros((ny, ny))
    order0 = run0.ts.order == 0
    if order0 and np.any(flex != 0.0):
        return ("f2x-order0-nonzero", 0, flex.tolist(), "zeros (documented)")
    nonrf = np.arange(spec["n"])[run0.ts.nonrf]
    for j in range(ny):
        run = _Run(spec, nt, f0)
        cur = 0
        for i, f in pre_ops:
            run.send(i, f)
            if i >= 0:
                cur = i
        arr = run.v if velo else run.d
        before = arr[:, cur].copy()
        e = np.zeros(ny)
        e[j] = 1.0
        err = run.send(-1, phi.T @ e)
        if err:
            return ("f2x-refused", j, err, "accepted")
        if order0:
            # zero-order hold: the add-on must leave d, v of the dynamic rows untouched (the
            # static residual-flexibility rows respond; get_f2x documents zeros for order 0)
            if arr[nonrf, cur].tobytes() != before[nonrf].tobytes():
                return ("f2x-order0-addon-changes-state", j, arr[nonrf, cur].tolist(), before[nonrf].tolist())
            continue
        got[:, j] = phi @ (arr[:, cur] - before)
    sc = max(float(np.abs(flex).max()), float(np.abs(got).max()), 1e-300)
    # the difference of two states loses digits relative to the state itself
    state = float(np.abs(phi).max()) * float(np.abs(run.v if velo else run.d).max())
    if np.any(np.abs(flex - got) > TOL * sc + 1e-12 * state):
        return ("f2x", 0, flex.tolist(), got.tolist())
    return None


def _report(ctx, spec, nt, f0, ops, res, shrink=True):
    if shrink:
        try:
            ops, res = _shrink(spec, nt, f0, ops)
        except Exception:
            pass
    stage, step, obs, req = res
    ctx.fail(
        _family(spec, ops, stage),
        "generator differs from batch tsolve of the force in effect (%s, request %d of %s)" % (stage, step, [i for i, _ in ops]),
        {"spec": spec, "nt": nt, "f0": list(f0), "ops": ops, "check": "history"},
        {"stage": stage, "value": obs},
        {"value": req},
    )


def _try_ic(ctx, spec, ic, f0, reported):
    res = _oracle_ic(spec, ic, f0)
    if res == "skip":
        return
    ctx.count("oracle-ic")
    if res:
        fam = "ic-%s-%s-%s" % (spec["kind"], _ic_label(ic).replace(",", "-").replace("=", ""), res[0])
        if fam not in reported:
            reported.add(fam)
            ctx.fail(fam, "first column of the solution differs from the documented meaning of d0 / v0 / static_ic (%s)" % res[0],
                     {"spec": dict(spec, ic=ic), "f0": list(f0), "check": "ic"}, res[1], res[2])


def _try_api(ctx, spec, calls, phi, reported):
    if not _well_conditioned(_build(spec), spec):
        return
    res = _oracle_api(spec, calls, phi)
    ctx.count("oracle-api")
    if res:
        fam = "api-%s-order%d-%s" % (spec["kind"], spec["order"], res[0])
        if fam not in reported:
            reported.add(fam)
            ctx.fail(fam, "call sequence on one solver object differs from the same work on fresh objects (%s at call %s of %s)"
                     % (res[0], res[1], [c[0] for c in calls]),
                     {"spec": spec, "calls": calls, "phi": np.asarray(phi).tolist(), "check": "api"}, res[2], res[3])


def search(ctx, hints):
    rng = ctx.rng
    done = 0
    # 1. the disagreements of the correspondence run
    for h in hints[:40]:
        inp = h["input"]
        if inp.get("check") == "history" and _valid(inp["ops"], inp["nt"]):
            res = _oracle_history(inp["spec"], inp["nt"], inp["f0"], inp["ops"])
            ctx.count("oracle-hints")
            if res and res != "skip":
                _report(ctx, inp["spec"], inp["nt"], inp["f0"], inp["ops"], res)
        elif inp.get("check") == "f2x":
            spec = inp["spec"]
            phi = np.array(inp["phi"])
            f0 = [1.0] * spec["n"]
            pre = [[1, [0.5] * spec["n"]], [2, [-1.0] * spec["n"]], [1, [2.0] * spec["n"]]]
            res = _oracle_f2x(spec, phi, inp["velo"], pre, 4, f0)
            if res and res != "skip":
                ctx.fail("%s-order%d-f2x-%s" % (spec["kind"], spec["order"], "velo" if inp["velo"] else "disp"),
                         "get_f2x differs from the change a unit add-on produces",
                         {"spec": spec, "phi": inp["phi"], "velo": inp["velo"], "pre_ops": pre, "nt": 4, "f0": f0, "check": "f2x"},
                         res[2], res[3])
        elif inp.get("check") == "ic":
            _try_ic(ctx, inp["spec"], inp["spec"]["ic"], inp["f0"], set())
        elif inp.get("check") == "api":
            _try_api(ctx, inp["spec"], inp["calls"], np.array(inp["phi"]), set())
        if len(ctx.failures) >= 6:
            return
    # 2. base stream
    specs = _configs(ctx, ctx.pick(150, 600))
    shapes = _enumerated(4, ctx.pick(4, 6))
    reported = set()
    for si, spec in enumerate(specs):
        n = spec["n"]
        todo = []
        for _ in range(ctx.pick(2, 5)):
            nt = rng.randint(4, 12)
            ln = rng.choice([rng.randint(1, 10), rng.randint(10, 40)])
            ops, _ = _random_history(rng, n, nt, ln, finish=(rng.random() < 0.6))
            todo.append((nt, _force(rng, n), ops))
        if si < 20:
            for shape in shapes:
                todo.append((4, _force(rng, n), [[i, _force(rng, n)] for i in shape]))
        for nt, f0, ops in todo:
            res = _oracle_history(spec, nt, f0, ops)
            if res == "skip":
                ctx.skip("oracle: outside conditioning domain")
                break
            ctx.count("oracle-histories")
            done += 1
            if res:
                fam = _family(spec, ops, res[0])
                if fam not in reported:
                    reported.add(fam)
                    _report(ctx, spec, nt, f0, ops, res)
            if len(ctx.failures) >= 6:
                return
        # get_f2x vs unit add-on, after a history with a redo
        np_rng = np.random.default_rng([ctx.seed, 88, si])
        ny = int(np_rng.integers(1, 4))
        phi = np_rng.normal(size=(ny, n))
        pre = [[1, _force(rng, n)], [2, _force(rng, n)], [1, _force(rng, n)], [-1, _force(rng, n)]]
        for velo in (False, True):
            f0 = _force(rng, n)
            res = _oracle_f2x(spec, phi, velo, pre, 4, f0)
            if res == "skip":
                break
            ctx.count("oracle-f2x")
            if res:
                fam = "%s-order%d-f2x-%s" % (spec["kind"], spec["order"], "velo" if velo else "disp")
                if fam not in reported:
                    reported.add(fam)
                    ctx.fail(fam, "get_f2x differs from the change a unit add-on produces (%s)" % res[0],
                             {"spec": spec, "phi": phi.tolist(), "velo": velo, "pre_ops": pre, "nt": 4, "f0": f0, "check": "f2x"},
                             res[2], res[3])
        # initial conditions by their documented meaning, every option combination
        if si < ctx.pick(60, 300):
            for style in IC_STYLES:
                ic = _ic_full(rng, style, n)
                for fname, f0 in _f0_variants(rng, spec)[: (2 if style.endswith("static") else 1)]:
                    _try_ic(ctx, spec, ic, f0, reported)
        # call sequences on one object against fresh objects
        for rep_ in range(2 if si < ctx.pick(80, 300) else 0):
            np_rng = np.random.default_rng([ctx.seed, 89, si, rep_])
            phi = np_rng.normal(size=(int(np_rng.integers(1, 3)), n))
            shape = API_SHAPES[(2 * si + rep_) % len(API_SHAPES)]
            _try_api(ctx, spec, _api_sequence(rng, spec, shape), phi, reported)
        if len(ctx.failures) >= 6:
            return
    ctx.extra["oracle_histories"] = done
    ctx.extra["max_deviation_over_scale_batch"] = _DEV["batch"]


def _replay_input(inp):
    if inp.get("check") == "f2x":
        pre = inp.get("pre_ops") or [[1, [0.5] * inp["spec"]["n"]], [2, [-1.0] * inp["spec"]["n"]]]
        return _oracle_f2x(inp["spec"], np.array(inp["phi"]), inp["velo"], pre, inp.get("nt", 4),
                           inp.get("f0", [1.0] * inp["spec"]["n"]))
    if inp.get("check") == "history" and _valid(inp["ops"], inp["nt"]):
        return _oracle_history(inp["spec"], inp["nt"], inp["f0"], inp["ops"])
    if inp.get("check") == "ic":
        r = _oracle_ic(inp["spec"], inp["spec"]["ic"], inp["f0"])
        return r if (not r or r == "skip") else (r[0], 0, r[1], r[2])
    if inp.get("check") == "api":
        r = _oracle_api(inp["spec"], inp["calls"], np.array(inp["phi"]))
        return r if not r else (r[0], r[1], r[2], r[3])
    return None


def replay(ctx, data):
    if "failure" in data:
        items = [data["failure"]]
    else:  # a no-failing-input-found record: re-evaluate the recorded disagreements with the oracle
        items = [{"family": "recorded-disagreement", "what": d.get("stream"), "input": d["input"]}
                 for d in data.get("disagreements", [])]
    for f in items:
        res = _replay_input(f["input"])
        if res and res != "skip":
            return {"family": f.get("family"), "what": f.get("what"), "input": f["input"],
                    "observed": {"stage": res[0], "value": res[2]}, "required": res[3]}
    return None
