"""C08 — the step-wise generator equals the batch solution for any send history
(DESIGN.md section 6/C08).

Tie: correspondence over HISTORIES.  The real generators of /repo (SolveUnc real-uncoupled,
SolveUnc complex-coupled, SolveUnc(cd_as_force=True), SolveCDF, SolveExp2) and the Lean machines
(lean/PyYetiVerif/Model/GenMachine.lean: `stepApi` on a dense one-step map built from the
solver's own integration coefficients, `cdfStepApi` = the concrete cd-as-force generator with
its hidden cache) are driven by the same request lists; after EVERY request the column the
request wrote (d, v, static rows, Force), the cd-as-force generator's hidden locals
(`dmpfrc1`, `i_last`) and the error kind of refused requests are compared; `get_f2x` is compared
with `GenMachine.f2x` of the same maps.  Floats travel as bit patterns; the Force column is
compared bit for bit, everything else to 1e-9 of scale (BLAS summation order).

Model-free oracle (`search`): generator vs batch `tsolve` of the force history in effect after
every request, `finalize` vs batch, `get_f2x` vs the change a unit add-on produces.
"""
import itertools
import json
import struct
import warnings

import numpy as np

from runner import Infra

ID = "C08"
LEAN_MODULES = ["PyYetiVerif.Props.C08", "PyYetiVerif.Audit.C08"]
AUDIT_FILE = "PyYetiVerif/Audit/C08.lean"
THEOREMS = [
    "PyYetiVerif.C08." + n
    for n in (
        "gen_invariant visible_eq_batch history_independent finalize_eq_batch f2x_is_unit_addon f2x_order0 "
        "api_refines cdf_cache_sound cdf_eq_batch cdf_alpha_identity"
    ).split()
]
TRUSTED = [
    "correspondence harness harness/props/c08.py: assembles the dense one-step maps T, P, Q, S "
    "from the solver's integration coefficients (pc.F..Bp / pc.Fe, Ae, Be, ur / E, P, Q, invm, "
    "ikrf) by the formulas documented in the solvers; the coefficients themselves are C01/C07's "
    "subject, not C08's",
    "additivity of the coefficient maps (they are numpy matrices / diagonal scalings)",
    "la.solve for alpha = bo (I + Bp bo)^-1: the identity bo (I - Bp alpha) = alpha assumed by "
    "cdf_cache_sound is re-measured on every cd-as-force case (residual <= 1e-10 of scale)",
    "exact arithmetic in the theorems; IEEE round-off is measured (1e-9 of scale), the Force "
    "array is compared bit for bit",
    "reading generator locals dmpfrc1 / i_last through gen.gi_frame.f_locals (skipped and "
    "counted if the names disappear)",
]
RULE = (
    "a case is one (solver configuration, request list): random valid histories of length <= 60 "
    "(advance, repeat the current step, jump back, add-ons incl. after redo) on nt in 4..14, all "
    "valid request lists up to a bounded length on a 3-step horizon, and a malformed stream "
    "(add-on first, i >= nt, i = 0, skipped steps); configurations cover SolveUnc real-uncoupled / "
    "complex-coupled / cd_as_force, SolveCDF, SolveExp2, order 0/1, rb / rf blocks, rf-only, m "
    "None / vector / full, static_ic / d0 / v0 / zero; non-trivial = the list contains a redo, a "
    "jump-back or an add-on (the repo's tests send strictly increasing indices); distinct by "
    "(configuration, request list)"
)
ASSUMPTIONS = [
    "get_f2x for the zero-order hold returns zeros by documented design (the static residual-flexibility "
    "response of an order-0 add-on is not reported); the unit-add-on statement is for order 1",
    "generator limitations documented by pyyeti hold: contiguous rb/el/rf blocks (slices), no pre_eig",
    "systems are inside the solvers' conditioning domain (eig_success, distinct roots); others are skipped and counted",
    "real equations of motion (systype float)",
]
PARTIAL = ""
MANIFEST = {
    "level_text": "proof",
    "level_note": (
        "machine-checked: invariant / batch equality / finalize / unit add-on for every valid "
        "history of the abstract one-step machine, cache soundness of the cd-as-force generator "
        "for every request list; tie = per-request correspondence of the real generators with the "
        "Lean machines on the solver's own coefficients"
    ),
    "technique": "Lean 4 proof by induction over request lists + history correspondence",
}

KINDS = ("unc", "cplx", "cdf_flag", "cdf", "exp2")
TOL = 1e-9
_DEV = {"model": 0.0, "batch": 0.0}  # largest |difference| / scale seen (head-room under TOL)


def _dev(which, diff, scale):
    if np.size(diff):
        r = float(np.max(np.abs(diff) / scale))
        if r == r and r > _DEV[which]:
            _DEV[which] = r


# ---------------------------------------------------------------------------------------
# configurations


def _mk_spec(rng, kind, order, nrb, nel, nrf, mstyle, ic, hstep=None, explicit_rb=False):
    """JSON-able description of one solver configuration; DOF order rb, el, rf."""
    n = nrb + nel + nrf
    h = hstep or rng.choice([0.005, 0.01, 0.02])
    mass = [round(rng.uniform(0.5, 3.0), 3) for _ in range(n)]
    if mstyle == "none":
        mass = [1.0] * n
    # distinct elastic frequencies 2..20 Hz
    freqs = sorted(rng.sample([2.0, 3.5, 5.0, 7.0, 9.5, 12.0, 15.0, 19.0], nel))
    zetas = [rng.choice([0.01, 0.03, 0.1, 0.3]) for _ in range(nel)]
    if kind in ("unc",) and nel and rng.random() < 0.35:
        zetas[rng.randrange(nel)] = rng.choice([1.0, 2.0])  # critically / over-damped
    k = [0.0] * nrb
    b = [0.0] * nrb
    for j in range(nel):
        w = 2 * np.pi * freqs[j]
        mm = mass[nrb + j]
        k.append(mm * w * w)
        b.append(2 * zetas[j] * mm * w)
    for j in range(nrf):
        k.append(rng.choice([4.0e5, 1.0e6, 2.5e6]))
        b.append(0.0)
    K = np.diag(k)
    B = np.diag(b)
    M = np.diag(mass)
    el = list(range(nrb, nrb + nel))
    rf = list(range(nrb + nel, n))
    coupled = {"b": False, "k": False, "m": False}
    if kind in ("cplx", "cdf", "cdf_flag", "exp2") and nel >= 2 or kind in ("cdf", "cdf_flag"):
        pool = list(el)
        if kind in ("cdf", "cdf_flag") and nrb and rng.random() < 0.5:
            pool = list(range(nrb + nel))  # damping may also couple the rigid-body rows
            for j in range(nrb):
                B[j, j] = 0.3 * rng.uniform(0.5, 1.5)
        for a_ in pool:
            for c_ in pool:
                if a_ < c_ and rng.random() < 0.8:
                    s = np.sqrt(max(B[a_, a_], 0.05) * max(B[c_, c_], 0.05))
                    B[a_, c_] = B[c_, a_] = rng.choice([-1, 1]) * rng.uniform(0.05, 0.3) * s
        coupled["b"] = bool(np.any(B - np.diag(np.diag(B))))
    if kind in ("cplx", "exp2") and nel >= 2 and rng.random() < 0.5:
        for a_ in el:
            for c_ in el:
                if a_ < c_:
                    s = np.sqrt(K[a_, a_] * K[c_, c_])
                    K[a_, c_] = K[c_, a_] = rng.choice([-1, 1]) * rng.uniform(0.02, 0.1) * s
        coupled["k"] = True
    if kind in ("cplx", "exp2") and mstyle == "full":
        for blk in (list(range(nrb)), el):
            for a_ in blk:
                for c_ in blk:
                    if a_ < c_:
                        s = np.sqrt(M[a_, a_] * M[c_, c_])
                        M[a_, c_] = M[c_, a_] = rng.choice([-1, 1]) * rng.uniform(0.02, 0.15) * s
        coupled["m"] = True
    if kind in ("cplx", "exp2") and nrf == 2 and rng.random() < 0.5 and (coupled["b"] or coupled["k"] or coupled["m"]):
        K[rf[0], rf[1]] = K[rf[1], rf[0]] = 0.1 * np.sqrt(K[rf[0], rf[0]] * K[rf[1], rf[1]])
    if kind == "cplx" and not (coupled["b"] or coupled["k"] or coupled["m"]):
        # force the complex-eigenvalue path with an (uncoupled) 2-d system: one tiny coupling
        if nel >= 2:
            B[el[0], el[1]] = B[el[1], el[0]] = 0.05 * np.sqrt(B[el[0], el[0]] * B[el[1], el[1]])
            coupled["b"] = True

    def enc(A_, is_coupled):
        if is_coupled:
            return A_.tolist()
        d = np.diag(A_).tolist()
        return np.diag(d).tolist() if rng.random() < 0.2 else d

    spec = {
        "kind": kind,
        "order": order,
        "h": h,
        "n": n,
        "nrb": nrb,
        "nel": nel,
        "nrf": nrf,
        "m": None if mstyle == "none" else enc(M, coupled["m"]),
        "b": enc(B, coupled["b"]),
        "k": enc(K, coupled["k"]),
        "rb": (list(range(nrb)) if explicit_rb else None),
        "rf": rf,
        "ic": ic,
    }
    return spec


def _ic(rng, style, n):
    if style == "zero":
        return {"d0": None, "v0": None, "static": False}
    if style == "static":
        return {"d0": None, "v0": None, "static": True}
    if style == "d0v0":
        return {"d0": [rng.gauss(0, 0.01) for _ in range(n)], "v0": [rng.gauss(0, 0.5) for _ in range(n)], "static": bool(rng.random() < 0.3)}
    if style == "v0static":
        return {"d0": None, "v0": [rng.gauss(0, 0.5) for _ in range(n)], "static": True}
    if style == "v0":  # an initial velocity only: nothing else makes the solver apply the initial conditions
        return {"d0": None, "v0": [rng.gauss(0, 0.5) for _ in range(n)], "static": False}
    if style == "d0static":
        return {"d0": [rng.gauss(0, 0.01) for _ in range(n)], "v0": None, "static": True}
    return {"d0": [rng.gauss(0, 0.01) for _ in range(n)], "v0": None, "static": False}


def _configs(ctx, count):
    """A covering set first (every kind x order with rb+rf, m none/given, static/d0v0), then random."""
    rng = ctx.rng
    out = []
    base = []
    for kind in KINDS:
        for order in (1, 0):
            base.append((kind, order, 1, 2, 1, "vec", "static"))
            base.append((kind, order, 0, 2, 0, "none", "d0v0"))
    base.append(("unc", 1, 0, 0, 2, "vec", "zero"))   # rf-only: `if not self.ksize` branch
    base.append(("exp2", 1, 0, 0, 2, "none", "zero"))
    base.append(("cdf", 1, 0, 0, 1, "vec", "zero"))
    base.append(("cplx", 1, 2, 2, 2, "full", "v0static"))
    base.append(("exp2", 1, 1, 3, 2, "full", "d0"))
    base.append(("cplx", 0, 1, 3, 0, "full", "d0v0"))
    for kind in KINDS:  # every option combination of the initial conditions that is not covered above, on every solver
        base.append((kind, 1, 1, 2, 1, "vec", "v0"))
        base.append((kind, 0, 0, 2, 0, "none", "v0"))
        base.append((kind, 1, 1, 2, 0, "full", "d0static"))
    for bi, (kind, order, nrb, nel, nrf, ms, ic) in enumerate(base):
        n = nrb + nel + nrf
        out.append(_mk_spec(rng, kind, order, nrb, nel, nrf, ms, _ic(rng, ic, n)))
        if bi % 2 == 0:
            out[-1]["usage"] = {"f2x_first": True, "f0_dtype": ("int64", "float32", "float64")[(bi // 2) % 3]}
    while len(out) < count:
        kind = rng.choice(KINDS)
        order = rng.choice([0, 1, 1])
        nrb = rng.choice([0, 0, 1, 2])
        nel = rng.choice([1, 2, 2, 3])
        nrf = rng.choice([0, 0, 1, 2])
        ms = rng.choice(["none", "vec", "vec", "full"])
        ic = rng.choice(["zero", "static", "d0v0", "v0static", "d0", "v0", "v0", "d0static"])
        out.append(_mk_spec(rng, kind, order, nrb, nel, nrf, ms, _ic(rng, ic, nrb + nel + nrf),
                            explicit_rb=(rng.random() < 0.3)))
        if rng.random() < 0.45:
            out[-1]["usage"] = {"f2x_first": rng.random() < 0.6,
                                "f0_dtype": rng.choice(["float64", "int64", "float32"])}
    return out


_PROTO = {}


def _build(spec):
    """a fresh solver for the configuration (deep copy of a pristine instance built once)"""
    import copy

    key = json.dumps(spec, sort_keys=True)
    if key not in _PROTO:
        if len(_PROTO) > 4000:
            _PROTO.clear()
        _PROTO[key] = _build_new(spec)
    return copy.deepcopy(_PROTO[key])


def _build_new(spec):
    from pyyeti import ode

    m = None if spec["m"] is None else np.array(spec["m"], dtype=float)
    b = np.array(spec["b"], dtype=float)
    k = np.array(spec["k"], dtype=float)
    kw = dict(h=spec["h"], order=spec["order"])
    if spec["rb"] is not None:
        kw["rb"] = list(spec["rb"])
    if spec["rf"]:
        kw["rf"] = list(spec["rf"])
    kind = spec["kind"]
    with warnings.catch_warnings():
        warnings.simplefilter("ignore")
        if kind in ("unc", "cplx"):
            ts = ode.SolveUnc(m, b, k, **kw)
        elif kind == "cdf_flag":
            ts = ode.SolveUnc(m, b, k, cd_as_force=True, **kw)
        elif kind == "cdf":
            ts = ode.SolveCDF(m, b, k, **kw)
        else:
            ts = ode.SolveExp2(m, b, k, **kw)
    return ts


def _path(ts, spec):
    """which generator implementation the configuration reaches"""
    if spec["kind"] == "exp2":
        return "se2"
    if ts.unc and ts.systype is float:
        return "real-cdf" if ts.cdforces else "real-unc"
    return "complex"


def _well_conditioned(ts, spec):
    pc = getattr(ts, "pc", None)
    if spec["kind"] != "exp2" and pc is not None and hasattr(pc, "eig_success"):
        if not pc.eig_success:
            return False
    return bool(ts.slices)


def _ickw(spec):
    ic = spec["ic"]
    d0 = None if ic["d0"] is None else np.array(ic["d0"], dtype=float)
    v0 = None if ic["v0"] is None else np.array(ic["v0"], dtype=float)
    return dict(d0=d0, v0=v0, static_ic=bool(ic["static"]))


# ---------------------------------------------------------------------------------------
# histories


def _force(rng, n):
    return [rng.choice([1.0, 10.0, 100.0]) * rng.gauss(0, 1) for _ in range(n)]


def _random_history(rng, n, nt, length, finish):
    """valid request list; -1 = add-on"""
    ops = []
    cur = 0
    tags = set()
    redone = False
    for _ in range(length):
        r = rng.random()
        if cur == 0 or (r < 0.45 and cur + 1 < nt):
            i = cur + 1
            redone = False
        elif r < 0.62:
            i = cur
            tags.add("repeat")
            redone = True
        elif r < 0.80 and cur >= 2:
            i = rng.randint(1, cur - 1)
            tags.add("jumpback")
            redone = True
        elif r < 0.80 or cur + 1 >= nt and r < 0.85:
            i = cur
            tags.add("repeat")
            redone = True
        else:
            ops.append([-1, _force(rng, n)])
            tags.add("addon")
            if redone:
                tags.add("addon-after-redo")
            continue
        ops.append([i, _force(rng, n)])
        cur = i
    if finish:
        while cur + 1 < nt:
            cur += 1
            ops.append([cur, _force(rng, n)])
            if rng.random() < 0.2:
                ops.append([-1, _force(rng, n)])
                tags.add("addon")
    return ops, tags


def _valid(ops, nt):
    cur = 0
    for i, _ in ops:
        if i < 0:
            if cur < 1:
                return False
        else:
            if not (1 <= i <= cur + 1 and i < nt):
                return False
            cur = i
    return True


def _tags(ops):
    cur = 0
    tags = set()
    redone = False
    for i, _ in ops:
        if i < 0:
            tags.add("addon")
            if redone:
                tags.add("addon-after-redo")
        else:
            if i == cur and cur > 0:
                tags.add("repeat")
                redone = True
            elif i < cur:
                tags.add("jumpback")
                redone = True
            elif i > cur + 1 or i == 0:
                tags.add("malformed")
            else:
                redone = False
            cur = i
    return tags


def _enumerated(nt, maxlen):
    """all valid request shapes up to maxlen on indices 1..nt-1 (index -1 = add-on)"""
    out = []

    def rec(prefix, cur):
        if prefix:
            out.append(list(prefix))
        if len(prefix) == maxlen:
            return
        for i in range(1, min(cur + 1, nt - 1) + 1):
            rec(prefix + [i], i)
        if cur >= 1:
            rec(prefix + [-1], cur)

    rec([], 0)
    return out


# ---------------------------------------------------------------------------------------
# running the real generator


class _Run:
    """Drive the real generator with a request list, snapshotting after every request."""

    def __init__(self, spec, nt, f0):
        self.spec = spec
        self.ts = _build(spec)
        self.nt = nt
        self.f0 = np.array(f0, dtype=float)
        usage = spec.get("usage") or {}
        # how the caller uses the object (none of this may change any result):
        #  * get_f2x asked for BEFORE the generator is started (the usual Henkel-Mar order), on this very object
        #  * the initial force vector handed over as an integer or single-precision array
        if usage.get("f2x_first"):
            g = np.random.default_rng(7)
            phi = g.normal(size=(2, spec["n"]))
            with warnings.catch_warnings():
                warnings.simplefilter("ignore")
                for velo in (False, True, False):
                    self.ts.get_f2x(phi, velo)
        f0arg = self.f0.copy()
        if usage.get("f0_dtype") == "int64":
            f0arg = np.round(self.f0).astype(np.int64)
            self.f0 = f0arg.astype(float)  # (not np.round(f0): that keeps -0.0)
        elif usage.get("f0_dtype") == "float32":
            f0arg = self.f0.astype(np.float32)
            self.f0 = f0arg.astype(float)
        with warnings.catch_warnings():
            warnings.simplefilter("ignore")
            self.gen, self.d, self.v = self.ts.generator(nt, f0arg, **_ickw(spec))
        self.path = _path(self.ts, spec)

    def hidden(self):
        fr = self.gen.gi_frame
        if fr is None:
            return None
        loc = fr.f_locals
        if "dmpfrc1" in loc and "i_last" in loc:
            return np.array(loc["dmpfrc1"], dtype=float).copy(), int(loc["i_last"])
        return None

    def send(self, i, f):
        """returns None or the error kind"""
        try:
            self.gen.send((i, np.array(f, dtype=float)))
        except UnboundLocalError:
            return "err:unbound"
        except IndexError:
            return "err:index"
        except StopIteration:
            return "err:stop"
        except Exception as e:  # any other refusal
            return "err:" + type(e).__name__
        return None


def _hex(x):
    return struct.pack(">d", float(x)).hex()


def _hexs(a):
    return " ".join(_hex(x) for x in np.asarray(a, dtype=float).ravel())


def _unhex(tok):
    return struct.unpack(">d", bytes.fromhex(tok))[0]


def _dense_maps(run):
    """T, P, Q, S of the one-step map x=[d_nonrf; v_nonrf], r=[d_rf; a_rb(complex path)] from
    the solver's own coefficients, by the formulas documented in the solver sources."""
    ts = run.ts
    spec = run.spec
    n = ts.n
    order = ts.order
    nonrf = np.arange(n)[ts.nonrf]
    rfi = np.arange(n)[ts.rf]
    nn = nonrf.size
    nrf = rfi.size
    path = run.path
    T = np.zeros((2 * nn, 2 * nn))
    P = np.zeros((2 * nn, n))
    Q = np.zeros((2 * nn, n))
    loc = {g: j for j, g in enumerate(nonrf)}  # global -> position inside nonrf
    arb_rows = []
    if nrf:
        if ts.unc:
            ikrf = np.diag(ts.ikrf.ravel())
        else:
            ikrf = np.linalg.inv(np.array(ts.krf, dtype=float))
    if path == "real-unc" or path == "real-cdf":
        if nn:
            pc = ts.pc
            I = np.arange(nn)
            T[I, I] = pc.F
            T[I, nn + I] = pc.G
            T[nn + I, I] = pc.Fp
            T[nn + I, nn + I] = pc.Gp
            if path == "real-cdf":
                return None  # handled by the concrete CdfMachine
            if order == 1:
                P[I, nonrf] = pc.A
                P[nn + I, nonrf] = pc.Ap
                Q[I, nonrf] = pc.B
                Q[nn + I, nonrf] = pc.Bp
            else:
                P[I, nonrf] = pc.A + pc.B
                P[nn + I, nonrf] = pc.Ap + pc.Bp
    elif path == "se2":
        if nn:
            ks = nn
            T[:ks, :ks] = ts.E_dd
            T[:ks, ks:] = ts.E_dv
            T[ks:, :ks] = ts.E_vd
            T[ks:, ks:] = ts.E_vv
            if ts.m is None:
                invm = np.eye(ks)
            elif ts.unc:
                invm = np.diag(1.0 / np.asarray(ts.m, dtype=float))
            else:
                invm = np.linalg.inv(np.asarray(ts.m, dtype=float))
            Pm = np.asarray(ts.P) @ invm
            P[:ks, nonrf] = Pm[ks:]
            P[ks:, nonrf] = Pm[:ks]
            if order == 1:
                Qm = np.asarray(ts.Q) @ invm
                Q[:ks, nonrf] = Qm[ks:]
                Q[ks:, nonrf] = Qm[:ks]
    else:  # complex
        pc = ts.pc
        rb = np.arange(n)[ts.rb]
        el = np.arange(n)[ts.kdof]
        R = np.array([loc[g] for g in rb], dtype=int)
        E = np.array([loc[g] for g in el], dtype=int)
        if rb.size:
            if ts.m is None:
                imrb = np.eye(rb.size)
            elif ts.unc:
                imrb = np.diag(ts.imrb.ravel())
            else:
                m_orig = np.asarray(spec["m"], dtype=float)
                m_orig = np.diag(m_orig) if m_orig.ndim == 1 else m_orig
                imrb = np.linalg.inv(m_orig[np.ix_(rb, rb)])
            T[R, R] = 1.0
            T[R, nn + R] = pc.G
            T[nn + R, nn + R] = 1.0
            if order == 1:
                P[np.ix_(R, rb)] = pc.A * imrb
                Q[np.ix_(R, rb)] = 0.5 * pc.A * imrb
                P[np.ix_(nn + R, rb)] = pc.Ap * imrb
                Q[np.ix_(nn + R, rb)] = pc.Ap * imrb
            else:
                P[np.ix_(R, rb)] = 1.5 * pc.A * imrb
                P[np.ix_(nn + R, rb)] = 2.0 * pc.Ap * imrb
            arb_rows = [(rb, imrb)]
        if el.size:
            if ts.m is None:
                invm = np.eye(el.size)
            elif ts.unc:
                invm = np.diag(1.0 / np.asarray(ts.m, dtype=float))
            else:
                invm = np.linalg.inv(np.asarray(ts.m, dtype=float))
            Z = pc.Fe[:, None] * np.hstack((pc.ur_inv_d, pc.ur_inv_v))
            cols = np.concatenate((E, nn + E))
            T[np.ix_(E, cols)] = pc.rur_d @ Z.real - pc.iur_d @ Z.imag
            T[np.ix_(nn + E, cols)] = pc.rur_v @ Z.real - pc.iur_v @ Z.imag
            Wm = pc.ur_inv_v @ invm
            if order == 1:
                Pz = pc.Ae[:, None] * Wm
                Qz = pc.Be[:, None] * Wm
                Q[np.ix_(E, el)] = pc.rur_d @ Qz.real - pc.iur_d @ Qz.imag
                Q[np.ix_(nn + E, el)] = pc.rur_v @ Qz.real - pc.iur_v @ Qz.imag
            else:
                Pz = (pc.Ae + pc.Be)[:, None] * Wm
            P[np.ix_(E, el)] = pc.rur_d @ Pz.real - pc.iur_d @ Pz.imag
            P[np.ix_(nn + E, el)] = pc.rur_v @ Pz.real - pc.iur_v @ Pz.imag
    nw = nrf + sum(r.size for r, _ in arb_rows)
    S = np.zeros((nw, n))
    if nrf:
        S[np.ix_(np.arange(nrf), rfi)] = ikrf
    row = nrf
    for r, im in arb_rows:
        S[np.ix_(np.arange(row, row + r.size), r)] = im
        row += r.size
    return dict(T=T, P=P, Q=Q, S=S, nonrf=nonrf, rf=rfi,
                arb=(arb_rows[0][0] if arb_rows else np.arange(0)), nx=2 * nn, nw=nw)


def _ops_tokens(ops):
    toks = []
    for i, f in ops:
        if i < 0:
            toks.append("a " + _hexs(f))
        else:
            toks.append("s %d %s" % (i, _hexs(f)))
    return " ".join(toks)


def _lean_request(run, ops):
    """(request line, decoder info) for this run"""
    ts = run.ts
    n = ts.n
    if run.path == "real-cdf" and ts.ksize:
        pc = ts.pc
        kd = np.arange(n)[ts.kdof]
        rfi = np.arange(n)[ts.rf]
        k0, k = (int(kd[0]), kd.size)
        r0, nr = (int(rfi[0]), rfi.size) if rfi.size else (0, 0)
        ikrf = ts.ikrf.ravel() if nr else np.zeros(0)
        head = "cdf %d %d %d %d %d %d %d" % (n, k0, k, r0, nr, run.nt, ts.order)
        coefs = " ".join(_hexs(x) for x in (pc.F, pc.G, pc.A, pc.B, pc.Fp, pc.Gp, pc.Ap, pc.Bp))
        line = " ".join([head, coefs, _hexs(pc.alpha), _hexs(ts.bo)] + ([_hexs(ikrf)] if nr else [])
                        + [_hexs(run.f0), _hexs(run.d[kd, 0]), _hexs(run.v[kd, 0]), _ops_tokens(ops)])
        return line, dict(kind="cdf", kd=kd, rf=rfi, k=k, nr=nr, n=n)
    maps = _dense_maps(run)
    nx, nw = maps["nx"], maps["nw"]
    x0 = np.concatenate((run.d[maps["nonrf"], 0], run.v[maps["nonrf"], 0]))
    head = "lin %d %d %d %d" % (n, nx, nw, run.nt)
    parts = [head]
    for key in ("T", "P", "Q", "S"):
        if maps[key].size:
            parts.append(_hexs(maps[key]))
    parts.append(_hexs(run.f0))
    if nx:
        parts.append(_hexs(x0))
    parts.append(_ops_tokens(ops))
    return " ".join(p for p in parts if p), dict(kind="lin", maps=maps, n=n)


def _decode(rep, info):
    """list of records (col, arrays...) or error strings"""
    out = []
    if rep == "":
        return out
    for rec in rep.split(";"):
        if rec.startswith("err:") or rec == "bad-op":
            out.append(rec)
            continue
        t = rec.split()
        col = int(t[0])
        if info["kind"] == "cdf":
            k, nr, n = info["k"], info["nr"], info["n"]
            vals = [_unhex(x) for x in t[1:1 + 2 * k + nr + n + k]]
            d = np.array(vals[:k])
            v = np.array(vals[k:2 * k])
            r = np.array(vals[2 * k:2 * k + nr])
            f = np.array(vals[2 * k + nr:2 * k + nr + n])
            dmp = np.array(vals[2 * k + nr + n:])
            out.append(dict(col=col, d=d, v=v, r=r, f=f, fbits=t[1 + 2 * k + nr:1 + 2 * k + nr + n],
                            dmp=dmp, ilast=int(t[-1])))
        else:
            m = info["maps"]
            nx, nw, n = m["nx"], m["nw"], info["n"]
            vals = [_unhex(x) for x in t[1:]]
            x = np.array(vals[:nx])
            out.append(dict(col=col, d=x[:nx // 2], v=x[nx // 2:], r=np.array(vals[nx:nx + nw]),
                            f=np.array(vals[nx + nw:nx + nw + n]), fbits=t[1 + nx + nw:1 + nx + nw + n]))
    return out


def _drive(run, ops):
    """run the real generator; per request: error kind or the written column's content plus a
    frame check (no other column changed)"""
    ts = run.ts
    recs = [dict(col=0, dcol=run.d[:, 0].copy(), vcol=run.v[:, 0].copy(), fcol=ts._force[:, 0].copy(),
                 acol=ts._a[:, 0].copy(), hidden=run.hidden())]
    frame_bad = None
    if any(np.any(arr[:, 1:] != 0.0) for arr in (run.d, run.v, ts._force, ts._a)):
        frame_bad = "generator start: columns after the first are not zero"
    cur = None
    for i, f in ops:
        before = (run.d.copy(), run.v.copy(), ts._force.copy(), ts._a.copy())
        err = run.send(i, f)
        if err:
            recs.append(err)
            break
        if i >= 0:
            cur = i
        c = cur
        after = (run.d, run.v, ts._force, ts._a)
        for name, b_, a_ in zip(("d", "v", "force", "a"), before, after):
            mask = np.ones(run.nt, bool)
            mask[c] = False
            if b_[:, mask].tobytes() != a_[:, mask].tobytes():
                frame_bad = frame_bad or "request %r changed array %s outside column %d" % (i, name, c)
        recs.append(dict(col=c, dcol=run.d[:, c].copy(), vcol=run.v[:, c].copy(),
                         fcol=ts._force[:, c].copy(), acol=ts._a[:, c].copy(), hidden=run.hidden()))
    return recs, frame_bad


def _scales(run, sol):
    h = run.spec["h"]
    sd = float(np.abs(sol.d).max()) + h * float(np.abs(sol.v).max()) + h * h * float(np.abs(sol.a).max())
    sd = max(sd, 1e-300)
    return sd, sd / h, sd / (h * h)


def _compare_case(ctx, spec, nt, f0, ops, rep_line, info, run, recs, frame_bad, stream):
    """impl records vs Lean reply; reports disagreements; returns branch tags"""
    inp = {"spec": spec, "nt": nt, "f0": list(f0), "ops": ops, "check": "history"}
    model = _decode(rep_line, info)
    tags = set()
    if frame_bad:
        ctx.disagree(stream + ":frame", inp, frame_bad, "a request writes only its own column")
    if len(model) != len(recs):
        ctx.disagree(stream + ":length", inp, "%d records" % len(recs), "%d records" % len(model))
        return tags
    # scale from the final state of the real run
    ts = run.ts
    try:
        sol = ts.finalize(get_force=True)
        sd, sv, sa = _scales(run, sol)
    except Exception as e:  # finalize must not fail
        ctx.disagree(stream + ":finalize", inp, repr(e), "a solution record")
        return tags
    for step, (a_, m_) in enumerate(zip(recs, model)):
        if isinstance(a_, str) or isinstance(m_, str):
            if a_ != m_:
                ctx.disagree(stream + ":error-kind", dict(inp, step=step - 1), a_ if isinstance(a_, str) else "accepted",
                             m_ if isinstance(m_, str) else "accepted")
            else:
                tags.add(a_)
            continue
        if a_["col"] != m_["col"]:
            ctx.disagree(stream + ":column", dict(inp, step=step - 1), a_["col"], m_["col"])
            continue
        if info["kind"] == "cdf":
            rows_x = info["kd"]
            rows_r = info["rf"]
            r_impl = a_["dcol"][rows_r]
            r_scale = sd
        else:
            mp = info["maps"]
            rows_x = mp["nonrf"]
            r_impl = np.concatenate((a_["dcol"][mp["rf"]], a_["acol"][mp["arb"]]))
            r_scale = np.concatenate((np.full(mp["rf"].size, sd), np.full(mp["arb"].size, sa)))
        bad = None
        _dev("model", a_["dcol"][rows_x] - m_["d"], sd)
        _dev("model", a_["vcol"][rows_x] - m_["v"], sv)
        if np.any(np.abs(a_["dcol"][rows_x] - m_["d"]) > TOL * sd):
            bad = ("d", a_["dcol"][rows_x].tolist(), m_["d"].tolist())
        elif np.any(np.abs(a_["vcol"][rows_x] - m_["v"]) > TOL * sv):
            bad = ("v", a_["vcol"][rows_x].tolist(), m_["v"].tolist())
        elif r_impl.size and np.any(np.abs(r_impl - m_["r"]) > TOL * r_scale):
            bad = ("static-rows", r_impl.tolist(), m_["r"].tolist())
        elif [_hex(x) for x in a_["fcol"]] != [_hex(x) for x in m_["f"]] and not (
                np.array_equal(a_["fcol"], m_["f"])):
            bad = ("force", a_["fcol"].tolist(), m_["f"].tolist())
        if bad:
            ctx.disagree(stream + ":" + bad[0], dict(inp, step=step - 1), bad[1], bad[2])
            break
        if info["kind"] == "cdf":
            hid = a_["hidden"]
            if hid is None:
                ctx.skip("cdf hidden locals dmpfrc1/i_last not readable")
            else:
                if hid[1] != m_["ilast"]:
                    ctx.disagree(stream + ":i_last", dict(inp, step=step), hid[1], m_["ilast"])
                    break
                if np.any(np.abs(hid[0] - m_["dmp"]) > TOL * max(sv * float(np.abs(ts.bo).max()), 1e-300)):
                    ctx.disagree(stream + ":dmpfrc1", dict(inp, step=step), hid[0].tolist(), m_["dmp"].tolist())
                    break
    return tags


def _new_case(ctx, spec, nt, ops, f0=None):
    rng = ctx.rng
    f0 = f0 if f0 is not None else _force(rng, spec["n"])
    return dict(spec=spec, nt=nt, f0=f0, ops=ops)


def _cases(ctx):
    """(case, stream) list"""
    rng = ctx.rng
    cases = []
    specs = _configs(ctx, ctx.pick(300, 1500))
    ctx.extra["configurations"] = len(specs)
    for spec in specs:
        n = spec["n"]
        for _ in range(ctx.pick(4, 6)):
            nt = rng.randint(4, 14)
            ln = rng.choice([rng.randint(1, 12), rng.randint(10, 60)])
            ops, _ = _random_history(rng, n, nt, ln, finish=(rng.random() < 0.6))
            cases.append((_new_case(ctx, spec, nt, ops), "random"))
    # bounded enumeration on a 3-step horizon
    maxlen = ctx.pick(6, 7)
    shapes = _enumerated(4, maxlen)
    nspec = ctx.pick(10, 26)
    ctx.extra["exhaustive_set"] = (
        "all %d valid request lists of length <= %d over {send 1, send 2, send 3, add-on} on a "
        "3-step horizon (nt = 4), on %d covering configurations (every solver kind x order)" % (len(shapes), maxlen, nspec)
    )
    # one covering configuration per (kind, order) pair first
    for spec in (specs[:20:2] if not ctx.thorough else specs[:26])[:nspec]:
        for shape in shapes:
            ops = [[i, _force(rng, spec["n"])] for i in shape]
            cases.append((_new_case(ctx, spec, 4, ops), "enumerated"))
    # malformed stream
    for spec in specs[:20]:
        n = spec["n"]
        f = lambda: _force(rng, n)
        cases.append((_new_case(ctx, spec, 5, [[-1, f()], [1, f()]]), "malformed"))
        cases.append((_new_case(ctx, spec, 5, [[1, f()], [5, f()], [2, f()]]), "malformed"))
        cases.append((_new_case(ctx, spec, 5, [[1, f()], [-1, f()], [9, f()]]), "malformed"))
        cases.append((_new_case(ctx, spec, 5, [[1, f()], [2, f()], [0, f()], [-1, f()], [1, f()]]), "malformed"))
        cases.append((_new_case(ctx, spec, 6, [[1, f()], [3, f()], [-1, f()], [4, f()], [2, f()], [3, f()]]), "malformed"))
        cases.append((_new_case(ctx, spec, 6, [[2, f()], [-3, f()], [3, f()], [1, f()], [2, f()]]), "malformed"))
    return cases


def _f2x_request(run, phi, velo):
    """Lean request for get_f2x through GenMachine.f2x on the same maps"""
    ts = run.ts
    n = ts.n
    ny = phi.shape[0]
    if run.path == "real-cdf" and ts.ksize:
        pc = ts.pc
        kd = np.arange(n)[ts.kdof]
        rfi = np.arange(n)[ts.rf]
        k = kd.size
        nr = rfi.size
        O = np.zeros((ny, 2 * k + nr))
        if velo:
            O[:, k:2 * k] = phi[:, kd]
        else:
            O[:, :k] = phi[:, kd]
            O[:, 2 * k:] = phi[:, rfi]
        ikrf = ts.ikrf.ravel() if nr else np.zeros(0)
        head = "cdff2x %d %d %d %d %d %d %d" % (n, int(kd[0]), k, int(rfi[0]) if nr else 0, nr, ny, ts.order)
        coefs = " ".join(_hexs(x) for x in (pc.F, pc.G, pc.A, pc.B, pc.Fp, pc.Gp, pc.Ap, pc.Bp))
        parts = [head, coefs, _hexs(pc.alpha), _hexs(ts.bo)] + ([_hexs(ikrf)] if nr else []) + [_hexs(O), _hexs(phi.T)]
        return " ".join(parts)
    maps = _dense_maps(run)
    nx, nw = maps["nx"], maps["nw"]
    nn = nx // 2
    O = np.zeros((ny, nx + nw))
    if velo:
        O[:, nn:nx] = phi[:, maps["nonrf"]]
    else:
        O[:, :nn] = phi[:, maps["nonrf"]]
        O[:, nx:nx + maps["rf"].size] = phi[:, maps["rf"]]
    parts = ["f2x %d %d %d %d %d" % (ny, n, nx, nw, ts.order), _hexs(O)]
    for key in ("Q", "S"):
        if maps[key].size:
            parts.append(_hexs(maps[key]))
    parts.append(_hexs(phi.T))
    return " ".join(parts)


def correspondence(ctx):
    drv = ctx.driver("C08")
    cases = _cases(ctx)
    reqs = []
    live = []
    np_rng = ctx.np_rng(8)
    f2x_items = []
    for case, stream in cases:
        spec = case["spec"]
        try:
            run = _Run(spec, case["nt"], case["f0"])
        except Exception as e:
            raise Infra("cannot build configuration %r: %r" % (spec, e))
        if not _well_conditioned(run.ts, spec):
            ctx.skip("outside conditioning domain (eig_success False / not slices)")
            continue
        line, info = _lean_request(run, case["ops"])
        recs, frame_bad = _drive(run, case["ops"])
        reqs.append(line)
        live.append((case, stream, run, info, recs, frame_bad))
    # get_f2x on a sample of configurations
    seen = set()
    for case, stream, run, info, recs, frame_bad in live:
        key = json.dumps(case["spec"], sort_keys=True)
        if key in seen:
            continue
        seen.add(key)
        ny = int(np_rng.integers(1, 4))
        phi = np_rng.normal(size=(ny, run.ts.n))
        for velo in (False, True):
            f2x_items.append((case["spec"], phi, velo))
    f2x_reqs = []
    f2x_live = []
    for spec, phi, velo in f2x_items:
        run = _Run(spec, 3, [0.0] * spec["n"])
        f2x_reqs.append(_f2x_request(run, phi, velo))
        f2x_live.append((spec, phi, velo, run))
    rep = drv.ask(reqs + f2x_reqs)
    hist_rep, f2x_rep = rep[: len(reqs)], rep[len(reqs):]
    for (case, stream, run, info, recs, frame_bad), line in zip(live, hist_rep):
        spec = case["spec"]
        tags = _tags(case["ops"])
        if line == "bad-op":
            raise Infra("driver rejected a C08 request")
        etags = _compare_case(ctx, spec, case["nt"], case["f0"], case["ops"], line, info, run, recs, frame_bad, stream)
        nontrivial = bool(tags & {"repeat", "jumpback", "addon", "malformed"})
        key = (json.dumps(spec, sort_keys=True), json.dumps(case["ops"]))
        ctx.case(key, nontrivial=nontrivial, branch="stream:" + stream)
        ctx.count("path:" + run.path)
        ctx.count("kind:" + spec["kind"])
        ctx.count("order:%d" % spec["order"])
        if spec["nrb"]:
            ctx.count("feat:rb")
        if spec["nrf"]:
            ctx.count("feat:rf")
        if spec["nel"] == 0 and spec["nrb"] == 0:
            ctx.count("feat:rf-only")
        ctx.count("feat:m-none" if spec["m"] is None else "feat:m-given")
        ic = spec["ic"]
        ctx.count("ic:static" if (ic["static"] and ic["d0"] is None) else ("ic:d0v0" if (ic["d0"] is not None or ic["v0"] is not None) else "ic:zero"))
        ctx.count("icopt:d0=%d,v0=%d,static=%d" % (ic["d0"] is not None, ic["v0"] is not None, bool(ic["static"])))
        for t in tags:
            ctx.count("op:" + t)
        for t in etags:
            ctx.count(t)
        if info["kind"] == "cdf":
            hits = 0
            miss = 0
            cur = 0
            for i, _ in case["ops"]:
                if i >= 1:
                    if i - 1 == cur:
                        hits += 1
                    else:
                        miss += 1
                    cur = i
            if hits:
                ctx.count("cdf:cache-hit")
            if miss:
                ctx.count("cdf:cache-miss")
            # the identity cdf_cache_sound assumes, measured
            ts = run.ts
            if ts.ksize:
                al, bo, Bp = ts.pc.alpha, ts.bo, ts.pc.Bp
                res = bo @ (np.eye(ts.ksize) - Bp[:, None] * al) - al
                sc = max(float(np.abs(bo).max()), 1e-300)
                if float(np.abs(res).max()) > 1e-10 * sc:
                    ctx.disagree("cdf:alpha-identity", {"spec": spec, "check": "alpha"}, float(np.abs(res).max()), "<= 1e-10 * |bo|")
        if len(ctx.samples) < 4 and nontrivial and stream == "random":
            ctx.sample({"kind": spec["kind"], "order": spec["order"], "nt": case["nt"],
                        "requests": [i for i, _ in case["ops"]][:40], "path": run.path})
    for (spec, phi, velo, run), line in zip(f2x_live, f2x_rep):
        if line == "bad-op":
            raise Infra("driver rejected a C08 f2x request")
        ny = phi.shape[0]
        model = np.array([_unhex(t) for t in line.split()]).reshape(ny, ny)
        with warnings.catch_warnings():
            warnings.simplefilter("ignore")
            impl = np.asarray(run.ts.get_f2x(phi, velo), dtype=float)
        ctx.case(("f2x", json.dumps(spec, sort_keys=True), velo), nontrivial=(spec["order"] == 1), branch="stream:f2x")
        sc = max(float(np.abs(impl).max()), float(np.abs(model).max()), 1e-300)
        if impl.shape != model.shape or np.any(np.abs(impl - model) > TOL * sc):
            ctx.disagree("f2x", {"spec": spec, "phi": phi.tolist(), "velo": velo, "check": "f2x"}, impl.tolist(), model.tolist())
    ctx.exhaustive = False  # exhaustive only over the finite set named in extra.exhaustive_set
    ctx.extra["max_deviation_over_scale_model"] = _DEV["model"]
    ctx.require_branches(
        ["path:real-unc", "path:real-cdf", "path:complex", "path:se2", "kind:cdf", "kind:cdf_flag",
         "order:0", "order:1", "feat:rb", "feat:rf", "feat:rf-only", "feat:m-none", "feat:m-given",
         "ic:static", "ic:d0v0", "op:repeat", "op:jumpback", "op:addon", "op:addon-after-redo",
         "err:unbound", "err:index", "cdf:cache-hit", "cdf:cache-miss", "stream:enumerated", "stream:f2x"]
    )


# ---------------------------------------------------------------------------------------
# model-free oracle: generator vs batch on the public API


def _close(a, b, scale):
    if a.shape == b.shape:
        _dev("batch", a - b, scale)
    return a.shape == b.shape and not np.any(np.abs(a - b) > TOL * scale) and np.all(np.isfinite(a))


def _oracle_history(spec, nt, f0, ops, every=True):
    """None or (stage, step, observed, required).  Valid histories only."""
    run = _Run(spec, nt, f0)
    ts = run.ts
    if not _well_conditioned(ts, spec):
        return "skip"
    tb = _build(spec)  # separate instance for batch
    n = spec["n"]
    feff = np.zeros((n, nt))
    feff[:, 0] = run.f0
    cur = 0
    kw = _ickw(spec)
    h = spec["h"]

    def batch(c):
        with warnings.catch_warnings():
            warnings.simplefilter("ignore")
            return tb.tsolve(feff[:, : c + 1].copy(), **kw)

    for step, (i, f) in enumerate(ops):
        f = np.array(f, dtype=float)
        err = run.send(i, f)
        if err:
            return ("refused", step, err, "a documented request is accepted")
        if i < 0:
            feff[:, cur] = feff[:, cur] + f
        else:
            feff[:, i] = f
            cur = i
        if every or step == len(ops) - 1:
            sol = batch(cur)
            sd, sv, _ = _scales(run, sol)
            if not _close(run.d[:, : cur + 1], sol.d, sd):
                return ("visible-d", step, run.d[:, : cur + 1].tolist(), sol.d.tolist())
            if not _close(run.v[:, : cur + 1], sol.v, sv):
                return ("visible-v", step, run.v[:, : cur + 1].tolist(), sol.v.tolist())
    with warnings.catch_warnings():
        warnings.simplefilter("ignore")
        fin = ts.finalize(get_force=True)
    sol = batch(cur)
    sd, sv, sa = _scales(run, sol)
    c = cur + 1
    if fin.force[:, :c].tobytes() != feff[:, :c].tobytes():
        return ("finalize-force", len(ops), fin.force[:, :c].tolist(), feff[:, :c].tolist())
    for name, s_ in (("d", sd), ("v", sv), ("a", sa)):
        if not _close(getattr(fin, name)[:, :c], getattr(sol, name), s_):
            return ("finalize-" + name, len(ops), getattr(fin, name)[:, :c].tolist(), getattr(sol, name).tolist())
    if fin.d.shape != (n, nt) or len(fin.t) != nt:
        return ("finalize-shape", len(ops), list(fin.d.shape), [n, nt])
    return None


def _renumber(ops, drop):
    """remove request `drop` and renumber the later sends so that every move (advance / repeat /
    jump back by k) is kept relative to the step reached"""
    out = []
    ocur = 0
    ncur = 0
    for j, (i, f) in enumerate(ops):
        if i < 0:
            if j != drop and ncur >= 1:
                out.append([i, f])
            continue
        delta = i - ocur
        ocur = i
        if j == drop:
            continue
        ni = max(1, ncur + delta)
        out.append([ni, f])
        ncur = ni
    return out


def _shrink(spec, nt, f0, ops):
    """greedy delta debugging on the request list (keeps validity)"""
    best = list(ops)
    res = _oracle_history(spec, nt, f0, best)
    changed = True
    while changed and len(best) > 1:
        changed = False
        for j in range(len(best)):
            for cand in (best[:j] + best[j + 1:], _renumber(best, j)):
                if not cand or not _valid(cand, nt) or cand == best:
                    continue
                r = _oracle_history(spec, nt, f0, cand)
                if r and r != "skip":
                    best, res, changed = cand, r, True
                    break
            if changed:
                break
    return best, res


def _family(spec, ops, stage):
    tags = sorted(_tags(ops) - {"addon-after-redo"}) or ["plain"]
    feats = []
    if spec["nrb"]:
        feats.append("rb")
    if spec["nrf"]:
        feats.append("rf")
    return "%s-order%d-%s-%s%s" % (spec["kind"], spec["order"], "+".join(tags), stage.split("-")[0],
                                   ("-" + "+".join(feats)) if feats else "")


def _oracle_f2x(spec, phi, velo, pre_ops, nt, f0):
    """get_f2x vs the change a unit add-on produces in the current step (order 1), zero for order 0"""
    run0 = _Run(spec, nt, f0)
    if not _well_conditioned(run0.ts, spec):
        return "skip"
    with warnings.catch_warnings():
        warnings.simplefilter("ignore")
        flex = np.asarray(run0.ts.get_f2x(phi, velo), dtype=float)
    ny = phi.shape[0]
    if flex.shape != (ny, ny):
        return ("f2x-shape", 0, list(flex.shape), [ny, ny])
    got = np.zeros((ny, ny))
    order0 = run0.ts.order == 0
    if order0 and np.any(flex != 0.0):
        return ("f2x-order0-nonzero", 0, flex.tolist(), "zeros (documented)")
    nonrf = np.arange(spec["n"])[run0.ts.nonrf]
    for j in range(ny):
        run = _Run(spec, nt, f0)
        cur = 0
        for i, f in pre_ops:
            run.send(i, f)
            if i >= 0:
                cur = i
        arr = run.v if velo else run.d
        before = arr[:, cur].copy()
        e = np.zeros(ny)
        e[j] = 1.0
        err = run.send(-1, phi.T @ e)
        if err:
            return ("f2x-refused", j, err, "accepted")
        if order0:
            # zero-order hold: the add-on must leave d, v of the dynamic rows untouched (the
            # static residual-flexibility rows respond; get_f2x documents zeros for order 0)
            if arr[nonrf, cur].tobytes() != before[nonrf].tobytes():
                return ("f2x-order0-addon-changes-state", j, arr[nonrf, cur].tolist(), before[nonrf].tolist())
            continue
        got[:, j] = phi @ (arr[:, cur] - before)
    sc = max(float(np.abs(flex).max()), float(np.abs(got).max()), 1e-300)
    # the difference of two states loses digits relative to the state itself
    state = float(np.abs(phi).max()) * float(np.abs(run.v if velo else run.d).max())
    if np.any(np.abs(flex - got) > TOL * sc + 1e-12 * state):
        return ("f2x", 0, flex.tolist(), got.tolist())
    return None


def _report(ctx, spec, nt, f0, ops, res, shrink=True):
    if shrink:
        try:
            ops, res = _shrink(spec, nt, f0, ops)
        except Exception:
            pass
    stage, step, obs, req = res
    ctx.fail(
        _family(spec, ops, stage),
        "generator differs from batch tsolve of the force in effect (%s, request %d of %s)" % (stage, step, [i for i, _ in ops]),
        {"spec": spec, "nt": nt, "f0": list(f0), "ops": ops, "check": "history"},
        {"stage": stage, "value": obs},
        {"value": req},
    )


def search(ctx, hints):
    rng = ctx.rng
    done = 0
    # 1. the disagreements of the correspondence run
    for h in hints[:40]:
        inp = h["input"]
        if inp.get("check") == "history" and _valid(inp["ops"], inp["nt"]):
            res = _oracle_history(inp["spec"], inp["nt"], inp["f0"], inp["ops"])
            ctx.count("oracle-hints")
            if res and res != "skip":
                _report(ctx, inp["spec"], inp["nt"], inp["f0"], inp["ops"], res)
        elif inp.get("check") == "f2x":
            spec = inp["spec"]
            phi = np.array(inp["phi"])
            f0 = [1.0] * spec["n"]
            pre = [[1, [0.5] * spec["n"]], [2, [-1.0] * spec["n"]], [1, [2.0] * spec["n"]]]
            res = _oracle_f2x(spec, phi, inp["velo"], pre, 4, f0)
            if res and res != "skip":
                ctx.fail("%s-order%d-f2x-%s" % (spec["kind"], spec["order"], "velo" if inp["velo"] else "disp"),
                         "get_f2x differs from the change a unit add-on produces",
                         {"spec": spec, "phi": inp["phi"], "velo": inp["velo"], "pre_ops": pre, "nt": 4, "f0": f0, "check": "f2x"},
                         res[2], res[3])
        if len(ctx.failures) >= 6:
            return
    # 2. base stream
    specs = _configs(ctx, ctx.pick(150, 600))
    shapes = _enumerated(4, ctx.pick(4, 6))
    reported = set()
    for si, spec in enumerate(specs):
        n = spec["n"]
        todo = []
        for _ in range(ctx.pick(2, 5)):
            nt = rng.randint(4, 12)
            ln = rng.choice([rng.randint(1, 10), rng.randint(10, 40)])
            ops, _ = _random_history(rng, n, nt, ln, finish=(rng.random() < 0.6))
            todo.append((nt, _force(rng, n), ops))
        if si < 20:
            for shape in shapes:
                todo.append((4, _force(rng, n), [[i, _force(rng, n)] for i in shape]))
        for nt, f0, ops in todo:
            res = _oracle_history(spec, nt, f0, ops)
            if res == "skip":
                ctx.skip("oracle: outside conditioning domain")
                break
            ctx.count("oracle-histories")
            done += 1
            if res:
                fam = _family(spec, ops, res[0])
                if fam not in reported:
                    reported.add(fam)
                    _report(ctx, spec, nt, f0, ops, res)
            if len(ctx.failures) >= 6:
                return
        # get_f2x vs unit add-on, after a history with a redo
        np_rng = np.random.default_rng([ctx.seed, 88, si])
        ny = int(np_rng.integers(1, 4))
        phi = np_rng.normal(size=(ny, n))
        pre = [[1, _force(rng, n)], [2, _force(rng, n)], [1, _force(rng, n)], [-1, _force(rng, n)]]
        for velo in (False, True):
            f0 = _force(rng, n)
            res = _oracle_f2x(spec, phi, velo, pre, 4, f0)
            if res == "skip":
                break
            ctx.count("oracle-f2x")
            if res:
                fam = "%s-order%d-f2x-%s" % (spec["kind"], spec["order"], "velo" if velo else "disp")
                if fam not in reported:
                    reported.add(fam)
                    ctx.fail(fam, "get_f2x differs from the change a unit add-on produces (%s)" % res[0],
                             {"spec": spec, "phi": phi.tolist(), "velo": velo, "pre_ops": pre, "nt": 4, "f0": f0, "check": "f2x"},
                             res[2], res[3])
    ctx.extra["oracle_histories"] = done
    ctx.extra["max_deviation_over_scale_batch"] = _DEV["batch"]


def _replay_input(inp):
    if inp.get("check") == "f2x":
        pre = inp.get("pre_ops") or [[1, [0.5] * inp["spec"]["n"]], [2, [-1.0] * inp["spec"]["n"]]]
        return _oracle_f2x(inp["spec"], np.array(inp["phi"]), inp["velo"], pre, inp.get("nt", 4),
                           inp.get("f0", [1.0] * inp["spec"]["n"]))
    if inp.get("check") == "history" and _valid(inp["ops"], inp["nt"]):
        return _oracle_history(inp["spec"], inp["nt"], inp["f0"], inp["ops"])
    return None


def replay(ctx, data):
    if "failure" in data:
        items = [data["failure"]]
    else:  # a no-failing-input-found record: re-evaluate the recorded disagreements with the oracle
        items = [{"family": "recorded-disagreement", "what": d.get("stream"), "input": d["input"]}
                 for d in data.get("disagreements", [])]
    for f in items:
        res = _replay_input(f["input"])
        if res and res != "skip":
            return {"family": f.get("family"), "what": f.get("what"), "input": f["input"],
                    "observed": {"stage": res[0], "value": res[2]}, "required": res[3]}
    return None
