"""C16 — loads-analysis extrema, envelopes and uncertainty factors (DESIGN.md section 6/C16).

Tie: correspondence between the Lean models (lean/PyYetiVerif/Model/Extrema.lean, ExtremaPsd.lean, ExtremaMerge.lean,
ExtremaTree.lean, ExtremaHeap.lean, ExtremaLabels.lean, ExtremaSplit.lean, ApplyUf.lean, ApplyUfFull.lean, ApplyUfDef.lean,
run through Drivers/C16.lean) and the real code imported from the working tree:

  maxmin        cla.maxmin on random matrices (ties, NaN, all-NaN rows, bad x length)      exact
  ext2 / ext1   cla.extrema call histories, two- and one-column, every prefix compared,
                ext_x present/absent, str/list labels, casenum record (permuted)           exact
  time / frf    a harness-built toy event through DR_Event.prepare_results and
                DR_Results.time_data_recovery / frf_data_recovery (2-6 cases, any label and
                j order, EVERY order of the cases for a subset, duplicate labels, stored
                histories, SRS envelopes with slots filled out of order)                   exact
  psd           DR_Results.solvepsd + psd_data_recovery on a toy event (2-4 cases, 1-3 forces,
                2-6 rows, real / complex unit responses, zero forces trimmed or not,
                frequency mismatch, duplicate labels, permuted j, every case order for a
                subset): accumulated PSD, rms, peak, apparent frequency at Float (1e-12);
                the compare-and-move part on the implementation's own peaks              numeric + exact
  form          DR_Results.merge + form_extreme, flat and nested, all doappend settings,
                case_order, SRS envelopes                                                  exact
  addmm         DR_Results.add_maxmin events (abscissae present / absent, str / list labels),
                merge, form_extreme twice (stale 'extreme' deleted)                        exact
  merge         DR_Results.merge key bookkeeping: base / nested / enveloped results, rename_dict,
                duplicate event names refused                                              exact
  calc-ext      DR_Results.calc_ext on crafted per-case columns (NaN-propagating numpy max /
                argmax, labels, ext_x reset, SRS envelope)                                 exact
  stat-ext      DR_Results.calc_stat_ext (mean +/- k sigma, ddof = 1; also srs.ext) at Float numeric (1e-12)
  uf            DR_Event.apply_uf / cla.apply_uf with vector m, b, k (m None allowed), rb /
                rf modes, real and complex solutions, shared / fresh `save`                numeric
  uf-full       the same with 2-D k (symmetric or not), m None / vector / matrix, b vector /
                matrix, C- and Fortran-ordered caller matrices, coupling entries between the
                partitions, caller's matrices unchanged; rfmodes as None / one integer / index
                array (sorted or not) / boolean mask, sent to the model IN THAT FORM (normRf);
                Lean model at Float, once with the implementation's own factorisation
                (lu_solve(lup, I)) as the inverse and once with the inverse the driver computes
                from k[ee], k[rf, rf] by Gauss-Jordan                                      numeric
  tree          nested DR_Results (1-3 levels, base events and groups mixed, empty groups, one or two
                categories, stale 'extreme' entries formed before the last member was added or with
                another doappend): form_extreme at every level against Model/ExtremaTree.lean, key
                order, `cases`, form twice, delete_extreme, delete_extreme then form_extreme,
                all_categories / all_base_events / all_nonbase_events                      exact
  heap          cla.extrema histories and form_extreme over add_maxmin events with every input object
                created beforehand and handed in as it is: after the history EVERY input cell (ext,
                ext_x, label lists) and the accumulator are compared with the store of
                Model/ExtremaHeap.lean (abscissae always / never / sometimes given)        exact
  psd-srs       psd_data_recovery(dosrs=True): per-case spectra against C03's vrs model run on the
                model's own accumulated PSD (srsconv, peak factor or resp_time, eqsine), envelope on
                the implementation's own spectra; solvepsd(use_apply_uf=True) with modal data, rb / rf
                modes and non-unit factors: the unit-force responses come from the Rat model of
                apply_uf                                                             numeric + exact

  labform       DR_Results.form_extreme over events whose categories list DIFFERENT ROWS: recovery events
                (time_data_recovery, 1-3 load cases, so .mx / .mn exist), add_maxmin events and groups (lower-level
                envelopes), 2-4 members, label lists identical / permuted / subset / superset / disjoint / partly
                overlapping / with a repeated label (same list: accepted, other list: ValueError), abscissae given by all /
                none / some members, a second category carried by some events only, case_order, doappend 0-3; every
                `_calc_extreme` level against Model/ExtremaLabels.lean on whole tables: row labels and their order,
                ext, ext_x (or its absence), maxcase, mincase, mx, mn, mx_x, mn_x, the exception kind                exact
  mergelists    locate.merge_lists on random lists (with and without repeated items)                         exact
  split         DR_Results.split on recovery events (case numbers in any order; a column never filled: TypeError)
                against Model/ExtremaSplit.lean on the implementation's own per-case columns                  exact
  ufdef         DR_Def.add(uf_reds=...) with / without defaults['uf_reds'], None entries anywhere                exact

Exactness: everything the extrema code does to a value is compare / negate / move, so every double
is sent to the Int model as its order-preserving, odd-symmetric integer key (IEEE bit pattern with
the sign folded); no rounding is involved.  Diagonal apply_uf runs at Rat in the model and is compared with
|impl - model| <= 1e-9 * scale; full apply_uf, PSD numerics and calc_stat_ext run the same polymorphic
definitions at Float (doubles travel as bit patterns).

The model-free oracle (`search`) restates the property on the public API: brute-force maxima /
minima over the inputs, labels and abscissae of an attaining case, order independence of values,
envelope of parts, idempotence of form_extreme, calc_ext agreement, the PSD sum over the forces /
trapezoid rms / linearity / force-order independence, merge refusals, the documented apply_uf formulas
(also for full matrices, via numpy.linalg.solve) and cache transparency, nested structures (parts
bit-identical, every group's envelope, no stale 'extreme', idempotence, delete-then-form, traversal order), the
documented vibration response spectrum of the response PSD and its envelope, mean + k sigma with ddof = 1;
form_extreme BY ROW LABEL (for every label the envelope over exactly the members that list it, governing label and
abscissa of an attaining member, per-case columns NaN where a member lacks the row, row order = the documented merge,
values independent of the event order, parts untouched, ValueError exactly for a repeated label against another
list), merge_lists' documented equations, split() giving every case its own columns under its own label, and the
documented reset of None entries of uf_reds.
"""
import copy
import itertools
import struct
import warnings
from fractions import Fraction
from types import SimpleNamespace

import numpy as np

from runner import Infra

ID = "C16"
LEAN_MODULES = ["PyYetiVerif.Props.C16", "PyYetiVerif.Props.C16Full", "PyYetiVerif.Props.C16FullRoutine", "PyYetiVerif.Props.C16Pipe",
                "PyYetiVerif.Props.C16Psd", "PyYetiVerif.Props.C16FullRf", "PyYetiVerif.Props.C16Stat", "PyYetiVerif.Props.C16Tree",
                "PyYetiVerif.Props.C16Heap", "PyYetiVerif.Props.C16Labels", "PyYetiVerif.Props.C16LabelsNest", "PyYetiVerif.Props.C16Split",
                "PyYetiVerif.Audit.C16"]
AUDIT_FILE = "PyYetiVerif/Audit/C16.lean"
THEOREMS = [
    "PyYetiVerif.C16." + n
    for n in (
        "ext_is_fold_max spec_determines_result ext_values_order_independent envelope_of_parts "
        "time_recovery_is_global_extreme "
        "srs_env_is_max srs_env_order_independent srs_env_form percase_columns "
        "ext_is_fold_absmax_onecol onecol_broadcast_counterexample uf_split uf_unit uf_scaling "
        "cache_transparent "
        "uf_split_full uf_split_full_routine uf_scaling_full uf_unit_full cache_transparent_full cache_transparent_blocks "
        "uf_scaling_full_routine uf_unit_full_routine "
        "frf_recovery_is_abs_extreme merge_of_disjoint_case_sets_is_one_pass merge_refuses_duplicates "
        "store_refuses_duplicates calc_ext_is_fold_max stat_ext_sanity "
        "psd_recovery_is_sum_over_forces psd_row_is_sum_over_forces rms_is_trapz_sqrt peak_is_factor_times_rms "
        "meansquare_is_linear psd_recovery_is_peak_extreme "
        "rows_partition uf_scaling_full_routine_rf uf_unit_full_routine_rf cache_transparent_full_rf rf_forms_agree "
        "stat_ext_def stat_ext_order_independent stat_ext_monotone_in_k "
        "form_extreme_idempotent form_extreme_keeps_parts delete_extreme_spec nested_traversal_order "
        "form_extreme_flat_is_envelope form_extreme_does_not_modify_parts aliased_first_call_modifies_part "
        "psd_srs_env_is_max_over_cases psd_srs_case_scaling heap_run_is_run2 nested_envelope_is_recursive_extrema "
        "merge_lists_spec form_extreme_by_label form_extreme_row_is_first_best form_extreme_label_order "
        "expand_missing_rows_neutral form_extreme_event_order_values_independent form_extreme_refuses_repeated_labels "
        "form_extreme_accepts_differing_rows abscissa_of_governing_event_mixed cases_label_matches_column "
        "split_pairs_cases_with_columns uf_reds_none_entries_documented "
        "form_extreme_nested_by_label_values"
    ).split()
]
TRUSTED = [
    "correspondence harness harness/props/c16.py (exact on order keys of doubles; 1e-9 relative for apply_uf; 1e-12 for PSD numerics and calc_stat_ext)",
    "numpy vectorisation over rows: the model is per row, every row of the implementation's tables is compared",
    "numpy kernels nanargmax/nanargmin/fmax/abs/max/argmax/mean/std and fancy indexing behave as modelled (re-measured by the streams)",
    "list.index / list.insert / slicing (merge_lists) and numpy's `new[pv] = old`, `arr[:, j] = col`, boolean .nonzero() "
    "behave as Model/ExtremaLabels.lean has them (re-measured by the mergelists / labform streams)",
    "pyyeti.srs.srs / srs_frf produce the per-case spectra; only their storage and envelope are in scope; srs.vrs is C03's "
    "model Srs.vrsOne (imported read-only), compared at 1e-9 with the oscillator frequencies inside the analysis grid",
    "Python object identity is modelled by Model/ExtremaHeap.lean (arrays / lists = cells of a store); that numpy's .copy(), "
    "copy.copy, list slicing and r*[s] allocate and that element assignment writes in place is what the heap streams re-measure",
    "scipy.linalg.lu_factor/lu_solve: enter the model as a matrix (the factorisation applied to the identity); that this matrix "
    "inverts k[ee] is re-measured on every run by the `gauss` variant of the uf-full stream (the driver inverts k[ee] itself)",
    "IEEE double arithmetic of Lean's Float for the numeric streams (uf-full, psd, stat-ext)",
    "the toy solver handed to solvepsd (d = G * genforce) stands for pyyeti.ode.SolveUnc.fsolve; abs(resp)**2 is modelled as re^2 + im^2",
]
RULE = (
    "seeded random call histories: 1-4 rows, 1-6 calls, values from small integer alphabets (ties frequent), "
    "halves and wide doubles, NaN density 0/15/50 %, abscissae present or absent per history, labels as one "
    "string or one per row, casenum absent / in order / permuted; toy events with 2-6 cases in random label "
    "and j order plus every order of the cases for a subset; PSD toy events with 2-4 cases, 1-3 forces, 2-6 rows, "
    "3-7 frequencies on a dyadic grid, integer force PSDs and integer (complex) unit responses; form_extreme over 2-5 "
    "events flat or in 2-3 groups with doappend 0-3; add_maxmin events; merge name lists with repeats and renames; "
    "apply_uf with 1-6 modes, 0-2 rigid-body and 0-2 residual-flexibility modes (rfmodes None / integer / index array in "
    "either order / boolean mask), 1-4 factor tuples, vector and full (symmetric or not, C / Fortran ordered) matrices; "
    "nested results of depth 1-3 with 1-3 members per group and stale 'extreme' entries; extrema histories with all inputs "
    "created beforehand; PSD events with SRS (1-3 oscillator frequencies on the grid, Q 10 / 25, eqsine, resp_time) and "
    "with solvepsd(use_apply_uf=True) (modal vectors, 0-2 rb, 0-2 rf modes, factors from {0.5, 1, 1.25, 1.5, 2}); "
    "form_extreme over 2-4 members (recovery events with 1-3 load cases, add_maxmin events, groups) whose categories list "
    "1-6 row labels drawn from a pool of 8 in the patterns identical / permuted / subset / disjoint / overlap / random / "
    "repeated label (36 fixed pattern x shape combinations first, then random ones); merge_lists on lists of 0-5 items; "
    "split() on recovery events; DR_Def.add with defaults / uf_reds entries from {0, 0.5, 1, 1.25, 1.5, 2, None}. One case = one history / event / structure compared on all rows "
    "and all prefixes; non-trivial = at least two calls and at least one replacement after the first call (extrema), "
    "at least one non-rigid mode (apply_uf), an accepted event (recovery streams); distinct by the canonical input."
)
ASSUMPTIONS = [
    "form_extreme over events that list different rows: the events carry no SRS (srs.ext is enveloped by position, "
    "the label merge does not touch it); a table without ext_x is sent to the model with NaN abscissae (EvOk.nox: the "
    "code never reads them)",
    "apply_uf: stiffness of every non-rigid-body mode is non-zero / k[ee] and k[rf, rf] are invertible; all calls sharing a "
    "save dict use the same sol, m, b, k, nrb, rfmodes; rfmodes index modes at or above nrb",
    "PSD recovery: every case has at least one non-zero force PSD (with all forces zero and allow_force_trimming the code "
    "raises TypeError in _calc_rms); solvepsd and psd_data_recovery are called alternately per case (as documented); "
    "the SRS oscillator frequencies of a PSD event lie on the analysis frequency grid (srs.vrs merges the two grids and "
    "interpolates otherwise: C03's subject); uncertainty factors through frf_apply_uf with unit factors, through apply_uf "
    "(use_apply_uf=True) with vector m, b, k and any factors",
    "calc_stat_ext: at least two cases (ddof=1)",
    "nested results: a dictionary holds either categories or dictionaries (what merge / prepare_results build); no category "
    "is named 'extreme'; all base events carry the same categories",
]
PARTIAL = (
    "full-matrix apply_uf is now proved as a whole routine with and without residual-flexibility modes, the factorisations "
    "entering as matrices with k[e,e] * KeeInv = 1, k[r,r] * KrrInv = 1 (that lu_factor / lu_solve deliver such matrices is "
    "re-measured by the `gauss` variant, not proved); rfmodes below nrb or with repeated indices are outside the theorems "
    "(and outside what the routine documents); the store model of cla.extrema (Model/ExtremaHeap.lean) covers the two-column "
    "branch (what form_extreme / merge / the recovery routines use); "
    "init_extreme_cat's copies (srs.ext deepcopy, new NaN arrays) are listed in the model header and "
    "covered by the oracle rule only; calc_stat_ext is proved per row over a field with an abstract square root; the SRS of "
    "the response PSD uses C03's vrs model with the oscillator frequencies on the analysis grid (no interpolation); "
    "solvepsd(use_apply_uf=True) is driven with vector modal data only; strip_hists / set_dr_order / "
    "rptext-style reports are text and are not modelled; across NESTED levels the by-label "
    "envelope is tied level by level (every _calc_extreme call is compared with formCat on the implementation's own lower "
    "envelopes) and the composition is proved for the VALUES (form_extreme_nested_by_label_values), labels and abscissae "
    "at ties across levels only for equal rows (nested_envelope_is_recursive_extrema + envelope_of_parts); the SRS "
    "envelope of events that list different rows is outside the model; split() is modelled for ext / ext_x / cases "
    "(hist / psd / srs slabs are covered by the oracle rule only)"
)
MANIFEST = {
    "level_text": "proof",
    "level_note": "Lean theorems about the exact per-row model of extrema/maxmin/envelopes/per-case records, the time, frf and "
                  "PSD recovery pipelines (PSD = sum over forces, rms = sqrt of the trapezoid area, peaks mirrored, SRS envelope "
                  "of PSD responses = maximum over cases), merge / _store_maxmin refusals, calc_ext, calc_stat_ext (mean +/- k "
                  "std with ddof 1, order independent, monotone in k), apply_uf with its explicit cache for vector and full "
                  "modal matrices (full: the whole routine with and without residual-flexibility modes given as index list, "
                  "mask or integer; rows rb | el | rf written exactly once; stiffness factorisations as data with K * KInv = 1), "
                  "nested results (delete_extreme, form_extreme idempotent and restoring after delete_extreme, parts kept, the "
                  "nested envelope = extrema applied recursively, traversal order of all_categories / all_base_events) and a "
                  "store model of cla.extrema with the frame theorem that forming an envelope never writes into its parts and "
                  "the refinement theorem that it computes the value model's running extreme; form_extreme over events that list "
                  "different rows (merge_lists' documented equations; for every row label the envelope over exactly the events "
                  "that list it with label and abscissa of the first attaining event, per-case columns NaN where an event lacks "
                  "the row, row order = iterated merge, values independent of the event order and the same through nested levels, "
                  "missing rows never win, repeated labels refused); the case-label list names the per-case columns whatever the order of the calls and split() "
                  "pairs each label with its own column; tie by exact / numeric correspondence on the real "
                  "code; measured only: that scipy's LU inverts the partitions, the vrs kernel (C03's model at 1e-9); the "
                  "findings F56-F58 of this check (None entries of uf_reds, abscissa of another event, KeyError for add_maxmin "
                  "events that list other rows) are repaired in /repo, model and theorems follow the repaired code (by-label "
                  "envelope and store/value agreement for any mix of events with and without abscissae, the documented uf_reds "
                  "defaults in full) and the oracle rules remain as regression guards",
    "technique": "Lean 4 proof + differential correspondence + model-free oracle",
}

NAN = float("nan")

# families of findings of this check that were repaired in /repo (known_findings.json: fixed); the oracle rules stay as
# regression guards and report a revert of the repair under the same family
FIXED_F56 = "drdef-add-uf-reds-none-entry-ignores-defaults"  # fix: commit 8b1ec50
FIXED_F57 = "form-extreme-abscissa-of-another-event-when-governing-event-has-none"  # fix: commit 19ddbb5
FIXED_F58 = "form-extreme-differing-rows-add-maxmin-event-keyerror"  # fix: commit 40cd789


# ---------------------------------------------------------------------------------------
# helpers


def fkey(x):
    """order-preserving, odd-symmetric integer key of a double; None for NaN"""
    x = float(x)
    if x != x:
        return None
    b = struct.unpack("<q", struct.pack("<d", x))[0]
    return b if b >= 0 else -(b & 0x7FFFFFFFFFFFFFFF)


def tok(k):
    return "nan" if k is None else str(k)


def ftok(x):
    return tok(fkey(x))


def arr(lst, dtype=float):
    """nested lists with None -> ndarray with NaN"""
    return np.array([[NAN if v is None else v for v in row] for row in lst], dtype=dtype)


def unarr(a):
    a = np.asarray(a, dtype=float)
    return [[None if v != v else float(v) for v in row] for row in a.tolist()]


def _values(rng, n, style, nanp):
    out = []
    for _ in range(n):
        if rng.random() < nanp:
            out.append(None)
        elif style == "small":
            out.append(float(rng.randint(-3, 3)))
        elif style == "half":
            out.append(rng.randint(-6, 6) / 2.0)
        elif style == "pm":
            out.append(float(rng.choice([-2, 2, -1, 1])))
        else:
            out.append(rng.uniform(-1e3, 1e3) * 10 ** rng.randint(-3, 3))
    return out


# ---------------------------------------------------------------------------------------
# cla.extrema histories


def gen_hist(rng, cols):
    r = rng.randint(1, 4)
    n = rng.randint(1, 6)
    style = rng.choice(["small", "small", "half", "pm", "wide"])
    nanp = rng.choice([0.0, 0.0, 0.15, 0.5])
    hasx = rng.random() < 0.7
    mode = rng.choice(["none", "order", "perm"])
    js = list(range(n))
    if mode == "perm":
        rng.shuffle(js)
    calls = []
    for c in range(n):
        ext = [_values(rng, cols, style, nanp) for _ in range(r)]
        if c == 0 and rng.random() < 0.2:
            ext = [[None] * cols for _ in range(r)]  # NaN first case
        ext_x = [[float(rng.randint(0, 9)) for _ in range(cols)] for _ in range(r)] if hasx else None
        lab = "c%d" % c
        maxcase = lab if rng.random() < 0.5 else ["%s.r%d" % (lab, i) for i in range(r)]
        k = rng.random()
        if cols == 1 or k < 0.4:
            mincase = None
        elif k < 0.7:
            mincase = "m%d" % c
        else:
            mincase = ["m%d.r%d" % (c, i) for i in range(r)]
        calls.append({"ext": ext, "ext_x": ext_x, "maxcase": maxcase, "mincase": mincase,
                      "casenum": None if mode == "none" else js[c]})
    if n > 1 and rng.random() < 0.2:
        # abscissae given by some calls only (since fix 19ddbb5 a call without contributes NaN abscissae)
        for c in calls:
            c["ext_x"] = [[float(rng.randint(0, 9)) for _ in range(cols)] for _ in range(r)] if rng.random() < 0.6 else None
    return {"kind": "ext%d" % cols, "rows": r, "n": n, "calls": calls}


def run_hist(h, order=None):
    """run the real cla.extrema over the history; returns snapshots after every call + records"""
    from pyyeti import cla

    r, n = h["rows"], h["n"]
    cur = SimpleNamespace(ext=None, ext_x=None, maxcase=None, mincase=None)
    for nm in ("mx", "mn", "mx_x", "mn_x"):
        setattr(cur, nm, np.full((r, n), NAN))
    snaps = []
    calls = h["calls"] if order is None else [h["calls"][i] for i in order]
    cur.inputs = []  # what was handed in (object, labels) -- must still be what it was afterwards
    for c in calls:
        mm = SimpleNamespace(ext=arr(c["ext"]), ext_x=None if c["ext_x"] is None else arr(c["ext_x"]))
        mxc, mnc = copy.deepcopy(c["maxcase"]), copy.deepcopy(c["mincase"])
        cla.extrema(cur, mm, mxc, mnc, c["casenum"])
        cur.inputs.append((c, mm, mxc, mnc))
        snaps.append((cur.ext.copy(), None if cur.ext_x is None else cur.ext_x.copy(),
                      list(cur.maxcase), list(cur.mincase)))
    return snaps, cur


def _lab(c, which, i):
    v = c[which]
    if which == "mincase" and v is None:
        v = c["maxcase"]
    return v if isinstance(v, str) else v[i]


def hist_requests(h):
    """one request per (prefix, row) plus the per-case records"""
    cols = 1 if h["kind"] == "ext1" else 2
    reqs = []
    for p in range(1, h["n"] + 1):
        for i in range(h["rows"]):
            segs = []
            for c in h["calls"][:p]:
                x = c["ext_x"][i] if c["ext_x"] is not None else [None] * cols
                if cols == 2:
                    segs.append("%s %s %s %s %s %s" % (
                        ftok_n(c["ext"][i][0]), ftok_n(x[0]), _lab(c, "maxcase", i),
                        ftok_n(c["ext"][i][1]), ftok_n(x[1]), _lab(c, "mincase", i)))
                else:
                    segs.append("%s %s %s" % (ftok_n(c["ext"][i][0]), ftok_n(x[0]), _lab(c, "maxcase", i)))
            reqs.append("ext%d ; " % cols + " ; ".join(segs))
    if h["calls"][0]["casenum"] is not None:
        for i in range(h["rows"]):
            for nm, col, xx in (("mx", 0, False), ("mn", cols - 1, False), ("mx_x", 0, True), ("mn_x", cols - 1, True)):
                ws = []
                for c in h["calls"]:
                    if xx:
                        v = c["ext_x"][i][col] if c["ext_x"] is not None else None
                    else:
                        v = c["ext"][i][col]
                    ws.append("%d %s" % (c["casenum"], ftok_n(v)))
                reqs.append("rec %d ; " % h["n"] + " ; ".join(ws))
    return reqs


def ftok_n(v):
    return "nan" if v is None else ftok(v)


def hist_impl_replies(h):
    """what the driver should answer if the implementation agrees with the model"""
    try:
        snaps, cur = run_hist(h)
    except Exception as e:  # the model never refuses a well-formed history
        return ["exception:" + type(e).__name__] * len(hist_requests(h))
    hasx = h["calls"][0]["ext_x"] is not None
    mixed = spec_mixedx(h)
    out = []
    for ext, ext_x, mxc, mnc in snaps:
        for i in range(h["rows"]):
            if not mixed and hasx != (ext_x is not None):
                out.append("ext_x-presence-differs")
                continue
            if ext_x is not None and ext_x.shape != ext.shape:
                out.append("ext_x-shape-%s-differs-from-ext-%s" % (ext_x.shape, ext.shape))
                continue
            x0 = ftok(ext_x[i, 0]) if ext_x is not None else "nan"
            x1 = ftok(ext_x[i, 1]) if ext_x is not None else "nan"
            out.append("%s %s %s %s %s %s" % (ftok(ext[i, 0]), x0, mxc[i], ftok(ext[i, 1]), x1, mnc[i]))
    if h["calls"][0]["casenum"] is not None:
        for i in range(h["rows"]):
            for nm in ("mx", "mn", "mx_x", "mn_x"):
                out.append(" ".join(ftok(v) for v in getattr(cur, nm)[i]))
    return out


def hist_nontrivial(h, replies):
    if h["n"] < 2:
        return False
    r = h["rows"]
    first = replies[:r]
    last = replies[(h["n"] - 1) * r: h["n"] * r]
    return first != last


# ---------------------------------------------------------------------------------------
# cla.maxmin


def gen_mm(rng):
    r = rng.randint(1, 4)
    c = rng.choice([0, 1, 2, 3, 5, 8])
    style = rng.choice(["small", "pm", "half", "wide"])
    nanp = rng.choice([0.0, 0.2, 0.6])
    resp = [_values(rng, c, style, nanp) for _ in range(r)]
    if r and c and rng.random() < 0.15:
        resp[rng.randrange(r)] = [None] * c
    x = sorted(set(rng.uniform(0, 10) for _ in range(c)))
    while len(x) < c:
        x.append(x[-1] + 1.0 if x else 0.0)
    if rng.random() < 0.08:
        x = x[:-1] if x else [1.0]
    return {"kind": "mm", "resp": resp, "x": x}


def mm_impl(m):
    from pyyeti import cla

    resp = arr(m["resp"]) if m["resp"] and m["resp"][0] else np.zeros((len(m["resp"]), 0))
    try:
        with warnings.catch_warnings():
            warnings.simplefilter("ignore")
            out = cla.maxmin(resp, np.array(m["x"], dtype=float))
    except ValueError:
        return "value-error"
    return out


# ---------------------------------------------------------------------------------------
# toy event through DR_Results


def gen_event(rng, domain=None, event="Ev", rows=None, srs=None, dup=None):
    domain = domain or rng.choice(["time", "time", "frf"])
    r = rows or rng.randint(1, 4)
    n = rng.randint(2, 6)
    nt = rng.randint(3, 10)
    style = rng.choice(["small", "pm", "half", "wide"])
    want_srs = (rng.random() < 0.6) if srs is None else srs
    nanp = rng.choice([0.0, 0.1])
    if want_srs and domain == "frf":
        nanp = 0.0
    labels = ["%s-%c" % (event, "ABCDEFGH"[i]) for i in range(n)]
    rng.shuffle(labels)
    if dup is None:
        dup = rng.random() < 0.06
    if dup:
        labels[rng.randrange(1, n)] = labels[0]
    js = list(range(n))
    if rng.random() < 0.3:
        rng.shuffle(js)
    resp = []
    for _ in range(n):
        m = [_values(rng, nt, style, nanp) for _ in range(r)]
        for row in m:  # maxmin refuses an all-NaN row
            if all(v is None for v in row):
                row[0] = 0.0
        if domain == "frf":
            m = [[None if v is None else (v if rng.random() < 0.7 else None) for v in row] for row in m]
            for row in m:
                if all(v is None for v in row):
                    row[0] = 1.0
            if want_srs:
                m = [[0.0 if v is None else v for v in row] for row in m]
        resp.append(m)
    imag = rng.random() < 0.4
    histpv = rng.choice(["all", None, "first"])
    srspv = None
    if want_srs:
        srspv = sorted(rng.sample(range(r), rng.randint(1, r)))
    return {"kind": "event", "domain": domain, "event": event, "rows": r, "labels": labels, "js": js,
            "resp": resp, "nt": nt, "imag": imag, "histpv": histpv, "srspv": srspv,
            "Qs": [10] if rng.random() < 0.5 else [10, 25]}


def event_x(spec):
    if spec["domain"] == "time":
        return np.arange(spec["nt"]) * 0.01
    return 1.0 + np.arange(spec["nt"]) * 0.5


def event_resp(spec, k):
    a = arr(spec["resp"][k])
    if spec["domain"] == "frf":
        return a * (1j if spec["imag"] else 1.0) + 0j
    return a


def build_event(spec, order=None):
    """returns (results, DR, error kind or None); the cases are fed in spec order (or `order`)"""
    from pyyeti import cla

    uf = (1, 1, 1, 1)
    defaults = dict(se=0, uf_reds=uf, srsfrq=np.array([5.0, 10.0, 20.0]))
    drdefs = cla.DR_Def(defaults)
    kw = dict(name="cat", desc="toy category", labels=["row%d" % i for i in range(spec["rows"])],
              drfunc="sol.d")
    if spec["histpv"] == "all":
        kw["histpv"] = "all"
    elif spec["histpv"] == "first":
        kw["histpv"] = [0]
    if spec["srspv"] is not None:
        kw["srsQs"] = list(spec["Qs"])
        kw["srspv"] = list(spec["srspv"])
    with warnings.catch_warnings():
        warnings.simplefilter("ignore")
        drdefs.add(**kw)
        DR = cla.DR_Event()
        DR.add(None, drdefs)
        res = DR.prepare_results("mission", spec["event"])
        x = event_x(spec)
        n = len(spec["labels"])
        idx = range(n) if order is None else order
        for k in idx:
            d = event_resp(spec, k)
            if spec["domain"] == "time":
                sol = {uf: SimpleNamespace(d=d, t=x, h=0.01)}
                try:
                    res.time_data_recovery(sol, None, spec["labels"][k], DR, n, spec["js"][k])
                except ValueError:
                    return res, DR, "value-error"
            else:
                sol = {uf: SimpleNamespace(d=d, f=x)}
                try:
                    res.frf_data_recovery(sol, None, spec["labels"][k], DR, n, spec["js"][k])
                except ValueError:
                    return res, DR, "value-error"
    return res, DR, None


def event_requests(spec):
    x = " ".join(ftok(v) for v in event_x(spec))
    reqs = []
    for i in range(spec["rows"]):
        segs = []
        for k, lab in enumerate(spec["labels"]):
            d = event_resp(spec, k)[i]
            v = np.abs(d) if spec["domain"] == "frf" else d
            segs += [lab, " ".join(ftok(t) for t in v), x]
        reqs.append("%s ; " % spec["domain"] + " ; ".join(segs))
    reqs.append("store %d ; " % len(spec["labels"]) +
                " ; ".join("%d %s" % (j, l) for j, l in zip(spec["js"], spec["labels"])))
    return reqs


def event_compare(spec, res, err, replies):
    """returns a list of (what, impl, model) differences"""
    diffs = []
    n = len(spec["labels"])
    store = replies[-1]
    if (err == "value-error") != (store == "value-error"):
        return [("refusal", err, store)]
    if err:
        return []
    cat = res["cat"]
    if [c if isinstance(c, str) else "-" for c in cat.cases] != store.split():
        diffs.append(("cases", list(cat.cases), store))
    for i in range(spec["rows"]):
        rep = replies[i]
        if rep == "value-error":
            diffs.append(("row%d" % i, "ok", rep))
            continue
        cur, per = rep.split(" | ")
        impl_cur = "%s %s %s %s %s %s" % (ftok(cat.ext[i, 0]), ftok(cat.ext_x[i, 0]), cat.maxcase[i],
                                          ftok(cat.ext[i, 1]), ftok(cat.ext_x[i, 1]), cat.mincase[i])
        if impl_cur != cur:
            diffs.append(("ext row%d" % i, impl_cur, cur))
        per = [p.split() for p in per.split(" , ")]
        for k in range(n):
            j = spec["js"][k]
            impl_p = [ftok(cat.mx[i, j]), ftok(cat.mx_x[i, j]), ftok(cat.mn[i, j]), ftok(cat.mn_x[i, j])]
            model_p = [per[k][0], per[k][1], per[k][3], per[k][4]]
            if impl_p != model_p:
                diffs.append(("per-case row%d case%d" % (i, k), impl_p, model_p))
    return diffs


def event_store_checks(spec, res):
    """stored histories and spectra (exact); returns differences"""
    from pyyeti import srs

    diffs = []
    cat = res["cat"]
    name = "hist" if spec["domain"] == "time" else "frf"
    n = len(spec["labels"])
    if spec["histpv"] is not None:
        pv = slice(None) if spec["histpv"] == "all" else [0]
        for k in range(n):
            want = event_resp(spec, k)[pv]
            got = getattr(cat, name)[spec["js"][k]]
            if got.shape != want.shape or not np.array_equal(got, want, equal_nan=True):
                diffs.append(("stored history case%d" % k, got.tolist(), want.tolist()))
    elif hasattr(cat, name):
        diffs.append(("history stored without histpv", True, False))
    if spec["srspv"] is not None:
        x = event_x(spec)
        for q in spec["Qs"]:
            for k in range(n):
                rr = event_resp(spec, k)[spec["srspv"]].T
                with warnings.catch_warnings():
                    warnings.simplefilter("ignore")
                    if spec["domain"] == "time":
                        want = srs.srs(rr, 1 / 0.01, np.array([5.0, 10.0, 20.0]), q).T
                    else:
                        want = srs.srs_frf(rr, x, np.array([5.0, 10.0, 20.0]), q).T
                got = cat.srs.srs[q][spec["js"][k]]
                if got.shape != want.shape or not np.array_equal(got, want, equal_nan=True):
                    diffs.append(("stored spectrum Q%s case%d" % (q, k), got.tolist(), want.tolist()))
    return diffs


def env_requests(stack, form=False):
    """stack: (ncases, m, nf) array in call order -> one request per (row, frequency)"""
    op = "envf" if form else "env"
    reqs = []
    for a in range(stack.shape[1]):
        for b in range(stack.shape[2]):
            reqs.append(op + " " + " ".join(ftok(v) for v in stack[:, a, b]))
    return reqs


# ---------------------------------------------------------------------------------------
# form_extreme / merge


def gen_form(rng):
    r = rng.randint(1, 3)
    ne = rng.randint(2, 5)
    srs = rng.random() < 0.5
    domain = rng.choice(["time", "time", "frf"])
    events = [gen_event(rng, domain=domain, event="E%d" % e, rows=r, srs=srs, dup=False) for e in range(ne)]
    if srs:
        for e in events:
            e["srspv"] = events[0]["srspv"]
            e["Qs"] = events[0]["Qs"]
    nested = rng.random() < 0.5
    groups = None
    if nested:
        ng = rng.randint(2, min(3, ne))
        cuts = sorted(rng.sample(range(1, ne), ng - 1))
        groups = [list(range(a, b)) for a, b in zip([0] + cuts, cuts + [ne])]
    order = None
    if not nested and rng.random() < 0.4:
        order = list(range(ne))
        rng.shuffle(order)
        if rng.random() < 0.3 and ne > 2:
            order = order[:-1]
    return {"kind": "form", "events": events, "groups": groups, "doappend": rng.randint(0, 3),
            "case_order": order}


_SNAPS = []  # snapshots of the parts of the last build_form call, taken before merge / form_extreme


def build_form(spec, perm=None, regroup=None):
    from pyyeti import cla

    evs = []
    for e in spec["events"]:
        res, DR, err = build_event(e)
        if err:
            raise Infra("toy event refused: %s" % err)
        evs.append(res)
    groups = spec["groups"] if regroup is None else regroup
    _SNAPS[:] = [_snapshot(res["cat"]) for res in evs]
    with warnings.catch_warnings():
        warnings.simplefilter("ignore")
        top = cla.DR_Results()
        if groups is None:
            idx = list(range(len(evs))) if perm is None else perm
            top.merge([evs[i] for i in idx])
            co = None
            if spec["case_order"] is not None and perm is None:
                co = [spec["events"][i]["event"] for i in spec["case_order"]]
            top.form_extreme("Envelope", case_order=co, doappend=spec["doappend"])
        else:
            for g, members in enumerate(groups):
                sub = cla.DR_Results()
                sub.merge([evs[i] for i in members])
                top["G%d" % g] = sub
            top.form_extreme("Envelope", doappend=spec["doappend"])
    return top, evs


def _part_requests(parts, names, use_ext, doappend, rows, srs_q):
    """model requests for one `_calc_extreme` level: parts are result namespaces in case order"""
    reqs = []
    for i in range(rows):
        segs = []
        for nm, p in zip(names, parts):
            segs.append("%s %s %s %s %s %s" % (
                ftok(p.ext[i, 0]), _px(p, i, 0), _mk(nm, p.maxcase[i], use_ext, doappend),
                ftok(p.ext[i, 1]), _px(p, i, 1), _mk(nm, p.mincase[i], use_ext, doappend)))
        reqs.append("ext2 ; " + " ; ".join(segs))
    n = len(parts)
    for i in range(rows):
        for col, fld in ((0, "ext"), (1, "ext"), (0, "ext_x"), (1, "ext_x")):
            reqs.append("rec %d ; " % n + " ; ".join(
                "%d %s" % (j, "nan" if getattr(p, fld) is None else ftok(getattr(p, fld)[i, col]))
                for j, p in enumerate(parts)))
    for q in srs_q:
        reqs += env_requests(np.stack([p.srs.ext[q] for p in parts]), form=True)
    return reqs


_LBL = {}


def _mk(case, lower, use_ext, doappend):
    """label through the Lean model's mkCaseLbl (filled by a first driver pass)"""
    key = (case, lower, use_ext, doappend)
    _LBL.setdefault(key, None)
    v = _LBL[key]
    return v if v is not None else "?"


def _level_replies(ext, rows, srs_q):
    out = []
    for i in range(rows):
        out.append("%s %s %s %s %s %s" % (ftok(ext.ext[i, 0]), _px(ext, i, 0), ext.maxcase[i],
                                          ftok(ext.ext[i, 1]), _px(ext, i, 1), ext.mincase[i]))
    for i in range(rows):
        for nm in ("mx", "mn", "mx_x", "mn_x"):
            out.append(" ".join(ftok(v) for v in getattr(ext, nm)[i]))
    for q in srs_q:
        e = ext.srs.ext[q]
        out += [ftok(e[a, b]) for a in range(e.shape[0]) for b in range(e.shape[1])]
    return out


def form_levels(spec, top, evs):
    """[(parts, names, use_ext, extreme namespace)] for every level formed"""
    levels = []
    if spec["groups"] is None:
        idx = spec["case_order"] if spec["case_order"] is not None else list(range(len(evs)))
        names = [spec["events"][i]["event"] for i in idx]
        levels.append(([evs[i]["cat"] for i in idx], names, False, top["extreme"]["cat"]))
    else:
        gparts = []
        for g, members in enumerate(spec["groups"]):
            names = [spec["events"][i]["event"] for i in members]
            levels.append(([evs[i]["cat"] for i in members], names, False, top["G%d" % g]["extreme"]["cat"]))
            gparts.append(top["G%d" % g]["extreme"]["cat"])
        levels.append((gparts, ["G%d" % g for g in range(len(gparts))], True, top["extreme"]["cat"]))
    return levels


# ---------------------------------------------------------------------------------------
# apply_uf

_UFV = [Fraction(1), Fraction(1), Fraction(5, 4), Fraction(3, 2), Fraction(2), Fraction(1, 2), Fraction(0), Fraction(3)]


def gen_uf(rng, full=False):
    n = rng.randint(1, 6)
    nrb = rng.choice([0, 0, 1, 2])
    nrb = min(nrb, n)
    if rng.random() < 0.08:
        nrb = n
    nonrb = list(range(nrb, n))
    nrf = min(rng.choice([0, 0, 1, 2]), len(nonrb))
    rf = sorted(rng.sample(nonrb, nrf)) if nrf else []
    rfmode = rng.choice(["index", "bool"]) if rf else None
    if rf and len(rf) == 1 and rng.random() < 0.3:
        rfmode = "scalar"
    rforder = None
    if rfmode == "index" and len(rf) > 1 and rng.random() < 0.5:
        rforder = rf[::-1]  # an index array need not be sorted: np.ix_ / fancy indexing take it as it comes
    nt = rng.randint(1, 4)
    q = lambda: Fraction(rng.randint(-8, 8), rng.choice([1, 2, 4]))
    mkind = rng.choice(["none", "vec", "vec"])
    m = None if mkind == "none" else [Fraction(rng.randint(1, 5)) for _ in range(n)]
    b = [Fraction(rng.randint(0, 4), rng.choice([1, 2])) for _ in range(n)]
    k = [Fraction(0) if i < nrb else Fraction(rng.choice([-3, 1, 2, 3, 5, 8]), rng.choice([1, 2])) for i in range(n)]
    cplx = rng.random() < 0.3
    sol = {nm: [[q() for _ in range(nt)] for _ in range(n)] for nm in ("a", "v", "d")}
    soli = {nm: [[q() for _ in range(nt)] for _ in range(n)] for nm in ("a", "v", "d")} if cplx else None
    nuf = rng.randint(1, 4)
    ufs = []
    while len(ufs) < nuf:
        t = tuple(rng.choice(_UFV) for _ in range(4))
        if t not in ufs:
            ufs.append(t)
    if rng.random() < 0.3 and (Fraction(1),) * 4 not in ufs:
        ufs[rng.randrange(len(ufs))] = (Fraction(1),) * 4
    pg = [[q() for _ in range(nt)] for _ in range(rng.randint(1, 2))] if rng.random() < 0.6 else None
    spec = {"kind": "uf", "n": n, "nrb": nrb, "rf": rf, "rfmode": rfmode, "rforder": rforder, "m": m, "b": b, "k": k,
            "sol": sol, "soli": soli, "ufs": ufs, "pg": pg, "full": False}
    if full:
        # full matrices: k 2-D (symmetric or not; the elastic and rf partitions are what the routine uses), m absent /
        # vector / matrix, b vector / matrix; optionally non-zero coupling entries between the partitions (ignored by
        # the routine and by the documented formula alike)
        g = np.random.default_rng(rng.randrange(1 << 30))

        def spd(idx, skew=False):
            a = g.integers(-2, 3, (len(idx), len(idx))).astype(float)
            out = a @ a.T + 3 * np.eye(len(idx))
            if skew:
                t = g.integers(-1, 2, (len(idx), len(idx))).astype(float)
                out = out + (t - t.T)
            return out

        el = [i for i in nonrb if i not in rf]
        nonsym = rng.random() < 0.5
        mform = rng.choice(["none", "vec", "mat", "mat"])
        bform = rng.choice(["vec", "mat", "mat"])
        K = np.zeros((n, n))
        for idx in (el, rf):
            if idx:
                K[np.ix_(idx, idx)] = spd(idx, nonsym)
        M = np.eye(n)
        B = np.zeros((n, n))
        if mform == "vec":
            M = np.diag(g.integers(1, 6, n).astype(float))
        elif mform == "mat" and el:
            M[np.ix_(el, el)] = spd(el)
        if bform == "vec":
            B = np.diag(g.integers(0, 5, n) / 2.0)
        elif el:
            B[np.ix_(el, el)] = spd(el, nonsym) / 4
        coupled = bool(el and rf and rng.random() < 0.3)
        if coupled:
            for A, ok in ((K, True), (M, mform == "mat"), (B, bform == "mat")):
                if ok:
                    A[np.ix_(el, rf)] = g.integers(-2, 3, (len(el), len(rf)))
                    A[np.ix_(rf, el)] = g.integers(-2, 3, (len(rf), len(el)))
        # memory layout of the caller's matrices: C order, Fortran order (what op4/MATLAB readers and LAPACK-based
        # routines return) -- a routine that lets LAPACK work in place behaves differently on the two
        spec.update(full=True, K=K.tolist(), M=M.tolist(), B=B.tolist(), layout=rng.choice(["C", "F", "F"]),
                    mform=mform, bform=bform, coupled=coupled, nonsym=nonsym)
    return json_fr(spec)


def json_fr(o):
    """Fractions -> 'p/q' strings so that specs are JSON-able"""
    if isinstance(o, Fraction):
        return "%d/%d" % (o.numerator, o.denominator)
    if isinstance(o, dict):
        return {k: json_fr(v) for k, v in o.items()}
    if isinstance(o, (list, tuple)):
        return [json_fr(v) for v in o]
    return o


def fr(s):
    return Fraction(s)


def uf_arrays(spec):
    f = lambda lst: np.array([[float(fr(v)) for v in row] for row in lst])
    sol = SimpleNamespace(a=f(spec["sol"]["a"]), v=f(spec["sol"]["v"]), d=f(spec["sol"]["d"]))
    if spec["soli"] is not None:
        sol.a = sol.a + 1j * f(spec["soli"]["a"])
        sol.v = sol.v + 1j * f(spec["soli"]["v"])
        sol.d = sol.d + 1j * f(spec["soli"]["d"])
    if spec["pg"] is not None:
        sol.pg = f(spec["pg"])
    if spec["full"]:
        m, b, k = np.array(spec["M"]), np.array(spec["B"]), np.array(spec["K"])
        if spec.get("layout") == "F":
            m, b, k = np.asfortranarray(m), np.asfortranarray(b), np.asfortranarray(k)
        mform, bform = spec.get("mform", "mat"), spec.get("bform", "mat")
        if mform == "none":
            m = None
        elif mform == "vec":
            m = np.diag(m).copy()
        if bform == "vec":
            b = np.diag(b).copy()
    else:
        m = None if spec["m"] is None else np.array([float(fr(v)) for v in spec["m"]])
        b = np.array([float(fr(v)) for v in spec["b"]])
        k = np.array([float(fr(v)) for v in spec["k"]])
    rf = None
    if spec["rf"]:
        if spec["rfmode"] == "bool":
            rf = np.zeros(spec["n"], bool)
            rf[spec["rf"]] = True
        elif spec["rfmode"] == "scalar":
            rf = spec["rf"][0]
        else:
            rf = np.array(spec.get("rforder") or spec["rf"])
    ufs = [tuple(float(fr(v)) for v in u) for u in spec["ufs"]]
    return sol, m, b, k, rf, ufs


def uf_request(spec, part):
    kinds = ["rb" if i < spec["nrb"] else ("rf" if i in spec["rf"] else "el") for i in range(spec["n"])]
    segs = [" ".join(u) for u in spec["ufs"]] + [""]
    s = spec["sol"] if part == "re" else spec["soli"]
    for i in range(spec["n"]):
        t = [kinds[i], "none" if spec["m"] is None else spec["m"][i], spec["b"][i], spec["k"][i]]
        for j in range(len(s["a"][i])):
            t += [s["a"][i][j], s["v"][i][j], s["d"][i][j]]
        segs.append(" ".join(t))
    return "uf ; " + " ; ".join(segs)


def uf_parse(rep):
    """-> [uf][mode][sample] -> 5 floats"""
    out = []
    for u in rep.split(" | "):
        out.append([[[float(Fraction(t)) for t in smp.split()] for smp in md.split(" , ")]
                    for md in u.split(" ; ")])
    return np.array(out)  # (U, n, nt, 5)


def uf_impl_all(spec):
    """three call disciplines; each returns list over ufs of (a, v, d, ds, dd) stacked (n, nt, 5)"""
    from pyyeti import cla
    from pyyeti.cla import dr_event

    sol, m, b, k, rf, ufs = uf_arrays(spec)
    pack = lambda o: np.stack([o.a, o.v, o.d, o.d_static, o.d_dynamic], axis=-1)
    res = {}
    DR = cla.DR_Event()
    DR.UF_reds = list(ufs)
    so = DR.apply_uf(sol, m, b, k, spec["nrb"], rf)
    res["event"] = [pack(so[u]) for u in ufs]
    save = {}
    raw = [dr_event.apply_uf(sol, u, m, b, k, spec["nrb"], rf, save) for u in ufs]
    res["shared"] = [pack(o) for o in raw]
    res["fresh"] = [pack(dr_event.apply_uf(sol, u, m, b, k, spec["nrb"], rf)) for u in ufs]
    # results returned earlier are still what they were after the later calls
    res["earlier_unchanged"] = all(np.array_equal(pack(o), p, equal_nan=True) for o, p in zip(raw, res["shared"])) and \
        all(np.array_equal(pack(so[u]), p, equal_nan=True) for u, p in zip(ufs, res["event"]))
    pgs = [getattr(so[u], "pg", None) for u in ufs]
    _, m0, b0, k0, _, _ = uf_arrays(spec)
    res["inputs_unchanged"] = all(x is None or np.array_equal(x, y) for x, y in ((m, m0), (b, b0), (k, k0)))
    return res, pgs


# ---------------------------------------------------------------------------------------
# doubles as bit patterns (numeric streams run the Lean model at Float)


def f2b(x):
    return str(struct.unpack("<Q", struct.pack("<d", float(x)))[0])


def b2f(s):
    return struct.unpack("<d", struct.pack("<Q", int(s)))[0]


def fbits(a):
    return " ".join(f2b(v) for v in np.asarray(a, dtype=float).ravel())


def _close(a, b, tol):
    """|a - b| <= tol * (1 + |b|) elementwise, NaN matching NaN; returns the largest violation ratio or None"""
    a = np.asarray(a, dtype=float)
    b = np.asarray(b, dtype=float)
    if a.shape != b.shape:
        return "shape %r vs %r" % (a.shape, b.shape)
    na, nb = np.isnan(a), np.isnan(b)
    if not np.array_equal(na, nb):
        return "NaN pattern differs"
    with np.errstate(invalid="ignore"):
        bad = np.abs(a - b) > tol * (1.0 + np.abs(b))
    bad &= ~na
    if bad.any():
        return float(np.max(np.abs(a - b)[bad]))
    return None


# ---------------------------------------------------------------------------------------
# apply_uf, full (2-D) stiffness: Lean model at Float


def uf_impl_inverse(spec):
    """what the implementation's own factorisations do to the identity: (kinvE, kinvR)"""
    import scipy.linalg as la
    from pyyeti.cla import dr_event

    sol, m, b, k, rf, ufs = uf_arrays(spec)
    if spec["nrb"] == spec["n"]:
        return np.zeros((0, 0)), np.zeros((0, 0))
    save = {}
    dr_event.apply_uf(sol, ufs[0], m, b, k, spec["nrb"], rf, save)

    def inv(lup):
        if lup is None:
            return np.zeros((0, 0))
        return la.lu_solve(lup, np.eye(lup[0].shape[0]))

    return inv(save["lup_elastic"]), inv(save["lup_rf"])


def rf_token(spec):
    """`rfmodes` in the form the implementation is given: none | scalar i | idx i... | mask 0/1..."""
    if not spec["rf"]:
        return "none"
    if spec["rfmode"] == "scalar":
        return "scalar %d" % spec["rf"][0]
    if spec["rfmode"] == "bool":
        return "mask " + " ".join("1" if i in spec["rf"] else "0" for i in range(spec["n"]))
    return "idx " + " ".join(str(i) for i in (spec.get("rforder") or spec["rf"]))


def uffull_requests(spec, kinvE, kinvR):
    """[given-re, gauss-re(, given-im, gauss-im)]"""
    sol, m, b, k, rf, ufs = uf_arrays(spec)
    n, nrb = spec["n"], spec["nrb"]
    nt = sol.a.shape[1]
    head = ["%d %d %d" % (n, nrb, nt), rf_token(spec),
            "none" if m is None else (("vec " if m.ndim == 1 else "mat ") + fbits(m)),
            ("vec " if b.ndim == 1 else "mat ") + fbits(b), fbits(k)]
    ufsegs = [" ".join(f2b(x) for x in u) for u in ufs]
    parts = [np.real, np.imag] if spec["soli"] is not None else [np.real]
    reqs = []
    for part in parts:
        body = [fbits(part(sol.a)), fbits(part(sol.v)), fbits(part(sol.d))]
        reqs.append(" ; ".join(["uffull given"] + head + [fbits(kinvE), fbits(kinvR)] + body + ufsegs))
        reqs.append(" ; ".join(["uffull gauss"] + head + ["", ""] + body + ufsegs))
    return reqs


def uffull_parse(rep):
    """-> (U, n, nt, 5) or None when the driver answered `singular`"""
    if rep == "singular":
        return None
    out = []
    for u in rep.split(" | "):
        cols = []
        for c in u.split(" ; "):
            cols.append([[b2f(t) for t in g.split()] for g in c.split(" , ")])  # 5 x n
        out.append(cols)
    return np.transpose(np.array(out), (0, 3, 1, 2))  # (U, nt, 5, n) -> (U, n, nt, 5)


# ---------------------------------------------------------------------------------------
# PSD recovery: DR_Results.solvepsd / psd_data_recovery on a harness-built toy event


class _ToyFS:
    """stands for pyyeti.ode.SolveUnc: `fsolve` returns the unit-force response d = G * genforce (a = v = 0); with
    modal data (`solvepsd(use_apply_uf=True)`) also a = A * genforce, v = V * genforce and the members solvepsd reads:
    n, rf, rfsize, m_orig, b_orig, k_orig"""

    def __init__(self, G, A=None, V=None, au=None):
        self.G, self.A, self.V = G, A, V
        if au is not None:
            self.n = len(au["k"])
            self.rf = np.array(au["rf"], dtype=int) if au["rfform"] == "index" else \
                np.array([i in au["rf"] for i in range(self.n)])
            self.rfsize = len(au["rf"])
            self.m_orig = None if au["m"] is None else np.array(au["m"], dtype=float)
            self.b_orig = np.array(au["b"], dtype=float)
            self.k_orig = np.array(au["k"], dtype=float)

    def fsolve(self, genforce, freq, **kwargs):
        d = self.G * genforce
        if self.A is None:
            return SimpleNamespace(a=np.zeros_like(d), v=np.zeros_like(d), d=d)
        return SimpleNamespace(a=self.A * genforce, v=self.V * genforce, d=d)


def gen_psd(rng, event="Psd"):
    r = rng.randint(2, 6)
    n = rng.randint(2, 4)
    nf = rng.randint(3, 7)
    freq = [1.0]
    for _ in range(nf - 1):
        freq.append(freq[-1] + rng.choice([0.5, 1.0, 2.0]))
    labels = ["%s-%c" % (event, "ABCDEFGH"[i]) for i in range(n)]
    rng.shuffle(labels)
    js = list(range(n))
    k = rng.random()
    dup = badfreq = None
    if k < 0.06:
        dup = rng.randrange(1, n)
        labels[dup] = labels[0]
    elif k < 0.12:
        badfreq = rng.randrange(1, n)
    elif k < 0.45:
        rng.shuffle(js)
    cplx = rng.random() < 0.4
    cases = []
    for _ in range(n):
        nfc = rng.randint(1, 3)
        F = [[float(rng.randint(0, 4)) for _ in range(nf)] for _ in range(nfc)]
        if nfc > 1 and rng.random() < 0.2:
            F[rng.randrange(nfc)] = [0.0] * nf
        if not any(any(row) for row in F):
            # with every force PSD zero and allow_force_trimming the loop over the forces never runs, `_psd[case]`
            # stays the float 0.0 and psd_data_recovery raises TypeError: outside the toy event's domain
            F[0][rng.randrange(nf)] = 1.0
        t = [[rng.randint(-2, 2) for _ in range(nfc)] for _ in range(r)]
        if rng.random() < 0.1:
            t[rng.randrange(r)] = [0] * nfc  # a row nothing excites: rms 0, apparent frequency 0/0
        G = [[rng.randint(-3, 3) for _ in range(nf)] for _ in range(r)]
        Gi = [[rng.randint(-3, 3) for _ in range(nf)] for _ in range(r)] if cplx else None
        cases.append({"F": F, "t": t, "G": G, "Gi": Gi})
    spec = {"kind": "psd", "event": event, "rows": r, "labels": labels, "js": js, "freq": freq, "cases": cases,
            "pf": rng.choice([3.0, 3.0, 2.5, 1.0]), "trim": rng.random() < 0.3, "dup": dup, "badfreq": badfreq,
            "histpv": rng.choice(["all", None, "first"]), "srs": None, "applyuf": None}
    g = random_like(rng)
    if g.random() < 0.5:
        # SRS of the response PSD (dosrs=True -> srs.vrs): oscillator frequencies inside the analysis grid
        nfn = g.randint(1, min(3, nf))
        spec["srs"] = {"Qs": [10] if g.random() < 0.5 else [10, 25], "pv": sorted(g.sample(range(r), g.randint(1, r))),
                       "fn": sorted(g.sample(range(nf), nfn)), "resp_time": g.choice([None, None, 20.0]),
                       "eqsine": g.random() < 0.3, "conv": g.choice([1.0, 1.0, 2.0])}
    if g.random() < 0.4:
        # solvepsd(use_apply_uf=True): the rows are the modes; modal data and non-unit factors as in the uf stream
        nrb = g.choice([0, 0, 1, 2])
        nrb = min(nrb, r - 1)
        nonrb = list(range(nrb, r))
        nrf = min(g.choice([0, 0, 1, 2]), len(nonrb) - 1)
        rf = sorted(g.sample(nonrb, nrf)) if nrf else []
        spec["applyuf"] = {
            "nrb": nrb, "rf": rf, "rfform": g.choice(["index", "bool"]),
            "m": None if g.random() < 0.3 else [float(g.randint(1, 5)) for _ in range(r)],
            "b": [g.randint(0, 4) / 2.0 for _ in range(r)],
            "k": [0.0 if i < nrb else g.choice([-3, 1, 2, 3, 5, 8]) / g.choice([1.0, 2.0]) for i in range(r)],
            "uf": [g.choice([1.0, 1.0, 1.25, 1.5, 2.0, 0.5]) for _ in range(4)]}
        for c in cases:
            c["A"] = [[g.randint(-3, 3) for _ in range(nf)] for _ in range(r)]
            c["V"] = [[g.randint(-3, 3) for _ in range(nf)] for _ in range(r)]
            c["Ai"] = [[g.randint(-3, 3) for _ in range(nf)] for _ in range(r)] if cplx else None
            c["Vi"] = [[g.randint(-3, 3) for _ in range(nf)] for _ in range(r)] if cplx else None
    return spec


def random_like(rng):
    """a second generator seeded from the first: new features draw from it, the older streams keep their draws"""
    import random

    return random.Random(rng.randrange(1 << 30))


def _cplx(c, re, im):
    a = np.array(c[re], dtype=float)
    return a + (1j * np.array(c[im], dtype=float) if c.get(im) is not None else 0j)


def psd_sol(spec, k):
    """modal unit-force solutions of case k (use_apply_uf): list over forces of (a, v, d), each (modes, nf) complex"""
    c = spec["cases"][k]
    t = np.array(c["t"], dtype=float)
    G, A, V = _cplx(c, "G", "Gi"), _cplx(c, "A", "Ai"), _cplx(c, "V", "Vi")
    return [(A * t[:, [i]], V * t[:, [i]], G * t[:, [i]]) for i in range(t.shape[1])]


def psd_uf_specs(spec, k):
    """the unit-force solutions of case k as `uf` stream specs (one per force) for the Rat model of apply_uf"""
    au = spec["applyuf"]
    q = lambda x: json_fr(Fraction(float(x)))
    out = []
    for a, v, d in psd_sol(spec, k):
        cplx = spec["cases"][k]["Gi"] is not None
        part = lambda f: {"a": [[q(x) for x in row] for row in f(a)], "v": [[q(x) for x in row] for row in f(v)],
                          "d": [[q(x) for x in row] for row in f(d)]}
        out.append({"kind": "uf", "n": spec["rows"], "nrb": au["nrb"], "rf": au["rf"],
                    "m": None if au["m"] is None else [q(x) for x in au["m"]], "b": [q(x) for x in au["b"]],
                    "k": [q(x) for x in au["k"]], "sol": part(np.real), "soli": part(np.imag) if cplx else None,
                    "ufs": [[q(x) for x in au["uf"]]]})
    return out


def psd_resp_documented(spec, k):
    """what apply_uf documents for the displacement, straight from its docstring (oracle side; plain numpy)"""
    au = spec["applyuf"]
    ruf, euf, duf, suf = au["uf"]
    n = spec["rows"]
    m = np.ones(n) if au["m"] is None else np.array(au["m"])
    b, kk = np.array(au["b"]), np.array(au["k"])
    el = [i for i in range(au["nrb"], n) if i not in au["rf"]]
    out = []
    for a, v, d in psd_sol(spec, k):
        r = np.zeros_like(d)
        av = m[el, None] * a[el] + b[el, None] * v[el]
        r[el] = euf * (suf * (av + kk[el, None] * d[el]) - duf * av) / kk[el, None]
        r[au["rf"]] = euf * suf * d[au["rf"]]
        out.append(r)
    return out


def psd_resp(spec, k):
    """unit-force responses of case k: list over forces of (rows, nf) complex arrays"""
    c = spec["cases"][k]
    G = np.array(c["G"], dtype=float) + (1j * np.array(c["Gi"], dtype=float) if c["Gi"] is not None else 0j)
    t = np.array(c["t"], dtype=float)
    return [G * t[:, [i]] for i in range(t.shape[1])]


def psd_fn(spec):
    return np.array([spec["freq"][i] for i in spec["srs"]["fn"]])


def psd_pf(spec):
    """peak factor per oscillator frequency: `peak_factor`, or sqrt(2 log(resp_time f)) when resp_time is given"""
    sr = spec["srs"]
    fn = psd_fn(spec)
    if sr["resp_time"] is not None:
        return np.sqrt(2 * np.log(sr["resp_time"] * fn))
    return np.full(len(fn), float(spec["pf"]))


def build_psd(spec, order=None, force_perm=False, scale=1.0):
    """returns (results, error kind or None); cases are solved and recovered one after the other"""
    from pyyeti import cla

    au, sr = spec.get("applyuf"), spec.get("srs")
    uf = (1, 1, 1, 1) if au is None else tuple(au["uf"])
    drdefs = cla.DR_Def(dict(se=0, uf_reds=uf, srsfrq=np.array([5.0, 10.0]) if sr is None else psd_fn(spec)))
    kw = dict(name="cat", desc="toy category", labels=["row%d" % i for i in range(spec["rows"])], drfunc="sol.d")
    if sr is not None:
        kw.update(srsQs=list(sr["Qs"]), srspv=list(sr["pv"]), srsconv=sr["conv"])
        if sr["eqsine"]:
            kw["srsopts"] = {"eqsine": True}
    if spec["histpv"] == "all":
        kw["histpv"] = "all"
    elif spec["histpv"] == "first":
        kw["histpv"] = [0]
    n = len(spec["labels"])
    with warnings.catch_warnings():
        warnings.simplefilter("ignore")
        drdefs.add(**kw)
        DR = cla.DR_Event()
        DR.add(None, drdefs)
        res = DR.prepare_results("mission", spec["event"])
        for k in (range(n) if order is None else order):
            c = spec["cases"][k]
            G = np.array(c["G"], dtype=float) + (1j * np.array(c["Gi"], dtype=float) if c["Gi"] is not None else 0j)
            F = np.array(c["F"], dtype=float) * scale
            t = np.array(c["t"], dtype=float)
            if force_perm:
                F, t = F[::-1].copy(), t[:, ::-1].copy()
            freq = np.array(spec["freq"])
            if spec["badfreq"] == k:
                freq = freq.copy()
                freq[-1] += 1.0
            try:
                if au is None:
                    res.solvepsd({"nrb": 0}, spec["labels"][k], DR, _ToyFS(G), F, t, freq,
                                 allow_force_trimming=spec["trim"])
                else:
                    res.solvepsd({"nrb": au["nrb"]}, spec["labels"][k], DR,
                                 _ToyFS(G, _cplx(c, "A", "Ai"), _cplx(c, "V", "Vi"), au), F, t, freq,
                                 use_apply_uf=True, allow_force_trimming=spec["trim"])
                res.psd_data_recovery(spec["labels"][k], DR, n, spec["js"][k], dosrs=sr is not None,
                                      peak_factor=spec["pf"], resp_time=None if sr is None else sr["resp_time"])
            except ValueError:
                return res, "value-error"
    return res, None


def psd_srs_requests(spec, R_all):
    """per (case, Q, srs row) one `psdsrs`: C03's vrs model on the model's own accumulated PSD"""
    sr = spec["srs"]
    f, fn, pf = fbits(spec["freq"]), fbits(psd_fn(spec)), fbits(psd_pf(spec))
    reqs = []
    for k in range(len(spec["labels"])):
        F = spec["cases"][k]["F"]
        for q in sr["Qs"]:
            for i in sr["pv"]:
                segs = ["psdsrs %s %s %d" % (f2b(sr["conv"]), f2b(q), 1 if sr["eqsine"] else 0), f, fn, pf]
                for a, Fa in enumerate(F):
                    segs += [fbits(Fa), fbits(R_all[k][a][i].real), fbits(R_all[k][a][i].imag)]
                reqs.append(" ; ".join(segs))
    return reqs


def psd_srs_compare(spec, res, replies):
    """the stored per-case spectra against the model (numeric)"""
    sr = spec["srs"]
    cat = res["cat"]
    diffs = []
    it = iter(replies)
    for k in range(len(spec["labels"])):
        j = spec["js"][k]
        for q in sr["Qs"]:
            for a, i in enumerate(sr["pv"]):
                model = [b2f(t) for t in next(it).split()]
                bad = _close(cat.srs.srs[q][j][a], model, 1e-9)
                if bad is not None and not diffs:
                    diffs.append(("srs of psd Q%s row%d case%d" % (q, i, k), cat.srs.srs[q][j][a].tolist(), model))
    if cat.srs.type != ("eqsine" if sr["eqsine"] else "srs"):
        diffs.append(("srs.type", cat.srs.type, sr["eqsine"]))
    return diffs


def psd_requests(spec, res, err, R_all=None):
    """per (case, row) one `psdnum`; then `store`, `freqstore`; then, per row, `psdext` on the implementation's own peaks.
    R_all: the unit-force responses the MODEL of apply_uf gives (use_apply_uf), else the toy solver's own"""
    reqs = []
    f = fbits(spec["freq"])
    n = len(spec["labels"])
    for k in range(n):
        R = psd_resp(spec, k) if R_all is None else R_all[k]
        F = spec["cases"][k]["F"]
        for i in range(spec["rows"]):
            segs = ["psdnum " + f2b(spec["pf"]), f]
            for a, Fa in enumerate(F):
                segs += [fbits(Fa), fbits(R[a][i].real), fbits(R[a][i].imag)]
            reqs.append(" ; ".join(segs))
    reqs.append("store %d ; " % n + " ; ".join("%d %s" % (j, l) for j, l in zip(spec["js"], spec["labels"])))
    fr = []
    for k in range(n):
        fq = list(spec["freq"])
        if spec["badfreq"] == k:
            fq[-1] += 1.0
        fr.append(" ".join(ftok(v) for v in fq))
    reqs.append("freqstore ; " + " ; ".join(fr))
    if not err:
        cat = res["cat"]
        for i in range(spec["rows"]):
            reqs.append("psdext ; " + " ; ".join(
                "%s %s %s" % (spec["labels"][k], ftok(cat.mx[i, spec["js"][k]]), ftok(cat.mx_x[i, spec["js"][k]]))
                for k in range(n)))
    return reqs


def psd_compare(spec, res, err, replies):
    """differences between the implementation and the model"""
    n, r = len(spec["labels"]), spec["rows"]
    store, fstore = replies[n * r], replies[n * r + 1]
    model_err = store == "value-error" or fstore == "value-error"
    if (err == "value-error") != model_err:
        return [("refusal", err, [store, fstore])]
    if err:
        return []
    diffs = []
    cat = res["cat"]
    if [c if isinstance(c, str) else "-" for c in cat.cases] != store.split():
        diffs.append(("cases", list(cat.cases), store))
    tol = 1e-12
    for k in range(n):
        j = spec["js"][k]
        for i in range(r):
            psd_s, pk_s = replies[k * r + i].split(" | ")
            psd = [b2f(t) for t in psd_s.split()]
            rms, pk, pkf = [b2f(t) for t in pk_s.split()]
            for what, a, b in (("rms", cat.rms[i, j], rms), ("peak", cat.mx[i, j], pk),
                               ("apparent frequency", cat.mx_x[i, j], pkf)):
                bad = _close(a, b, tol)
                if bad is not None:
                    diffs.append(("%s row%d case%d" % (what, i, k), float(a), b))
            if spec["histpv"] is not None and (spec["histpv"] == "all" or i == 0):
                bad = _close(cat.psd[j][i], psd, tol)
                if bad is not None:
                    diffs.append(("stored psd row%d case%d" % (i, k), cat.psd[j][i].tolist(), psd))
    if spec["histpv"] is None and hasattr(cat, "psd"):
        diffs.append(("psd stored without histpv", True, False))
    # compare-and-move part, exact, on the implementation's own per-case peaks
    for i, rep in enumerate(replies[n * r + 2:]):
        cur, per = rep.split(" | ")
        impl_cur = "%s %s %s %s %s %s" % (ftok(cat.ext[i, 0]), ftok(cat.ext_x[i, 0]), cat.maxcase[i],
                                          ftok(cat.ext[i, 1]), ftok(cat.ext_x[i, 1]), cat.mincase[i])
        if impl_cur != cur:
            diffs.append(("ext row%d" % i, impl_cur, cur))
        per = [p.split() for p in per.split(" , ")]
        for k in range(n):
            j = spec["js"][k]
            impl_p = [ftok(cat.mx[i, j]), ftok(cat.mx_x[i, j]), ftok(cat.mn[i, j]), ftok(cat.mn_x[i, j])]
            if impl_p != per[k]:
                diffs.append(("per-case row%d case%d" % (i, k), impl_p, per[k]))
    return diffs


# ---------------------------------------------------------------------------------------
# merge / add_maxmin / calc_ext / calc_stat_ext

_POOL = ["LO", "MECO", "SEP", "Gust", "Buffet", "X1", "X2"]


def gen_merge(rng):
    existing = rng.sample(_POOL[:5], rng.randint(0, 2))
    inc = []
    for _ in range(rng.randint(1, 4)):
        kind = rng.choice(["base", "base", "ext", "join"])
        if kind == "join":
            nm = rng.sample(["P", "Q", "R"], 2)
            inc.append({"kind": kind, "keys": nm, "name": ", ".join(nm)})
        else:
            inc.append({"kind": kind, "name": rng.choice(_POOL)})
    rename = {}
    if rng.random() < 0.4:
        rename[rng.choice(inc)["name"]] = rng.choice(_POOL + ["New"])
    return {"kind": "merge", "existing": existing, "incoming": inc, "rename": rename}


def run_merge(spec):
    from pyyeti import cla

    def base(name):
        d = cla.DR_Results()
        d["cat"] = SimpleNamespace(event=name)
        return d

    def make(e):
        if e["kind"] == "base":
            return base(e["name"])
        d = cla.DR_Results()
        if e["kind"] == "ext":
            d["sub"] = base("sub")
            d["extreme"] = base(e["name"])
        else:
            for k in e["keys"]:
                d[k] = base(k)
        return d

    top = cla.DR_Results()
    for e in spec["existing"]:
        top[e] = base(e)
    try:
        events = top.merge((make(e) for e in spec["incoming"]), spec["rename"] or None)
    except ValueError:
        return "value-error"
    return {"keys": list(top.keys()), "events": list(events)}


def _nm(s):
    return s.replace(" ", "_")


def merge_request(spec):
    return "merge ; %s ; %s ; %s" % (" ".join(_nm(e) for e in spec["existing"]),
                                     " ".join(_nm(e["name"]) for e in spec["incoming"]),
                                     " ".join("%s %s" % (_nm(a), _nm(b)) for a, b in spec["rename"].items()))


def gen_calc(rng):
    r = rng.randint(1, 4)
    n = rng.randint(1, 5)
    style = rng.choice(["small", "pm", "half"])
    nanp = rng.choice([0.0, 0.0, 0.2])
    mx = [_values(rng, n, style, nanp) for _ in range(r)]
    mn = [_values(rng, n, style, nanp) for _ in range(r)]
    srs = None
    if rng.random() < 0.4:
        srs = [[_values(rng, 2, style, nanp) for _ in range(rng.randint(1, 2))] for _ in range(n)]
        m0 = len(srs[0])
        srs = [c[:m0] + [c[0]] * (m0 - len(c)) for c in srs]
    return {"kind": "calc", "mx": mx, "mn": mn, "cases": ["c%d" % j for j in range(n)], "srs": srs,
            "k": rng.choice([0.0, 1.0, 2.5, 3.0])}


def run_calc(spec, stat=False):
    from pyyeti import cla

    R = cla.DR_Results()
    R["cat"] = SimpleNamespace(mx=arr(spec["mx"]), mn=arr(spec["mn"]), cases=list(spec["cases"]), ext=None,
                               ext_x="stale", maxcase=None, mincase=None)
    if spec["srs"] is not None:
        R["cat"].srs = SimpleNamespace(srs={10: np.array([[[NAN if v is None else v for v in row] for row in c]
                                                          for c in spec["srs"]])}, ext={})
    with warnings.catch_warnings():
        warnings.simplefilter("ignore")
        if stat:
            R.calc_stat_ext(spec["k"])
        else:
            R.calc_ext()
    return R["cat"]


def calc_requests(spec):
    cs = " ".join(spec["cases"])
    reqs = ["calcext ; %s ; %s ; %s" % (" ".join(ftok_n(v) for v in a), " ".join(ftok_n(v) for v in b), cs)
            for a, b in zip(spec["mx"], spec["mn"])]
    if spec["srs"] is not None:
        S = spec["srs"]
        for a in range(len(S[0])):
            for b in range(len(S[0][0])):
                col = " ".join(ftok_n(S[c][a][b]) for c in range(len(S)))
                reqs.append("calcext ; %s ; %s ; %s" % (col, col, cs))
    return reqs


def calc_impl_replies(spec):
    cat = run_calc(spec)
    out = ["%s %s %s %s" % (ftok(cat.ext[i, 0]), cat.maxcase[i], ftok(cat.ext[i, 1]), cat.mincase[i])
           for i in range(len(spec["mx"]))]
    if cat.ext_x is not None:
        out[0] = "ext_x not reset"
    if spec["srs"] is not None:
        e = cat.srs.ext[10]
        out += [ftok(e[a, b]) for a in range(e.shape[0]) for b in range(e.shape[1])]
    return out


def gen_stat(rng):
    spec = gen_calc(rng)
    n = rng.randint(2, 6)
    r = len(spec["mx"])
    spec.update(kind="stat", mx=[_values(rng, n, "half", 0.0) for _ in range(r)],
                mn=[_values(rng, n, "half", 0.0) for _ in range(r)], cases=["c%d" % j for j in range(n)], srs=None)
    if rng.random() < 0.4:  # per-case spectra: srs.ext[Q] = mean + k*std(ddof=1) over the cases
        m0 = rng.randint(1, 2)
        spec["srs"] = [[_values(rng, 2, "half", 0.0) for _ in range(m0)] for _ in range(n)]
    return spec


def gen_addmm(rng):
    r = rng.randint(1, 3)
    ne = rng.randint(2, 4)
    hasx = rng.random() < 0.6
    style = rng.choice(["small", "pm", "half"])
    nanp = rng.choice([0.0, 0.0, 0.2])
    evs = []
    for e in range(ne):
        name = "E%d" % e
        mxmn = [_values(rng, 2, style, nanp) for _ in range(r)]
        k = rng.random()
        maxcase = name + "-mx" if k < 0.5 else ["%s-mx%d" % (name, i) for i in range(r)]
        k = rng.random()
        mincase = None if k < 0.4 else (name + "-mn" if k < 0.7 else ["%s-mn%d" % (name, i) for i in range(r)])
        xv = [[float(rng.randint(0, 9)) for _ in range(2)] for _ in range(r)] if hasx else None
        evs.append({"event": name, "mxmn": mxmn, "maxcase": maxcase, "mincase": mincase, "xv": xv})
    return {"kind": "addmm", "rows": r, "events": evs, "doappend": rng.randint(0, 3)}


def build_addmm(spec):
    from pyyeti import cla

    uf = (1, 1, 1, 1)
    with warnings.catch_warnings():
        warnings.simplefilter("ignore")
        drdefs = cla.DR_Def(dict(se=0, uf_reds=uf))
        drdefs.add(name="cat", desc="toy category", labels=["row%d" % i for i in range(spec["rows"])], drfunc="no-func")
        DR = cla.DR_Event()
        DR.add(None, drdefs)
        evs = []
        for e in spec["events"]:
            res = DR.prepare_results("mission", e["event"])
            res.add_maxmin("cat", arr(e["mxmn"]), copy.deepcopy(e["maxcase"]), copy.deepcopy(e["mincase"]),
                           None if e["xv"] is None else arr(e["xv"]), "time")
            evs.append(res)
        top = cla.DR_Results()
        top.merge(evs)
        top.form_extreme("Envelope", doappend=spec["doappend"])
        first = _level_replies(top["extreme"]["cat"], spec["rows"], [])
        top.form_extreme("Envelope", doappend=spec["doappend"])  # stale 'extreme' entries are deleted first
    return top, evs, first


def addmm_requests(spec):
    reqs = []
    for e in spec["events"]:
        for i in range(spec["rows"]):
            x = e["xv"][i] if e["xv"] is not None else [None, None]
            mn = e["mincase"]
            reqs.append("addmm %s %s %s %s %d %s %s" % (
                ftok_n(e["mxmn"][i][0]), ftok_n(e["mxmn"][i][1]), ftok_n(x[0]), ftok_n(x[1]),
                1 if e["xv"] is not None else 0, e["maxcase"] if isinstance(e["maxcase"], str) else e["maxcase"][i],
                "-" if mn is None else (mn if isinstance(mn, str) else mn[i])))
    return reqs


def addmm_impl_replies(spec, evs):
    out = []
    for res in evs:
        c = res["cat"]
        for i in range(spec["rows"]):
            out.append("%s %s %s %s %s %s" % (ftok(c.ext[i, 0]), _px(c, i, 0), c.maxcase[i],
                                              ftok(c.ext[i, 1]), _px(c, i, 1), c.mincase[i]))
    return out


def _px(p, i, col):
    return "nan" if p.ext_x is None else ftok(p.ext_x[i, col])


# ---------------------------------------------------------------------------------------
# nested results: delete_extreme / form_extreme at every level / the traversal generators (tree stream)


def gen_tree(rng):
    r = rng.randint(1, 3)
    hasx = rng.random() < 0.6
    cats = ["cat"] if rng.random() < 0.6 else ["cat", "cat2"]
    style = rng.choice(["small", "pm", "half"])
    nanp = rng.choice([0.0, 0.0, 0.2])
    cnt = {"e": 0, "g": 0}

    def base():
        name = "E%d" % cnt["e"]
        cnt["e"] += 1
        cs = []
        for c in cats:
            k = rng.random()
            maxcase = "%s-%s-mx" % (name, c) if k < 0.5 else ["%s-%s-mx%d" % (name, c, i) for i in range(r)]
            k = rng.random()
            mincase = None if k < 0.4 else ("%s-%s-mn" % (name, c) if k < 0.7 else ["%s-%s-mn%d" % (name, c, i) for i in range(r)])
            cs.append({"mxmn": [_values(rng, 2, style, nanp) for _ in range(r)], "maxcase": maxcase, "mincase": mincase,
                       "xv": [[float(rng.randint(0, 9)) for _ in range(2)] for _ in range(r)] if hasx else None})
        return {"type": "base", "name": name, "cats": cs}

    def group(depth, name):
        nk = rng.randint(1, 3)
        if depth > 0 and rng.random() < 0.06:
            nk = 0  # an empty DR_Results
        kids = []
        for _ in range(nk):
            if depth < 2 and rng.random() < (0.5 if depth == 0 else 0.3):
                cnt["g"] += 1
                kids.append(group(depth + 1, "G%d" % cnt["g"]))
            else:
                kids.append(base())
        # stale 'extreme' entries: formed before the last member was added (so it is out of date and sits in the
        # middle of the dictionary), or formed over all members with another doappend
        stale = rng.choice([None, None, "before-last", "all"]) if nk else None
        return {"type": "group", "name": name, "kids": kids, "stale": stale, "stale_d": rng.randint(0, 3)}

    root = group(0, "Top")
    if not any(k["type"] == "group" for k in root["kids"]) and rng.random() < 0.5:
        cnt["g"] += 1
        root["kids"].append(group(1, "G%d" % cnt["g"]))
    return {"kind": "tree", "rows": r, "cats": cats, "root": root, "d": rng.randint(0, 3)}


def build_tree(spec):
    """the nested DR_Results as the spec describes it, stale 'extreme' entries included; form_extreme NOT yet called"""
    from pyyeti import cla

    uf = (1, 1, 1, 1)
    with warnings.catch_warnings():
        warnings.simplefilter("ignore")
        drdefs = cla.DR_Def(dict(se=0, uf_reds=uf))
        for c in spec["cats"]:
            drdefs.add(name=c, desc="toy category " + c, labels=["row%d" % i for i in range(spec["rows"])], drfunc="no-func")
        DR = cla.DR_Event()
        DR.add(None, drdefs)

        def mk(node):
            if node["type"] == "base":
                res = DR.prepare_results("mission", node["name"])
                for c, e in zip(spec["cats"], node["cats"]):
                    res.add_maxmin(c, arr(e["mxmn"]), copy.deepcopy(e["maxcase"]), copy.deepcopy(e["mincase"]),
                                   None if e["xv"] is None else arr(e["xv"]), "time")
                return res
            g = cla.DR_Results()
            nk = len(node["kids"])
            for i, kid in enumerate(node["kids"]):
                if node["stale"] == "before-last" and i == nk - 1 and i > 0:
                    g.form_extreme("Stale", doappend=node["stale_d"])
                g[kid["name"]] = mk(kid)
            if node["stale"] == "all":
                g.form_extreme("Stale", doappend=node["stale_d"])
            return g

        return mk(spec["root"])


def ser_tree(res, i):
    """row i of a nested DR_Results in the driver's tree grammar"""
    if len(res) == 0:
        return "G 0"
    if isinstance(next(iter(res.values())), SimpleNamespace):
        return "B %d " % len(res) + " ".join(
            "%s %s %s %s %s %s %s" % (nm, ftok(c.ext[i, 0]), _px(c, i, 0), c.maxcase[i], ftok(c.ext[i, 1]), _px(c, i, 1),
                                      c.mincase[i]) for nm, c in res.items())
    return "G %d " % len(res) + " ".join("%s %s" % (k, ser_tree(v, i)) for k, v in res.items())


def _fpath(p):
    return "/".join(p) if p else "."


def tree_run(spec):
    """requests and the replies the driver should give if the implementation agrees with the model"""
    top = build_tree(spec)
    r = spec["rows"]
    before = [ser_tree(top, i) for i in range(r)]
    with warnings.catch_warnings():
        warnings.simplefilter("ignore")
        top.form_extreme("Envelope", doappend=spec["d"])
        after = [ser_tree(top, i) for i in range(r)]
        bad_cases = _tree_cases(top)
        cats = " , ".join("%s %s" % (nm, _fpath(path)) for nm, c, path in top.all_categories()) or "."
        bases = " , ".join("%s %s %s" % (nm, _fpath(path), ",".join(b.keys()) or ".")
                           for nm, b, path in top.all_base_events("Top")) or "."
        nonb = " , ".join("%s %s %s" % (nm, _fpath(path), ",".join(b.keys()) or ".")
                          for nm, b, path in top.all_nonbase_events("Top")) or "."
        dele = copy.deepcopy(top)
        dele.delete_extreme()
        deleted = [ser_tree(dele, i) for i in range(r)]
        dele.form_extreme("Envelope", doappend=spec["d"])  # delete_extreme followed by form_extreme restores
        restored = [ser_tree(dele, i) for i in range(r)]
        top.form_extreme("Envelope", doappend=spec["d"])  # forming again from the same parts
        again = [ser_tree(top, i) for i in range(r)]
    reqs, want = [], []
    for i in range(r):
        reqs += ["treeform %d ; %s" % (spec["d"], before[i]), "treeform %d ; %s" % (spec["d"], after[i]),
                 "treedel ; %s" % after[i], "treeform %d ; %s" % (spec["d"], deleted[i])]
        want += [after[i], again[i], deleted[i], restored[i]]
    reqs += ["treecats ; " + after[0], "treebases ; " + after[0], "treenonbases ; " + after[0]]
    want += [cats, bases, nonb]
    return reqs, want, bad_cases, (after == again == restored)


def _tree_cases(res, path=()):
    """first group whose 'extreme' is not its last key or whose categories do not list the other keys as `cases`"""
    if len(res) == 0 or isinstance(next(iter(res.values())), SimpleNamespace):
        return None
    keys = list(res.keys())
    if keys.count("extreme") != 1 or keys[-1] != "extreme":
        return ("/".join(path) or "Top", keys)
    for c in res["extreme"].values():
        if list(c.cases) != keys[:-1]:
            return ("/".join(path) or "Top", list(c.cases))
    for k in keys[:-1]:
        bad = _tree_cases(res[k], path + (k,))
        if bad:
            return bad
    return None


def tree_shape(node):
    """(depth, number of stale levels, has an empty group)"""
    if node["type"] == "base":
        return 0, 0, False
    sub = [tree_shape(k) for k in node["kids"]]
    return (1 + max([d for d, _, _ in sub] or [0]), (1 if node["stale"] else 0) + sum(s for _, s, _ in sub),
            (not node["kids"]) or any(e for _, _, e in sub))


# ---------------------------------------------------------------------------------------
# object identity: the accumulator of cla.extrema / form_extreme shares nothing with its inputs (heap stream)


def gen_heap_hist(rng):
    h = gen_hist(rng, 2)
    for c in h["calls"]:
        c["casenum"] = None
    if rng.random() < 0.25:
        # abscissae given by some calls only (the new-NaN-array / NaN branches of _put_time)
        for c in h["calls"]:
            c["ext_x"] = [[float(rng.randint(0, 9)), float(rng.randint(0, 9))] for _ in range(h["rows"])] \
                if rng.random() < 0.6 else None
    if spec_mixedx(h):
        h["mixedx"] = True
    return h


def heap_hist_run(h):
    """all inputs exist before the first call and are handed in as they are (no copies made by the harness)"""
    from pyyeti import cla

    objs = []
    for c in h["calls"]:
        mm = SimpleNamespace(ext=arr(c["ext"]), ext_x=None if c["ext_x"] is None else arr(c["ext_x"]))
        mxc = c["maxcase"] if isinstance(c["maxcase"], str) else list(c["maxcase"])
        mnc = c["mincase"] if (c["mincase"] is None or isinstance(c["mincase"], str)) else list(c["mincase"])
        objs.append((mm, mxc, mnc))
    cur = SimpleNamespace(ext=None, ext_x=None, maxcase=None, mincase=None)
    for mm, mxc, mnc in objs:
        cla.extrema(cur, mm, mxc, mnc)
    return objs, cur


def heap_hist_io(h):
    """per row: the `heap` request and the reply expected from the implementation's objects after the history"""
    objs, cur = heap_hist_run(h)
    reqs, want = [], []
    for i in range(h["rows"]):
        vals, xs, labs, calls = [], [], [], []
        vals_a, xs_a, labs_a = [], [], []
        for c, (mm, mxc, mnc) in zip(h["calls"], objs):
            e = len(vals)
            vals.append("%s %s" % (ftok_n(c["ext"][i][0]), ftok_n(c["ext"][i][1])))
            vals_a.append("%s %s" % (ftok(mm.ext[i, 0]), ftok(mm.ext[i, 1])))
            x = "-"
            if c["ext_x"] is not None:
                x = str(len(xs))
                xs.append("%s %s" % (ftok(c["ext_x"][i][0]), ftok(c["ext_x"][i][1])))
                xs_a.append("%s %s" % (ftok(mm.ext_x[i, 0]), ftok(mm.ext_x[i, 1])))
            args = []
            for given, obj in ((c["maxcase"], mxc), (c["mincase"], mnc)):
                if given is None:
                    args.append("-")
                elif isinstance(given, str):
                    args.append("s:" + given)
                else:
                    args.append("l:%d" % len(labs))
                    labs.append(given[i])
                    labs_a.append(obj[i])
            calls.append("%d %s %s %s" % (e, x, args[0], args[1]))
        reqs.append("heap 1 ; %s ; %s ; %s ; %s" % (" ".join(vals), " ".join(xs), " ".join(labs), " ; ".join(calls)))
        curs = "%s %s %s %s %s %s" % (ftok(cur.ext[i, 0]), _px(cur, i, 0), cur.maxcase[i],
                                      ftok(cur.ext[i, 1]), _px(cur, i, 1), cur.mincase[i])
        want.append("%s | %s | %s | %s" % (" ".join(vals_a), " ".join(xs_a), " ".join(labs_a), curs))
    return reqs, want


def heap_form_io(spec, evs, top):
    """the same for form_extreme over add_maxmin events: the parts are the events' categories"""
    d = spec["doappend"]
    reqs, want = [], []
    ext = top["extreme"]["cat"]
    for i in range(spec["rows"]):
        vals, xs, labs, calls = [], [], [], []
        vals_a, xs_a, labs_a = [], [], []
        for n_e, (e, res) in enumerate(zip(spec["events"], evs)):
            c = res["cat"]
            vals.append("%s %s" % (ftok_n(e["mxmn"][i][0]), ftok_n(e["mxmn"][i][1])))
            vals_a.append("%s %s" % (ftok(c.ext[i, 0]), ftok(c.ext[i, 1])))
            x = "-"
            if e["xv"] is not None:
                x = str(n_e)
                xs.append("%s %s" % (ftok(e["xv"][i][0]), ftok(e["xv"][i][1])))
                xs_a.append("%s %s" % (ftok(c.ext_x[i, 0]), ftok(c.ext_x[i, 1])))
            lmx = e["maxcase"] if isinstance(e["maxcase"], str) else e["maxcase"][i]
            lmn = lmx if e["mincase"] is None else (e["mincase"] if isinstance(e["mincase"], str) else e["mincase"][i])
            labs += [lmx, lmn]
            labs_a += [c.maxcase[i], c.mincase[i]]
            if d == 3:
                a, b = "l:%d" % (2 * n_e), "l:%d" % (2 * n_e + 1)
            elif d == 1:
                a, b = "s:%s,%s" % (e["event"], lmx), "s:%s,%s" % (e["event"], lmn)
            else:
                a = b = "s:" + e["event"]
            calls.append("%d %s %s %s" % (n_e, x, a, b))
        reqs.append("heap 1 ; %s ; %s ; %s ; %s" % (" ".join(vals), " ".join(xs), " ".join(labs), " ; ".join(calls)))
        curs = "%s %s %s %s %s %s" % (ftok(ext.ext[i, 0]), _px(ext, i, 0), ext.maxcase[i],
                                      ftok(ext.ext[i, 1]), _px(ext, i, 1), ext.mincase[i])
        want.append("%s | %s | %s | %s" % (" ".join(vals_a), " ".join(xs_a), " ".join(labs_a), curs))
    return reqs, want


def permuted_event(spec, perm):
    """the same toy event with its cases fed in another order"""
    out = dict(spec)
    out["labels"] = [spec["labels"][k] for k in perm]
    out["js"] = [spec["js"][k] for k in perm]
    if spec["kind"] == "psd":
        out["cases"] = [spec["cases"][k] for k in perm]
    else:
        out["resp"] = [spec["resp"][k] for k in perm]
    out["perm"] = list(perm)
    return out


# ---------------------------------------------------------------------------------------
# form_extreme over events whose categories list different rows (labform stream, Model/ExtremaLabels.lean)

_LABPOOL = ["Fx", "Fy", "Fz", "Mx", "My", "Mz", "Tq", "Ax"]
_LAB_PATTERNS = ["identical", "permuted", "subset", "disjoint", "overlap", "random", "dup-identical", "dup-differ"]


def _lab_lists(rng, pattern, ne):
    """label lists of `ne` events following an overlap pattern"""
    nm = rng.randint(max(2, ne if pattern == "disjoint" else 2), 6)
    master = rng.sample(_LABPOOL, nm)
    if pattern == "identical":
        return [list(master) for _ in range(ne)]
    if pattern == "permuted":
        out = [list(master)]
        for _ in range(ne - 1):
            p = list(master)
            while p == master:
                rng.shuffle(p)
            out.append(p)
        return out
    if pattern == "subset":
        out = []
        for _ in range(ne):
            k = rng.randint(1, nm)
            sub = rng.sample(master, k)
            if rng.random() < 0.5:
                sub = [l for l in master if l in sub]  # an ordered subsequence
            out.append(sub)
        out[rng.randrange(ne)] = list(master) if rng.random() < 0.5 else rng.sample(master, nm)
        return out
    if pattern == "disjoint":
        pool = list(master)
        rng.shuffle(pool)
        cuts = sorted(rng.sample(range(1, nm), ne - 1))
        return [pool[a:b] for a, b in zip([0] + cuts, cuts + [nm])]
    if pattern == "overlap":
        while True:
            out = [rng.sample(master, rng.randint(1, nm)) for _ in range(ne)]
            a, b = set(out[0]), set(out[1])
            if (a & b) and (a - b) and (b - a):
                return out
            nm = max(nm, 3)
            if len(master) < 3:
                master = rng.sample(_LABPOOL, 3)
                nm = 3
    if pattern == "random":
        return [rng.sample(master, rng.randint(1, nm)) for _ in range(ne)]
    if pattern == "dup-identical":
        m = list(master)
        m.insert(rng.randrange(len(m) + 1), rng.choice(master))
        return [list(m) for _ in range(ne)]
    # dup-differ: one event repeats a label and the lists are not all the same
    out = [rng.sample(master, rng.randint(1, nm)) for _ in range(ne)]
    k = rng.randrange(ne)
    out[k] = out[k] + [out[k][0]]
    if all(o == out[0] for o in out):
        out[(k + 1) % ne] = out[(k + 1) % ne] + ["Zz"]
    return out


def _lab_base(rng, name, labels, labels2, kind, style):
    """one base event: `time` (time_data_recovery, 1-3 load cases) or `addmm` (add_maxmin)"""
    r = len(labels)
    if kind == "time":
        nc = rng.randint(1, 3)
        nt = rng.randint(2, 4)
        rows = max(r, len(labels2) if labels2 else 0)
        resp = [[_values(rng, nt, style, 0.0) for _ in range(rows)] for _ in range(nc)]
        return {"type": "time", "name": name, "labels": labels, "labels2": labels2, "resp": resp, "nt": nt}
    hasx = rng.random() < 0.5
    nanp = rng.choice([0.0, 0.2])
    k = rng.random()
    maxcase = name + "-mx" if k < 0.5 else ["%s-mx%d" % (name, i) for i in range(r)]
    k = rng.random()
    mincase = None if k < 0.4 else (name + "-mn" if k < 0.7 else ["%s-mn%d" % (name, i) for i in range(r)])
    return {"type": "addmm", "name": name, "labels": labels, "labels2": None,
            "mxmn": [_values(rng, 2, style, nanp) for _ in range(r)], "maxcase": maxcase, "mincase": mincase,
            "xv": [[float(rng.randint(0, 9)) for _ in range(2)] for _ in range(r)] if hasx else None}


def gen_labform(rng, pattern=None, shape=None):
    pattern = pattern or rng.choice(_LAB_PATTERNS)
    shape = shape or rng.choice(["flat", "flat", "nested", "mixedx"])
    style = rng.choice(["small", "pm", "half"])
    cnt = [0]

    def name():
        cnt[0] += 1
        return "E%d" % cnt[0]

    if shape == "mixedx":
        # a group of add_maxmin events WITHOUT abscissae (same rows): its envelope has per-case columns and no ext_x;
        # next to it recovery events (abscissae given) that list other rows -- in either order
        ne = rng.randint(2, 3)
        lists = _lab_lists(rng, pattern if not pattern.startswith("dup") else "permuted", ne)
        g = {"type": "group", "name": "G1", "kids": []}
        for _ in range(rng.randint(1, 2)):
            b = _lab_base(rng, name(), list(lists[0]), None, "addmm", style)
            b["xv"] = None
            g["kids"].append(b)
        members = [g] + [_lab_base(rng, name(), lists[k], None, "time", style) for k in range(1, ne)]
        if rng.random() < 0.5:
            rng.shuffle(members)
        return {"kind": "labform", "pattern": pattern, "shape": shape, "members": members, "d": rng.randint(0, 3),
                "case_order": None, "two": False}
    ne = rng.randint(2, 4)
    lists = _lab_lists(rng, pattern, ne)
    two = rng.random() < 0.3
    lists2 = _lab_lists(rng, rng.choice(["identical", "permuted", "subset", "overlap"]), ne) if two else None
    addmm = rng.random() < 0.3
    bases = []
    for k in range(ne):
        kind = "addmm" if (addmm and rng.random() < 0.5) else "time"
        l2 = None
        if two and kind == "time" and (k == 0 or rng.random() < 0.7):
            l2 = lists2[k]
        bases.append(_lab_base(rng, name(), lists[k], l2, kind, style))
    if shape == "flat":
        members = bases
    else:
        ng = rng.randint(1, 2)
        cuts = sorted(rng.sample(range(1, ne + 1), min(ng, ne)))
        members, prev = [], 0
        for g, c in enumerate(cuts):
            if c - prev >= 1 and rng.random() < 0.8:
                members.append({"type": "group", "name": "G%d" % (g + 1), "kids": bases[prev:c]})
            else:
                members += bases[prev:c]
            prev = c
        members += bases[prev:]
        if not any(m["type"] == "group" for m in members):
            members = [{"type": "group", "name": "G1", "kids": members[:1]}] + members[1:]
    co = None
    if rng.random() < 0.25 and len(members) >= 2:
        co = [m["name"] for m in members]
        rng.shuffle(co)
        if len(co) > 2 and rng.random() < 0.4:
            co = co[:-1]
    return {"kind": "labform", "pattern": pattern, "shape": shape, "members": members, "d": rng.randint(0, 3),
            "case_order": co, "two": two}


def _lab_build_base(b):
    from pyyeti import cla

    uf = (1, 1, 1, 1)
    drdefs = cla.DR_Def(dict(se=0, uf_reds=uf))
    if b["type"] == "time":
        rows = len(b["resp"][0])
        T1 = np.eye(rows)[:len(b["labels"])]
        drdefs.add(name="cat", desc="toy category", labels=list(b["labels"]), drms={"T1": T1},
                   drfunc="Vars[se]['T1'] @ sol.d")
        if b["labels2"]:
            T2 = -np.eye(rows)[:len(b["labels2"])][:, ::-1]
            drdefs.add(name="cat2", desc="toy category 2", labels=list(b["labels2"]), drms={"T2": T2},
                       drfunc="Vars[se]['T2'] @ sol.d")
        DR = cla.DR_Event()
        DR.add(None, drdefs)
        res = DR.prepare_results("mission", b["name"])
        t = np.arange(b["nt"]) * 0.01
        n = len(b["resp"])
        for j in range(n):
            sol = {uf: SimpleNamespace(d=arr(b["resp"][j]), t=t, h=0.01)}
            res.time_data_recovery(sol, None, "%s-%d" % (b["name"], j), DR, n, j)
        return res
    drdefs.add(name="cat", desc="toy category", labels=list(b["labels"]), drfunc="no-func")
    DR = cla.DR_Event()
    DR.add(None, drdefs)
    res = DR.prepare_results("mission", b["name"])
    res.add_maxmin("cat", arr(b["mxmn"]), copy.deepcopy(b["maxcase"]), copy.deepcopy(b["mincase"]),
                   None if b["xv"] is None else arr(b["xv"]), "time")
    return res


def build_labform(spec, order=None):
    """the nested DR_Results of the spec and the outcome of form_extreme: (top, exception name or None)"""
    from pyyeti import cla

    def mk(node):
        if node["type"] != "group":
            return _lab_build_base(node)
        g = cla.DR_Results()
        for kid in node["kids"]:
            g[kid["name"]] = mk(kid)
        return g

    with warnings.catch_warnings():
        warnings.simplefilter("ignore")
        top = cla.DR_Results()
        members = spec["members"] if order is None else [spec["members"][i] for i in order]
        for m in members:
            top[m["name"]] = mk(m)
        co = spec["case_order"] if order is None else None
        try:
            top.form_extreme("Envelope", case_order=co, doappend=spec["d"])
        except (ValueError, KeyError) as e:
            return top, type(e).__name__
    return top, None


def _is_group(res):
    return len(res) > 0 and not isinstance(next(iter(res.values())), SimpleNamespace)


def lab_levels(top, case_order):
    """the `_calc_extreme` calls of form_extreme in the order they are made: (path, dct, cases)"""
    out = []

    def walk(dct, path, co):
        for k, v in dct.items():
            if k != "extreme" and _is_group(v):
                walk(v, path + (k,), None)
        out.append((path, dct, [k for k in dct if k != "extreme"] if co is None else [str(c) for c in co]))

    walk(top, (), case_order)
    return out


def _lab_parts(dct, cases, drm):
    """(j, case, use_ext, category) for the members that carry `drm`, as `_calc_extreme` reads them"""
    parts = []
    for j, case in enumerate(cases):
        m = dct[case]
        use_ext = "extreme" in m
        cur = m["extreme"] if use_ext else m
        if drm in cur:
            parts.append((j, case, use_ext, cur[drm]))
    return parts


def _lab_cat_token(j, case, use_ext, c):
    r = len(c.drminfo.labels)
    rows = " ".join("%s %s %s %s %s %s" % (ftok(c.ext[i, 0]), _px(c, i, 0), c.maxcase[i], ftok(c.ext[i, 1]), _px(c, i, 1),
                                           c.mincase[i]) for i in range(r))
    return "%d %s %d %d %d %d %s %s" % (j, case, 1 if use_ext else 0, 0 if c.ext_x is None else 1,
                                         1 if hasattr(c, "mx") else 0, r, " ".join(c.drminfo.labels), rows)


def _lab_acc_reply(e):
    rows = []
    for i in range(len(e.drminfo.labels)):
        rows.append("%s %s %s %s %s %s , %s , %s , %s , %s" % (
            ftok(e.ext[i, 0]), _px(e, i, 0), e.maxcase[i], ftok(e.ext[i, 1]), _px(e, i, 1), e.mincase[i],
            " ".join(ftok(v) for v in e.mx[i]), " ".join(ftok(v) for v in e.mn[i]),
            " ".join(ftok(v) for v in e.mx_x[i]), " ".join(ftok(v) for v in e.mn_x[i])))
    return " ".join(e.drminfo.labels) + " | " + ("0" if e.ext_x is None else "1") + " | " + " | ".join(rows)


def _lab_step_kinds(parts, as_coded=True):
    """what `_check_row_compatibility` sees at every step: the overlap pattern of (labels so far, next labels)"""
    kinds = []
    acc = None
    for _, _, _, c in parts:
        l2 = list(c.drminfo.labels)
        if acc is None:
            acc = l2
            continue
        if acc == l2:
            kinds.append("identical-repeated" if len(set(l2)) != len(l2) else "identical")
            continue
        if len(set(acc)) != len(acc) or len(set(l2)) != len(l2):
            kinds.append("repeated-refused")
            break
        a, b = set(acc), set(l2)
        if a == b:
            kinds.append("permuted")
        elif not (a & b):
            kinds.append("disjoint")
        elif b < a:
            kinds.append("subset")
        elif a < b:
            kinds.append("superset-same-order" if [x for x in l2 if x in a] == acc else "superset")
        else:
            kinds.append("overlap")
        if not hasattr(c, "mx"):
            kinds.append("add-maxmin-event-expanded")  # no per-case members: accepted since fix 40cd789 (F58)
        acc = _ref_merge(acc, l2)
    return kinds


def _ref_merge(l1, l2):
    """the documented merge: l1 keeps its order; a new item of l2 goes in front of the next item of l2 that l1 has"""
    out = list(l1)
    pend = []
    for e in l2:
        if e in out:
            i = out.index(e)
            out[i:i] = pend
            pend = []
        else:
            pend.append(e)
    return out + pend


def labform_run(spec):
    """requests, expected replies and branch names for one spec"""
    top, exc = build_labform(spec)
    reqs, want, branches = [], [], set()
    levels = lab_levels(top, spec["case_order"])
    raised_seen = False
    for path, dct, cases in levels:
        formed = "extreme" in dct
        if not formed and raised_seen:
            break  # levels after the one that raised are never reached
        cats = []
        for case in cases:
            m = dct[case]
            cur = m["extreme"] if "extreme" in m else m
            for drm in cur:
                if drm not in cats:
                    cats.append(drm)
        first_err = None  # (j, position of the category in that member) of the first failing step, by the implementation's loop order
        for drm in cats:
            parts = _lab_parts(dct, cases, drm)
            reqs.append("labform %d %d ; " % (spec["d"], len(cases)) + " ; ".join(_lab_cat_token(*p) for p in parts))
            kinds = _lab_step_kinds(parts)
            for k in kinds:
                branches.add("labels-" + k)
            if len({c.ext_x is None for _, _, _, c in parts}) > 1:
                branches.add("labels-abscissa-some-events")
                if any(k not in ("identical", "identical-repeated") for k in kinds):
                    branches.add("labels-abscissa-some-events-with-merge")
            if any(u for _, _, u, _ in parts):
                branches.add("labels-lower-level-envelope")
            if len(parts) < len(cases):
                branches.add("labels-category-missing-in-some-event")
            if formed:
                try:
                    want.append(("acc", _lab_acc_reply(dct["extreme"][drm])))
                except (IndexError, ValueError, TypeError, AttributeError, KeyError) as e:
                    want.append(("acc", "malformed-table:%s:%s" % (type(e).__name__, str(e)[:120])))
            else:
                want.append(("err", exc, drm, dct, cases))
        if formed and list(dct["extreme"].keys()) != cats:
            want.append(("cats", list(dct["extreme"].keys()), cats))
            reqs.append("lbl x y 0 0")
        if not formed:
            raised_seen = True
    if exc is not None and not raised_seen:
        want.append(("stray", exc))
        reqs.append("lbl x y 0 0")
    if spec["case_order"] is not None:
        branches.add("labels-case-order")
    return reqs, want, branches, top, exc


def labform_compare(spec, reqs, want, got):
    """first difference between the model's replies and the implementation, or None"""
    errs = []  # model errors of the level that raised: (j, category position, kind)
    exc = None
    for rq, w, g in zip(reqs, want, got):
        if w[0] == "acc":
            if g != w[1]:
                return {"request": rq[:400], "impl": w[1], "model": g}
        elif w[0] == "cats":
            return {"what": "categories of the new 'extreme'", "impl": w[1], "model": w[2]}
        elif w[0] == "stray":
            return {"what": "form_extreme raised although every level was formed", "impl": w[1], "model": "no exception"}
        else:
            _, exc, drm, dct, cases = w
            t = g.split()
            if t and t[0] == "value-error":
                j = int(t[1])
                m = dct[cases[j]]
                cur = m["extreme"] if "extreme" in m else m
                errs.append((j, list(cur.keys()).index(drm), t[0]))
    if exc is not None:
        model = min(errs)[2] if errs else "no exception"
        impl = {"ValueError": "value-error"}.get(exc, exc)
        if model != impl:
            return {"what": "exception raised by form_extreme", "impl": exc, "model": model}
    return None


_LAB_FIXED = [
    # (pattern, shape) pairs every run starts with, so that each overlap pattern is met whatever the seed
    ("identical", "flat"), ("permuted", "flat"), ("subset", "flat"), ("disjoint", "flat"), ("overlap", "flat"),
    ("dup-identical", "flat"), ("dup-differ", "flat"), ("permuted", "nested"), ("overlap", "nested"),
    ("permuted", "mixedx"), ("overlap", "mixedx"), ("subset", "mixedx"),
]


def lab_specs(rng, n):
    out = []
    for rep in range(3):
        for pat, shape in _LAB_FIXED:
            out.append(gen_labform(rng, pat, shape))
    # the demonstration of the seeded change C16r3/1 in small: the same rows in another order, a third event with some
    out.append({"kind": "labform", "pattern": "permuted", "shape": "flat", "d": 2, "case_order": None, "two": False, "members": [
        {"type": "time", "name": "Liftoff", "labels": ["Fx", "Fy", "Mz"], "labels2": None, "nt": 3,
         "resp": [[[1.0, 2.0, 0.0], [3.0, -4.0, 0.0], [5.0, 6.0, 0.0]]]},
        {"type": "time", "name": "MaxQ", "labels": ["Mz", "Fx", "Fy"], "labels2": None, "nt": 3,
         "resp": [[[10.0, 0.0, 0.0], [-1.0, 0.0, 0.0], [7.0, -9.0, 0.0]]]},
        {"type": "time", "name": "SECO", "labels": ["Fy", "Fx"], "labels2": None, "nt": 3,
         "resp": [[[0.0, 8.0, -20.0], [4.0, 0.0, 1.0]]]}]})
    out += [gen_labform(rng) for _ in range(n)]
    return out



# ---------------------------------------------------------------------------------------
# DR_Results.split (split stream, Model/ExtremaSplit.lean) and DR_Def.add's uf_reds defaults (ufdef stream)


def split_io(spec, res, short):
    """requests (one per row, from the implementation's own per-case columns and label list) and the comparison data"""
    cat = res["cat"]
    n = len(cat.cases)
    reqs = []
    for i in range(spec["rows"]):
        reqs.append("split ; " + " ; ".join("%s %s %s %s %s" % (
            cat.cases[j] if isinstance(cat.cases[j], str) else "-", ftok(cat.mx[i, j]), ftok(cat.mn[i, j]),
            ftok(cat.mx_x[i, j]), ftok(cat.mn_x[i, j])) for j in range(n)))
    try:
        with warnings.catch_warnings():
            warnings.simplefilter("ignore")
            sp = res.split()
    except TypeError:
        return reqs, ["type-error"] * len(reqs)
    want = []
    for i in range(spec["rows"]):
        want.append(" , ".join("%s %s %s %s %s" % (k, ftok(v["cat"].ext[i, 0]), ftok(v["cat"].ext[i, 1]),
                                                   ftok(v["cat"].ext_x[i, 0]), ftok(v["cat"].ext_x[i, 1]))
                               for k, v in sp.items()))
    return reqs, want


_UFD = [1, 1, 1.25, 1.5, 0, 2, 0.5, None]


def gen_ufdef(rng):
    defaults = None if rng.random() < 0.25 else [rng.choice(_UFD) for _ in range(4)]
    k = rng.random()
    given = None if k < 0.25 else [rng.choice(_UFD + [None, None]) for _ in range(4)]
    return {"kind": "ufdef", "defaults": defaults, "given": given}


def ufdef_impl(spec):
    from pyyeti import cla

    dflt = dict(se=0)
    if spec["defaults"] is not None:
        dflt["uf_reds"] = tuple(spec["defaults"])
    with warnings.catch_warnings():
        warnings.simplefilter("ignore")
        drdefs = cla.DR_Def(dflt)
        drdefs.add(name="cat", desc="toy category", labels=2, drfunc="no-func",
                   uf_reds=None if spec["given"] is None else tuple(spec["given"]))
        DR = cla.DR_Event()
        DR.add(None, drdefs)
    return tuple(drdefs["cat"].uf_reds), list(DR.UF_reds)


def _uftok(t):
    return "-" if t is None else " ".join("none" if v is None else str(Fraction(v)) for v in t)


def oracle_ufdef(spec):
    try:
        got, used = ufdef_impl(spec)
    except Exception as e:
        return [("drdef-add-uf-reds-raises-%s" % type(e).__name__, "DR_Def.add raises on a documented uf_reds form", spec,
                 repr(e), "a 4-tuple")]
    d = spec["defaults"] if spec["defaults"] is not None else [None] * 4
    g = spec["given"] if spec["given"] is not None else [None] * 4
    want = tuple(gv if gv is not None else (dv if dv is not None else 1) for dv, gv in zip(d, g))
    fails = []
    if tuple(got) != want:
        only_none_entries = spec["given"] is not None and all(
            a == b for a, b, gv in zip(got, want, g) if gv is not None) and all(
            a == 1 for a, gv in zip(got, g) if gv is None)
        fam = FIXED_F56 if only_none_entries else "drdef-add-uf-reds-wrong"
        fails.append((fam, "DR_Def.add(uf_reds=%r) with defaults['uf_reds'] = %r stores %r; documented: None entries are "
                      "reset to the corresponding entry of defaults (or 1 if that is None too): %r"
                      % (spec["given"], spec["defaults"], got, want), spec, list(got), list(want)))
    elif tuple(got) not in [tuple(u) for u in used]:
        fails.append(("drdef-uf-reds-not-used-by-event", "DR_Event.UF_reds does not list the category's factors", spec,
                      used, list(got)))
    return fails


# ---------------------------------------------------------------------------------------
# correspondence


def _uffull_branches(ctx, spec):
    """what a generated full-matrix case exercises (counted whether or not the implementation answers)"""
    nontriv = spec["nrb"] < spec["n"]
    ctx.count("branch:uf-full-layout-" + spec["layout"])
    ctx.count("branch:uf-full-m-" + spec["mform"])
    ctx.count("branch:uf-full-b-" + spec["bform"])
    if spec["rf"] and nontriv:
        ctx.count("branch:uf-full-with-rf")
        ctx.count("branch:uf-full-rf-" + spec["rfmode"])
        if spec.get("rforder"):
            ctx.count("branch:uf-full-rf-unsorted")
    if spec["coupled"]:
        ctx.count("branch:uf-full-coupled")
    if spec["nonsym"] and nontriv:
        ctx.count("branch:uf-full-nonsymmetric")


def correspondence(ctx):
    rng = ctx.rng
    drv = ctx.driver("C16")
    reqs = []
    jobs = []  # (stream, spec, first request index, count, expected replies or comparer)

    def add(stream, spec, rq, payload):
        jobs.append((stream, spec, len(reqs), len(rq), payload))
        reqs.extend(rq)

    # corpus-like fixed histories first (F6 and the NaN-first / tie shapes)
    fixed = []
    for vals in ([5, 1, 3], [5, -5, 5], [-2, 2], [None, 3, None, -4], [1, 1, 1]):
        fixed.append({"kind": "ext1", "rows": 1, "n": len(vals), "calls": [
            {"ext": [[None if v is None else float(v)]], "ext_x": [[float(i)]], "maxcase": "c%d" % i,
             "mincase": None, "casenum": i} for i, v in enumerate(vals)]})
    hists = fixed + [gen_hist(rng, 2) for _ in range(ctx.pick(3000, 20000))] \
        + [gen_hist(rng, 1) for _ in range(ctx.pick(2500, 16000))]
    for h in hists:
        add(h["kind"], h, hist_requests(h), hist_impl_replies(h))
    for _ in range(ctx.pick(3000, 20000)):
        m = gen_mm(rng)
        rq = ["mm %s ; %s" % (" ".join(ftok_n(v) for v in row), " ".join(ftok(v) for v in m["x"]))
              for row in m["resp"]]
        add("maxmin", m, rq, None)
    events = [gen_event(rng) for _ in range(ctx.pick(400, 2500))]
    # every order of the cases (thorough: many events; quick: a few) -- the model is given the same order
    nperm = ctx.pick(6, 120)
    for e in list(events):
        if nperm and len(e["labels"]) <= 4 and len(set(e["labels"])) == len(e["labels"]):
            nperm -= 1
            for perm in itertools.permutations(range(len(e["labels"]))):
                if list(perm) != sorted(perm):
                    events.append(permuted_event(e, perm))
    built = {}
    for n_ev, e in enumerate(events):
        res, DR, err = build_event(e)
        built[n_ev] = (res, err)
        add(e["domain"], e, event_requests(e), ("event", n_ev))
        if not err and e["srspv"] is not None:
            for q in e["Qs"]:
                stack = np.stack([res["cat"].srs.srs[q][j] for j in e["js"]])
                add("srs-env", {"kind": "event", **e}, env_requests(stack), ("env", n_ev, q))
    # labels for form_extreme come from the model as well: first a small pass for mkCaseLbl
    forms = [gen_form(rng) for _ in range(ctx.pick(150, 1000))]
    formbuilt = []
    for f in forms:
        top, evs = build_form(f)
        lv = form_levels(f, top, evs)
        formbuilt.append((top, evs, lv))
        for parts, names, use_ext, ext in lv:
            for nm, p in zip(names, parts):
                for lower in list(p.maxcase) + list(p.mincase):
                    _LBL.setdefault((nm, lower, use_ext, f["doappend"]), None)
    addmms = [gen_addmm(rng) for _ in range(ctx.pick(150, 1000))]
    addbuilt = []
    for a in addmms:
        top, evs, first = build_addmm(a)
        addbuilt.append((top, evs, first))
        for e, res in zip(a["events"], evs):
            for lower in list(res["cat"].maxcase) + list(res["cat"].mincase):
                _LBL.setdefault((e["event"], lower, False, a["doappend"]), None)
    keys = [k for k, v in _LBL.items() if v is None]
    if keys:
        lab = drv.ask(["lbl %s %s %d %d" % (c, l, 1 if u else 0, d) for c, l, u, d in keys])
        for k, v in zip(keys, lab):
            _LBL[k] = v
    for f, (top, evs, lv) in zip(forms, formbuilt):
        srs_q = f["events"][0]["Qs"] if f["events"][0]["srspv"] is not None else []
        for parts, names, use_ext, ext in lv:
            rq = _part_requests(parts, names, use_ext, f["doappend"], f["events"][0]["rows"], srs_q)
            add("form-nested" if f["groups"] is not None else "form-flat", f, rq,
                _level_replies(ext, f["events"][0]["rows"], srs_q))
            # `cases` of the new category
            if list(ext.cases) != list(names):
                ctx.disagree("form-cases", f, list(ext.cases), list(names))
    ufs = [gen_uf(rng) for _ in range(ctx.pick(800, 6000))]
    for u in ufs:
        rq = [uf_request(u, "re")] + ([uf_request(u, "im")] if u["soli"] is not None else [])
        add("uf", u, rq, None)
    for _ in range(ctx.pick(500, 3000)):
        u = gen_uf(rng, full=True)
        try:
            ke, kr = uf_impl_inverse(u)
        except Exception as e:  # the model never refuses these inputs
            ctx.case(u, nontrivial=False, branch="stream:uf-full")
            _uffull_branches(ctx, u)
            ctx.disagree("uf-full-raises", u, "%s: %s" % (type(e).__name__, str(e)[:200]), "a solution")
            continue
        add("uf-full", u, uffull_requests(u, ke, kr), (ke, kr))
    for a, (top, evs, first) in zip(addmms, addbuilt):
        parts = [res["cat"] for res in evs]
        names = [e["event"] for e in a["events"]]
        rq = addmm_requests(a) + _part_requests(parts, names, False, a["doappend"], a["rows"], [])
        add("addmm", a, rq, addmm_impl_replies(a, evs) + first)
        again = _level_replies(top["extreme"]["cat"], a["rows"], [])
        if again != first or list(top.keys()).count("extreme") != 1 or list(top["extreme"]["cat"].cases) != names:
            ctx.disagree("form-twice", a, again, first)
        rq, want = heap_form_io(a, evs, top)
        add("heap-form", a, rq, want)
    for _ in range(ctx.pick(700, 5000)):
        h = gen_heap_hist(rng)
        try:
            rq, want = heap_hist_io(h)
        except Exception as e:  # the model never refuses a well-formed history
            rq, want = ["heap 1 ;  ;  ;  "], ["exception:" + type(e).__name__]
        add("heap-hist", h, rq, want)
    for _ in range(ctx.pick(150, 1000)):
        t = gen_tree(rng)
        rq, want, bad_cases, _ = tree_run(t)
        add("tree", t, rq, (want, bad_cases))
    psds = [gen_psd(rng) for _ in range(ctx.pick(250, 1500))]
    nperm = ctx.pick(4, 60)
    for e in list(psds):
        if nperm and len(e["labels"]) <= 3 and e["dup"] is None and e["badfreq"] is None:
            nperm -= 1
            for perm in itertools.permutations(range(len(e["labels"]))):
                if list(perm) != sorted(perm):
                    psds.append(permuted_event(e, perm))
    # solvepsd(use_apply_uf=True): first the model of apply_uf on every unit-force solution (Rat, exact), then the PSD
    # accumulation on the responses THE MODEL gives
    ufreqs, ufidx = [], {}
    for n_ev, e in enumerate(psds):
        if e["applyuf"] is not None:
            for k in range(len(e["labels"])):
                for a, us in enumerate(psd_uf_specs(e, k)):
                    rq = [uf_request(us, "re")] + ([uf_request(us, "im")] if us["soli"] is not None else [])
                    ufidx[(n_ev, k, a)] = (len(ufreqs), len(rq))
                    ufreqs += rq
    ufrep = drv.ask(ufreqs) if ufreqs else []

    def model_resp(n_ev, e):
        out = []
        for k in range(len(e["labels"])):
            per = []
            for a in range(len(e["cases"][k]["F"])):
                i0, cnt = ufidx[(n_ev, k, a)]
                d = uf_parse(ufrep[i0])[0, :, :, 2]
                if cnt == 2:
                    d = d + 1j * uf_parse(ufrep[i0 + 1])[0, :, :, 2]
                per.append(d + 0j)
            out.append(per)
        return out

    psdbuilt = {}
    for n_ev, e in enumerate(psds):
        res, err = build_psd(e)
        psdbuilt[n_ev] = (res, err)
        R_all = model_resp(n_ev, e) if e["applyuf"] is not None else None
        add("psd", e, psd_requests(e, res, err, R_all), n_ev)
        if not err and e["srs"] is not None:
            Rm = R_all if R_all is not None else [psd_resp(e, k) for k in range(len(e["labels"]))]
            add("psd-srs", e, psd_srs_requests(e, Rm), n_ev)
            for q in e["srs"]["Qs"]:
                stack = np.stack([res["cat"].srs.srs[q][j] for j in e["js"]])
                add("psd-srs-env", e, env_requests(stack), (n_ev, q))
    for _ in range(ctx.pick(400, 2500)):
        m = gen_merge(rng)
        add("merge", m, [merge_request(m)], None)
    for _ in range(ctx.pick(400, 2500)):
        c = gen_calc(rng)
        add("calc-ext", c, calc_requests(c), calc_impl_replies(c))
    for _ in range(ctx.pick(300, 2000)):
        c = gen_stat(rng)
        rq = ["statext %s ; %s ; %s" % (f2b(c["k"]), fbits(a), fbits(b)) for a, b in zip(c["mx"], c["mn"])]
        if c["srs"] is not None:
            S = np.array(c["srs"])  # cases x rows x freq
            for a in range(S.shape[1]):
                for b in range(S.shape[2]):
                    rq.append("statext %s ; %s ; %s" % (f2b(c["k"]), fbits(S[:, a, b]), fbits(S[:, a, b])))
        add("stat-ext", c, rq, None)

    for spec in lab_specs(rng, ctx.pick(250, 1500)):
        rq, want, branches, _, _ = labform_run(spec)
        add("labform", spec, rq, (want, branches))
    for _ in range(ctx.pick(400, 2500)):
        m = gen_mergelists(rng)
        add("mergelists", m, ["mergelists ; %s ; %s" % (" ".join(m["l1"]), " ".join(m["l2"]))], None)
    for _ in range(ctx.pick(250, 1500)):
        e = gen_event(rng, dup=False, srs=False)
        n = len(e["labels"])
        short = n > 2 and rng.random() < 0.15
        res, DR, err = build_event(e, order=list(range(n - 1)) if short else None)
        if err:
            raise Infra("toy event refused: %s" % err)
        rq, want = split_io(e, res, short)
        add("split", dict(e, short=short), rq, want)
    for _ in range(ctx.pick(300, 2000)):
        u = gen_ufdef(rng)
        add("ufdef", u, ["ufdef ; %s ; %s" % (_uftok(u["defaults"]), _uftok(u["given"]))], None)

    rep = drv.ask(reqs)
    ctx.extra["driver_requests"] = len(reqs)
    if any(r == "bad-op" for r in rep):
        i = [r for r in rep].index("bad-op")
        raise Infra("driver refused a request: %s" % reqs[i][:200])

    for stream, spec, i0, cnt, payload in jobs:
        got = rep[i0:i0 + cnt]
        if stream in ("ext1", "ext2"):
            ctx.case(spec, nontrivial=hist_nontrivial(spec, got), branch="stream:" + stream)
            c0 = spec["calls"][0]
            if all(v is None for row in c0["ext"] for v in row) and spec["n"] > 1:
                ctx.count("branch:nan-first-case")
            if c0["ext_x"] is None:
                ctx.count("branch:no-abscissa")
            if c0["casenum"] is not None:
                ctx.count("branch:casenum-record")
            if any(isinstance(c["maxcase"], list) for c in spec["calls"]):
                ctx.count("branch:label-list")
            if any(c["mincase"] is not None for c in spec["calls"]):
                ctx.count("branch:mincase-given")
            if got != payload:
                bad = next(j for j in range(cnt) if got[j] != payload[j])
                ctx.disagree(stream, spec, {"reply": bad, "impl": payload[bad]}, {"reply": bad, "model": got[bad]})
            ctx.sample({"stream": stream, "calls": spec["n"], "rows": spec["rows"], "model_final": got[(spec["n"] - 1) * spec["rows"]]})
        elif stream == "maxmin":
            out = mm_impl(spec)
            model_err = any(g == "value-error" for g in got) or not got
            ctx.case(spec, nontrivial=not model_err, branch="stream:maxmin")
            if model_err:
                ctx.count("branch:maxmin-value-error")
            if (out == "value-error") != model_err:
                ctx.disagree("maxmin", spec, "value-error" if out == "value-error" else "ok", got)
            elif not model_err:
                for i, g in enumerate(got):
                    t = g.split()
                    impl = [ftok(out.ext[i, 0]), ftok(out.ext_x[i, 0]), ftok(out.ext[i, 1]), ftok(out.ext_x[i, 1])]
                    if impl != [t[0], t[1], t[3], t[4]]:
                        ctx.disagree("maxmin", spec, impl, g)
                        break
        elif stream in ("time", "frf"):
            res, err = built[payload[1]]
            diffs = event_compare(spec, res, err, got)
            if not err:
                diffs += event_store_checks(spec, res)
            ctx.case(spec, nontrivial=not err, branch="stream:" + stream)
            if err:
                ctx.count("branch:duplicate-case-refused")
            if spec["js"] != sorted(spec["js"]):
                ctx.count("branch:permuted-j")
            if "perm" in spec:
                ctx.count("branch:all-case-orders")
            if spec["histpv"] is not None and not err:
                ctx.count("branch:history-stored")
            for what, a, b in diffs[:1]:
                ctx.disagree(stream, spec, {"what": what, "impl": a}, {"what": what, "model": b})
        elif stream == "srs-env":
            res, err = built[payload[1]]
            e = res["cat"].srs.ext[payload[2]]
            impl = [ftok(e[a, b]) for a in range(e.shape[0]) for b in range(e.shape[1])]
            ctx.case((payload, spec["event"], spec["labels"]), nontrivial=True, branch="stream:srs-env")
            if impl != got:
                ctx.disagree("srs-env", spec, impl, got)
        elif stream in ("form-flat", "form-nested"):
            ctx.case((spec["doappend"], spec["groups"], spec["case_order"], got[0]), nontrivial=True, branch="stream:" + stream)
            ctx.count("branch:doappend-%d" % spec["doappend"])
            if spec["case_order"] is not None:
                ctx.count("branch:case-order")
            if got != payload:
                bad = next(j for j in range(cnt) if got[j] != payload[j])
                ctx.disagree(stream, spec, {"reply": bad, "impl": payload[bad]}, {"reply": bad, "model": got[bad]})
        elif stream == "uf":
            model = uf_parse(got[0])
            if spec["soli"] is not None:
                model = model + 1j * uf_parse(got[1])
            nontriv = spec["nrb"] < spec["n"]
            ctx.case(spec, nontrivial=nontriv, branch="stream:uf")
            ctx.count("branch:uf-all-rigid" if not nontriv else ("branch:uf-with-rf" if spec["rf"] else "branch:uf-elastic-only"))
            if spec["m"] is None:
                ctx.count("branch:uf-m-none")
            if spec["soli"] is not None:
                ctx.count("branch:uf-complex")
            try:
                impl, pgs = uf_impl_all(spec)
            except Exception as e:
                ctx.disagree("uf-raises", spec, "%s: %s" % (type(e).__name__, str(e)[:200]), "a solution")
                continue
            impl.pop("inputs_unchanged", None)
            impl.pop("earlier_unchanged", None)
            scale = 1.0 + float(np.max(np.abs(model))) if model.size else 1.0
            for disc, outs in impl.items():
                for u, o in enumerate(outs):
                    err = float(np.max(np.abs(o - model[u]))) if o.size else 0.0
                    if not err <= 1e-9 * scale:
                        ctx.disagree("uf-" + disc, spec, {"uf": spec["ufs"][u], "max_abs_diff": err}, "Rat model")
                        break
        elif stream == "uf-full":
            try:
                impl, pgs = uf_impl_all(spec)
            except Exception as e:
                ctx.case(spec, nontrivial=False, branch="stream:uf-full")
                _uffull_branches(ctx, spec)
                ctx.disagree("uf-full-raises", spec, "%s: %s" % (type(e).__name__, str(e)[:200]), "a solution")
                continue
            unchanged = impl.pop("inputs_unchanged", True)
            impl.pop("earlier_unchanged", None)
            nontriv = spec["nrb"] < spec["n"]
            ctx.case(spec, nontrivial=nontriv, branch="stream:uf-full")
            _uffull_branches(ctx, spec)
            if not unchanged:
                ctx.disagree("uf-full-inputs", spec, "the caller's m, b or k changed", "inputs are read only")
            for tag, off in (("given", 0), ("gauss", 1)):
                model = uffull_parse(got[off])
                if model is not None and spec["soli"] is not None:
                    im = uffull_parse(got[off + 2])
                    model = None if im is None else model + 1j * im
                if model is None:
                    ctx.disagree("uf-full-" + tag, spec, "a solution", "singular partition")
                    continue
                scale = 1.0 + float(np.max(np.abs(model))) if model.size else 1.0
                done = False
                for disc, outs in impl.items():
                    for u, o in enumerate(outs):
                        err = float(np.max(np.abs(o - model[u]))) if o.size else 0.0
                        if not err <= 1e-9 * scale:
                            ctx.disagree("uf-full-%s-%s" % (tag, disc), spec, {"uf": spec["ufs"][u], "max_abs_diff": err},
                                         "Float model, inverse %s" % ("as the implementation factorised it" if tag == "given"
                                                                      else "by Gauss-Jordan in the driver"))
                            done = True
                            break
                    if done:
                        break
        elif stream == "addmm":
            ctx.case(spec, nontrivial=True, branch="stream:addmm")
            if spec["events"][0]["xv"] is None:
                ctx.count("branch:addmm-no-abscissa")
            if got != payload:
                bad = next(j for j in range(cnt) if got[j] != payload[j])
                ctx.disagree("addmm", spec, {"reply": bad, "impl": payload[bad]}, {"reply": bad, "model": got[bad]})
        elif stream == "psd":
            res, err = psdbuilt[payload]
            diffs = psd_compare(spec, res, err, got)
            ctx.case(spec, nontrivial=not err, branch="stream:psd")
            if "perm" in spec:
                ctx.count("branch:psd-all-case-orders")
            if err:
                ctx.count("branch:psd-freq-mismatch-refused" if spec["badfreq"] is not None else "branch:psd-duplicate-refused")
            if any(len(c["F"]) > 1 for c in spec["cases"]):
                ctx.count("branch:psd-multi-force")
            if spec["trim"] and any(not any(row) for c in spec["cases"] for row in c["F"]):
                ctx.count("branch:psd-zero-force-trimmed")
            if spec["cases"][0]["Gi"] is not None:
                ctx.count("branch:psd-complex")
            if spec["applyuf"] is not None and not err:
                ctx.count("branch:psd-use-apply-uf")
                if spec["applyuf"]["rf"]:
                    ctx.count("branch:psd-use-apply-uf-rf")
            if spec["js"] != sorted(spec["js"]):
                ctx.count("branch:psd-permuted-j")
            for what, a, b in diffs[:1]:
                ctx.disagree("psd", spec, {"what": what, "impl": a}, {"what": what, "model": b})
        elif stream == "psd-srs":
            res, err = psdbuilt[payload]
            ctx.case(("psd-srs", spec), nontrivial=True, branch="stream:psd-srs")
            if spec["srs"]["eqsine"]:
                ctx.count("branch:psd-srs-eqsine")
            if spec["srs"]["resp_time"] is not None:
                ctx.count("branch:psd-srs-resp-time")
            if spec["applyuf"] is not None:
                ctx.count("branch:psd-srs-with-apply-uf")
            if any(g == "off-grid" for g in got):
                raise Infra("psd-srs: oscillator frequencies left the analysis grid")
            for what, a, b in psd_srs_compare(spec, res, got)[:1]:
                ctx.disagree("psd-srs", spec, {"what": what, "impl": a}, {"what": what, "model": b})
        elif stream == "psd-srs-env":
            res, err = psdbuilt[payload[0]]
            e = res["cat"].srs.ext[payload[1]]
            impl = [ftok(e[a, b]) for a in range(e.shape[0]) for b in range(e.shape[1])]
            ctx.case(("psd-srs-env", payload, spec["event"], spec["labels"], got), nontrivial=True, branch="stream:psd-srs-env")
            if impl != got:
                ctx.disagree("psd-srs-env", spec, impl, got)
        elif stream in ("heap-hist", "heap-form"):
            ctx.case((stream, spec), nontrivial=True, branch="stream:" + stream)
            if spec.get("mixedx"):
                ctx.count("branch:heap-abscissae-sometimes")
            if stream == "heap-form" and spec["doappend"] == 3:
                ctx.count("branch:heap-form-label-lists-handed-in")
            if got != payload:
                bad = next(j for j in range(cnt) if got[j] != payload[j])
                ctx.disagree(stream, spec, {"row": bad, "impl": payload[bad]}, {"row": bad, "model": got[bad]})
        elif stream == "labform":
            want, branches = payload
            ctx.case(spec, nontrivial=any(b not in ("labels-identical", "labels-identical-repeated") and b.startswith("labels-")
                                          for b in branches), branch="stream:labform")
            for b in sorted(branches):
                ctx.count("branch:" + b)
            bad = labform_compare(spec, reqs[i0:i0 + cnt], want, got)
            if bad is not None:
                ctx.disagree("labform", spec, {k: v for k, v in bad.items() if k != "model"}, bad.get("model"))
        elif stream == "split":
            ctx.case(("split", spec), nontrivial=not spec["short"], branch="stream:split")
            if spec["short"]:
                ctx.count("branch:split-unfilled-column-refused")
            if spec["js"] != sorted(spec["js"]):
                ctx.count("branch:split-permuted-j")
            if got != payload:
                bad = next(j for j in range(cnt) if got[j] != payload[j])
                ctx.disagree("split", spec, {"row": bad, "impl": payload[bad]}, {"row": bad, "model": got[bad]})
        elif stream == "ufdef":
            ctx.case(spec, nontrivial=spec["given"] is not None, branch="stream:ufdef")
            if spec["given"] is not None and any(v is None for v in spec["given"]):
                ctx.count("branch:ufdef-none-entry")
            if spec["defaults"] is None:
                ctx.count("branch:ufdef-no-defaults")
            try:
                impl = " ".join("%d/%d" % Fraction(v).as_integer_ratio() for v in ufdef_impl(spec)[0])
            except Exception as e:
                impl = "exception:" + type(e).__name__
            if impl != got[0]:
                ctx.disagree("ufdef", spec, impl, got[0])
        elif stream == "mergelists":
            from pyyeti import locate

            ctx.case(spec, nontrivial=bool(spec["l1"] and spec["l2"]), branch="stream:mergelists")
            if len(set(spec["l1"])) != len(spec["l1"]) or len(set(spec["l2"])) != len(spec["l2"]):
                ctx.count("branch:mergelists-repeated-items")
            m, pv1, pv2 = locate.merge_lists(list(spec["l1"]), list(spec["l2"]))
            impl = "%s | %s | %s" % (" ".join(m), " ".join(map(str, pv1)), " ".join(map(str, pv2)))
            if impl != got[0]:
                ctx.disagree("mergelists", spec, impl, got[0])
        elif stream == "tree":
            want, bad_cases = payload
            depth, nstale, empty = tree_shape(spec["root"])
            ctx.case(spec, nontrivial=True, branch="stream:tree")
            ctx.count("branch:tree-depth-%d" % min(depth, 3))
            if nstale:
                ctx.count("branch:tree-stale-extreme")
            if empty:
                ctx.count("branch:tree-empty-group")
            if len(spec["cats"]) > 1:
                ctx.count("branch:tree-two-categories")
            if bad_cases is not None:
                ctx.disagree("tree-cases", spec, {"group": bad_cases[0], "keys / cases": bad_cases[1]},
                             "'extreme' is the last key and its categories list the other keys as cases")
            if got != want:
                bad = next(j for j in range(cnt) if got[j] != want[j])
                what = reqs[i0 + bad].split(" ; ")[0]
                ctx.disagree("tree-" + what.split()[0], spec, {"request": bad, "impl": want[bad]}, {"request": bad, "model": got[bad]})
        elif stream == "merge":
            out = run_merge(spec)
            ctx.case(spec, nontrivial=True, branch="stream:merge")
            if got[0] == "value-error":
                ctx.count("branch:merge-duplicate-refused")
            if spec["rename"]:
                ctx.count("branch:merge-rename")
            if out == "value-error" or got[0] == "value-error":
                if out != got[0]:
                    ctx.disagree("merge", spec, out, got[0])
            else:
                keys = got[0].split()
                if [_nm(k) for k in out["keys"]] != keys or \
                        [_nm(k) for k in out["events"]] != keys[len(spec["existing"]):]:
                    ctx.disagree("merge", spec, out, got[0])
        elif stream == "calc-ext":
            ctx.case(spec, nontrivial=len(spec["cases"]) > 1, branch="stream:calc-ext")
            if any(v is None for row in spec["mx"] + spec["mn"] for v in row):
                ctx.count("branch:calc-ext-nan")
            got = got[:len(spec["mx"])] + [g.split()[0] for g in got[len(spec["mx"]):]]  # spectra: value only
            if got != payload:
                bad = next(j for j in range(cnt) if got[j] != payload[j])
                ctx.disagree("calc-ext", spec, {"reply": bad, "impl": payload[bad]}, {"reply": bad, "model": got[bad]})
        elif stream == "stat-ext":
            cat = run_calc(spec, stat=True)
            ctx.case(spec, nontrivial=True, branch="stream:stat-ext")
            nr = len(spec["mx"])
            model = np.array([[b2f(t) for t in g.split()] for g in got[:nr]])
            bad = _close(cat.ext, model, 1e-12)
            if bad is not None or cat.ext_x is not None or list(cat.maxcase) != ["Statistical"] * nr \
                    or list(cat.mincase) != ["Statistical"] * nr:
                ctx.disagree("stat-ext", spec, cat.ext.tolist(), model.tolist())
            if spec["srs"] is not None:
                ctx.count("branch:stat-ext-srs")
                ms = np.array([b2f(g.split()[0]) for g in got[nr:]]).reshape(cat.srs.ext[10].shape)
                if _close(cat.srs.ext[10], ms, 1e-12) is not None:
                    ctx.disagree("stat-ext-srs", spec, cat.srs.ext[10].tolist(), ms.tolist())
    ctx.exhaustive = False
    ctx.require_branches([
        "stream:ext1", "stream:ext2", "stream:maxmin", "stream:time", "stream:frf", "stream:srs-env",
        "stream:form-flat", "stream:form-nested", "stream:uf", "branch:nan-first-case", "branch:no-abscissa",
        "branch:casenum-record", "branch:label-list", "branch:mincase-given", "branch:maxmin-value-error",
        "branch:duplicate-case-refused", "branch:permuted-j", "branch:history-stored", "branch:doappend-0",
        "branch:doappend-1", "branch:doappend-2", "branch:doappend-3", "branch:case-order",
        "branch:uf-all-rigid", "branch:uf-with-rf", "branch:uf-elastic-only", "branch:uf-m-none", "branch:uf-complex",
        "stream:uf-full", "branch:uf-full-layout-C", "branch:uf-full-layout-F", "branch:uf-full-m-none",
        "branch:uf-full-m-vec", "branch:uf-full-m-mat", "branch:uf-full-b-vec", "branch:uf-full-b-mat",
        "branch:uf-full-with-rf", "branch:uf-full-coupled", "branch:uf-full-nonsymmetric",
        "stream:addmm", "branch:addmm-no-abscissa", "stream:psd", "branch:psd-all-case-orders",
        "branch:psd-freq-mismatch-refused", "branch:psd-duplicate-refused", "branch:psd-multi-force",
        "branch:psd-zero-force-trimmed", "branch:psd-complex", "branch:psd-permuted-j", "stream:merge",
        "branch:merge-duplicate-refused", "branch:merge-rename", "stream:calc-ext", "branch:calc-ext-nan",
        "stream:stat-ext", "branch:all-case-orders",
        "branch:uf-full-rf-index", "branch:uf-full-rf-bool", "branch:uf-full-rf-scalar", "branch:uf-full-rf-unsorted",
        "stream:tree", "branch:tree-depth-2", "branch:tree-depth-3", "branch:tree-stale-extreme", "branch:tree-empty-group",
        "branch:tree-two-categories", "stream:heap-hist", "stream:heap-form", "branch:heap-abscissae-sometimes",
        "branch:heap-form-label-lists-handed-in", "stream:psd-srs", "stream:psd-srs-env", "branch:psd-srs-eqsine",
        "branch:psd-srs-resp-time", "branch:psd-srs-with-apply-uf", "branch:psd-use-apply-uf", "branch:psd-use-apply-uf-rf",
        "branch:stat-ext-srs",
        "stream:labform", "stream:mergelists", "branch:mergelists-repeated-items", "stream:split",
        "branch:split-unfilled-column-refused", "branch:split-permuted-j", "stream:ufdef", "branch:ufdef-none-entry",
        "branch:ufdef-no-defaults",
        "branch:labels-identical", "branch:labels-permuted", "branch:labels-subset", "branch:labels-superset",
        "branch:labels-superset-same-order", "branch:labels-disjoint", "branch:labels-overlap",
        "branch:labels-identical-repeated", "branch:labels-repeated-refused", "branch:labels-add-maxmin-event-expanded",
        "branch:labels-abscissa-some-events", "branch:labels-abscissa-some-events-with-merge",
        "branch:labels-lower-level-envelope", "branch:labels-category-missing-in-some-event", "branch:labels-case-order",
    ])


# ---------------------------------------------------------------------------------------
# model-free oracle


def _fmax(vals):
    """NaN-ignoring maximum of a list of floats (NaN when all are NaN)"""
    good = [v for v in vals if v == v]
    return max(good) if good else NAN


def _fmin(vals):
    good = [v for v in vals if v == v]
    return min(good) if good else NAN


def _same(a, b):
    return (a != a and b != b) or a == b


def jsonable_small(v):
    if isinstance(v, np.ndarray):
        return v.tolist()
    if isinstance(v, dict):
        return {str(k): jsonable_small(x) for k, x in v.items()}
    return v


def _snapshot(cat):
    """deep copy of everything a results category holds that the property speaks about"""
    out = {}
    for nm in ("ext", "ext_x", "mx", "mn", "mx_x", "mn_x", "maxcase", "mincase", "cases", "hist", "frf", "psd", "rms"):
        if hasattr(cat, nm):
            out[nm] = copy.deepcopy(getattr(cat, nm))
    if hasattr(cat, "srs"):
        out["srs.ext"] = copy.deepcopy(cat.srs.ext)
        out["srs.srs"] = copy.deepcopy(cat.srs.srs)
    return out


def _snap_diff(before, cat):
    """name of the first member of `cat` that is no longer what the snapshot recorded, or None"""
    now = _snapshot(cat)
    for nm, v in before.items():
        w = now.get(nm)
        if isinstance(v, np.ndarray):
            if not isinstance(w, np.ndarray) or v.shape != w.shape or not np.array_equal(v, w, equal_nan=True):
                return nm
        elif isinstance(v, dict):
            if set(v) != set(w) or any(not np.array_equal(v[q], w[q], equal_nan=True) for q in v):
                return nm
        elif v != w:
            return nm
    return None


def spec_mixedx(h):
    return len({c["ext_x"] is None for c in h["calls"]}) > 1


def oracle_hist(h):
    fails = []
    cols = 1 if h["kind"] == "ext1" else 2
    try:
        snaps, cur = run_hist(h)
    except Exception as e:
        return [("extrema-raises-%s" % type(e).__name__, "cla.extrema raises on a well-formed history", h,
                 repr(e), "updated extrema")]
    ext, ext_x, mxc, mnc = snaps[-1]
    calls = h["calls"]
    if ext_x is not None and ext_x.shape != ext.shape:
        return [("extrema-%d-column-abscissa-table-shape" % cols, "ext_x has shape %s, ext has %s" % (ext_x.shape, ext.shape), h,
                 list(ext_x.shape), list(ext.shape))]
    nanfirst = all(v is None for row in calls[0]["ext"] for v in row)
    tag = ("-nan-first-case" if nanfirst else "")
    for i in range(h["rows"]):
        for col, pick, which in ((0, _fmax, "max"), (1, _fmin, "min")):
            src = 0 if cols == 1 else col
            vals = [NAN if c["ext"][i][src] is None else c["ext"][i][src] for c in calls]
            labs = [_lab(c, "maxcase" if (col == 0 or cols == 1) else "mincase", i) for c in calls]
            xs = [NAN if c["ext_x"] is None else c["ext_x"][i][src] for c in calls]
            got = float(ext[i, col])
            if cols == 2:
                want = pick(vals)
                ok = _same(got, want)
                attain = [k for k, v in enumerate(vals) if _same(v, want)]
            else:
                mags = [abs(v) for v in vals]
                wm = pick(mags)
                ok = _same(abs(got), wm) and any(_same(got, v) for v in vals)
                attain = [k for k, v in enumerate(vals) if _same(v, got)]
                want = [v for v in vals if _same(abs(v), wm)][:1]
            if not ok:
                if cols == 1:
                    shrunk = (which == "max" and abs(got) < wm) or (which == "min" and abs(got) > wm)
                    fam = "extrema-one-column-broadcast" if (shrunk and len(calls) >= 3) else "extrema-one-column-wrong-abs" + which + tag
                else:
                    fam = "extrema-two-column-wrong-" + which + tag
                fails.append((fam, "row %d: stored %s %r is not the %s over the cases %r" % (
                    i, which, got, "largest/smallest magnitude" if cols == 1 else which, vals), h, got, want))
                continue
            lab = (mxc if col == 0 else mnc)[i]
            if lab not in [labs[k] for k in attain]:
                fails.append(("extrema-%d-column-%s-label-not-attaining%s" % (cols, which, tag),
                              "row %d: %s label %r names no case attaining %r (labels %r, values %r)" % (
                                  i, which, lab, got, labs, vals), h, lab, [labs[k] for k in attain]))
            elif all(c["ext_x"] is None for c in calls):
                if ext_x is not None:
                    fails.append(("extrema-abscissa-invented", "ext_x appeared although no case supplied one", h, "array", None))
            elif all(c["ext_x"] is not None for c in calls) and ext_x is None:
                fails.append(("extrema-abscissa-lost", "ext_x is None although every case supplied one", h, None, "array"))
            else:
                # the abscissa is that of the governing case -- NaN when that case came without x-values
                gx = NAN if ext_x is None else float(ext_x[i, col])
                gov = [k for k in attain if labs[k] == lab]
                if not any(_same(xs[k], gx) for k in gov):
                    if all(calls[k]["ext_x"] is None for k in gov):
                        fails.append((FIXED_F57, "cla.extrema row %d: the %s is governed by case %r, which came without x-values, but "
                                      "the abscissa reported is %r (another case's)" % (i, which, lab, gx), h, gx, NAN))
                    else:
                        fails.append(("extrema-%d-column-%s-abscissa-not-attaining%s" % (cols, which, tag),
                                      "row %d: %s abscissa %r is not that of attaining case %r" % (i, which, gx, lab),
                                      h, gx, [xs[k] for k in gov]))
    # what was handed in is still what it was (no aliasing between the accumulator and its inputs)
    for n_in, (c, mm, mxc, mnc) in enumerate(cur.inputs):
        if not np.array_equal(mm.ext, arr(c["ext"]), equal_nan=True) or \
                (c["ext_x"] is not None and not np.array_equal(mm.ext_x, arr(c["ext_x"]), equal_nan=True)) or \
                mxc != c["maxcase"] or mnc != c["mincase"]:
            fails.append(("extrema-%d-column-input-modified-by-later-call" % cols,
                          "the mm / labels handed in at call %d are no longer what they were after the later calls "
                          "(the accumulator aliases its input)" % n_in, h,
                          [mm.ext.tolist(), None if mm.ext_x is None else mm.ext_x.tolist(), mxc, mnc],
                          [c["ext"], c["ext_x"], c["maxcase"], c["mincase"]]))
            break
    # per-case columns
    if calls[0]["casenum"] is not None:
        for c in calls:
            j = c["casenum"]
            want_mx = [NAN if r[0] is None else r[0] for r in c["ext"]]
            want_mn = [NAN if r[cols - 1] is None else r[cols - 1] for r in c["ext"]]
            if not all(_same(a, b) for a, b in zip(cur.mx[:, j], want_mx)) or \
               not all(_same(a, b) for a, b in zip(cur.mn[:, j], want_mn)):
                fails.append(("extrema-per-case-column", "mx/mn column %d is not the case's data" % j, h,
                              [cur.mx[:, j].tolist(), cur.mn[:, j].tolist()], [want_mx, want_mn]))
                break
            if c["ext_x"] is not None:
                wx = [r[0] for r in c["ext_x"]]
                wn = [r[cols - 1] for r in c["ext_x"]]
                if cur.mx_x[:, j].tolist() != wx or cur.mn_x[:, j].tolist() != wn:
                    fails.append(("extrema-per-case-abscissa", "mx_x/mn_x column %d is not the case's abscissa" % j, h,
                                  [cur.mx_x[:, j].tolist(), cur.mn_x[:, j].tolist()], [wx, wn]))
                    break
    # order independence of values
    if not fails and h["n"] >= 2:
        order = list(range(h["n"]))[::-1]
        try:
            s2, _ = run_hist(h, order)
            e2 = s2[-1][0]
            for i in range(h["rows"]):
                for col in range(2):
                    a, b = float(ext[i, col]), float(e2[i, col])
                    if not (_same(a, b) if cols == 2 else _same(abs(a), abs(b))):
                        fails.append(("extrema-%d-column-order-dependent-values" % cols,
                                      "row %d col %d differs when the cases are fed in reverse order" % (i, col),
                                      h, [a, b], "equal"))
        except Exception as e:
            fails.append(("extrema-raises-%s" % type(e).__name__, "raises on the reversed history", h, repr(e), "ok"))
    return fails


def oracle_mm(m):
    out = mm_impl(m)
    rows = [[NAN if v is None else v for v in r] for r in m["resp"]]
    bad = (not rows) or len(rows[0]) != len(m["x"]) or len(m["x"]) == 0 or any(all(v != v for v in r) for r in rows)
    if (out == "value-error") != bad:
        return [("maxmin-refusal", "maxmin %s" % ("refuses a valid matrix" if not bad else "accepts an all-NaN / ill-sized input"),
                 m, "value-error" if out == "value-error" else "ok", "value-error" if bad else "ok")]
    if bad:
        return []
    fails = []
    for i, r in enumerate(rows):
        for col, pick, which in ((0, _fmax, "max"), (1, _fmin, "min")):
            want = pick(r)
            got = float(out.ext[i, col])
            if got != want:
                fails.append(("maxmin-wrong-" + which, "row %d %s" % (i, which), m, got, want))
            elif float(out.ext_x[i, col]) not in [m["x"][k] for k, v in enumerate(r) if v == want]:
                fails.append(("maxmin-abscissa-not-attaining-" + which, "row %d" % i, m, float(out.ext_x[i, col]),
                              [m["x"][k] for k, v in enumerate(r) if v == want]))
    return fails


def oracle_event(spec):
    fails = []
    res, DR, err = build_event(spec)
    dup = len(set(spec["labels"])) != len(spec["labels"])
    if (err is not None) != dup:
        return [("dr-duplicate-case-" + ("accepted" if dup else "refusal-spurious"),
                 "duplicate case labels must be refused, distinct ones accepted", spec, err, "value-error" if dup else None)]
    if err:
        return []
    cat = res["cat"]
    x = event_x(spec)
    n = len(spec["labels"])
    R = [np.abs(event_resp(spec, k)) if spec["domain"] == "frf" else event_resp(spec, k) for k in range(n)]
    dom = spec["domain"]
    for i in range(spec["rows"]):
        per_mx = [_fmax(R[k][i].tolist()) for k in range(n)]
        per_mn = [-v for v in per_mx] if dom == "frf" else [_fmin(R[k][i].tolist()) for k in range(n)]
        for col, per, pick, which in ((0, per_mx, _fmax, "max"), (1, per_mn, _fmin, "min")):
            want = pick(per)
            got = float(cat.ext[i, col])
            if not _same(got, want):
                fails.append(("dr-%s-wrong-%s" % (dom, which), "row %d: extreme %r, brute force over all cases and samples %r" % (i, got, want),
                              spec, got, want))
                continue
            lab = (cat.maxcase if col == 0 else cat.mincase)[i]
            att = [k for k in range(n) if _same(per[k], want)]
            if lab not in [spec["labels"][k] for k in att]:
                fails.append(("dr-%s-%s-label-not-attaining" % (dom, which), "row %d label %r" % (i, lab), spec, lab,
                              [spec["labels"][k] for k in att]))
                continue
            k = spec["labels"].index(lab)
            src = R[k][i] if (col == 0 or dom == "frf") else R[k][i]
            target = want if not (dom == "frf" and col == 1) else -want
            xs = [float(x[t]) for t in range(len(x)) if _same(float(src[t]), target)]
            if float(cat.ext_x[i, col]) not in xs:
                fails.append(("dr-%s-%s-abscissa-not-attaining" % (dom, which), "row %d" % i, spec, float(cat.ext_x[i, col]), xs))
        for k in range(n):
            j = spec["js"][k]
            if not (_same(float(cat.mx[i, j]), per_mx[k]) and _same(float(cat.mn[i, j]), per_mn[k])):
                fails.append(("dr-%s-per-case-column" % dom, "row %d case %d (column %d)" % (i, k, j), spec,
                              [float(cat.mx[i, j]), float(cat.mn[i, j])], [per_mx[k], per_mn[k]]))
                break
            xs_mx = [float(x[t]) for t in range(len(x)) if _same(float(R[k][i][t]), per_mx[k])]
            tmn = per_mx[k] if dom == "frf" else per_mn[k]
            xs_mn = [float(x[t]) for t in range(len(x)) if _same(float(R[k][i][t]), tmn)]
            if float(cat.mx_x[i, j]) not in xs_mx or float(cat.mn_x[i, j]) not in xs_mn:
                fails.append(("dr-%s-per-case-abscissa" % dom, "row %d case %d: mx_x/mn_x are not where the case attains its extreme" % (i, k),
                              spec, [float(cat.mx_x[i, j]), float(cat.mn_x[i, j])], [xs_mx, xs_mn]))
                break
    want_cases = [None] * n
    for k in range(n):
        want_cases[spec["js"][k]] = spec["labels"][k]
    if list(cat.cases) != want_cases:
        fails.append(("dr-%s-cases-order" % dom, "cases list", spec, list(cat.cases), want_cases))
    for what, a, b in event_store_checks(spec, res):
        fails.append(("dr-%s-stored-%s" % (dom, what.split()[1]), what, spec, a, b))
        break
    if spec["srspv"] is not None:
        for q in spec["Qs"]:
            env = np.fmax.reduce(cat.srs.srs[q], axis=0)
            if not np.array_equal(env, cat.srs.ext[q], equal_nan=True):
                fails.append(("dr-%s-srs-envelope" % dom, "srs.ext[%s] is not the maximum over the cases" % q, spec,
                              cat.srs.ext[q].tolist(), env.tolist()))
    # split(): every case gets its own columns, named with its own label (label list indexed by case number)
    if not fails:
        try:
            with warnings.catch_warnings():
                warnings.simplefilter("ignore")
                sp = copy.deepcopy(res).split()
        except Exception as e:
            sp = None
            fails.append(("dr-%s-split-raises-%s" % (dom, type(e).__name__), "split() raises on a completed event", spec, repr(e), None))
        if sp is not None:
            if list(sp.keys()) != want_cases:
                fails.append(("dr-%s-split-keys" % dom, "split() keys are not the cases in case-number order", spec,
                              list(sp.keys()), want_cases))
            else:
                for k in range(n):
                    c = sp[spec["labels"][k]]["cat"]
                    wm = [[_fmax(R[k][i].tolist()), (-_fmax(R[k][i].tolist()) if dom == "frf" else _fmin(R[k][i].tolist()))]
                          for i in range(spec["rows"])]
                    ok = list(c.cases) == [spec["labels"][k]] and all(
                        _same(float(c.ext[i, col]), wm[i][col]) and _same(float(c.mx[i, 0]), wm[i][0])
                        and _same(float(c.mn[i, 0]), wm[i][1]) for i in range(spec["rows"]) for col in (0, 1))
                    name = "hist" if dom == "time" else "frf"
                    if ok and spec["histpv"] is not None and dom == "time":
                        pv = slice(None) if spec["histpv"] == "all" else [0]
                        h = getattr(c, name)
                        ok = h.shape[0] == 1 and np.array_equal(h[0], event_resp(spec, k)[pv], equal_nan=True)
                    if not ok:
                        fails.append(("dr-%s-split-case-holds-another-cases-data" % dom, "split()[%r] does not hold the extremes / "
                                      "history of the case recovered under that label (case number %d)"
                                      % (spec["labels"][k], spec["js"][k]), spec, [c.ext.tolist(), list(c.cases)], wm))
                        break
    # calc_ext recomputes the same extreme values from the per-case columns
    if not fails:
        rc = copy.deepcopy(res)
        rc.calc_ext()
        if not np.array_equal(rc["cat"].ext, cat.ext, equal_nan=True):
            fails.append(("dr-%s-calc-ext-differs" % dom, "calc_ext over the per-case columns gives other extreme values", spec,
                          rc["cat"].ext.tolist(), cat.ext.tolist()))
    # order independence of values
    if not fails:
        order = list(range(n))[::-1]
        res2, _, err2 = build_event(spec, order)
        if err2 or not np.array_equal(res2["cat"].ext, cat.ext, equal_nan=True):
            fails.append(("dr-%s-order-dependent-values" % dom, "extreme values change when the cases are run in reverse order",
                          spec, None if err2 else res2["cat"].ext.tolist(), cat.ext.tolist()))
        elif spec["srspv"] is not None and any(
                not np.array_equal(res2["cat"].srs.ext[q], cat.srs.ext[q], equal_nan=True) for q in spec["Qs"]):
            fails.append(("dr-%s-srs-order-dependent" % dom, "SRS envelope changes with the case order", spec, None, None))
    return fails


def oracle_form(spec):
    fails = []
    top, evs = build_form(spec)
    before = list(_SNAPS)
    shape = "nested" if spec["groups"] is not None else "flat"
    # the parts handed into merge / form_extreme are afterwards bit-identical to what they were
    for i, (snap, res) in enumerate(zip(before, evs)):
        bad = _snap_diff(snap, res["cat"])
        if bad is not None:
            fails.append(("form-extreme-%s-modifies-part-%s" % (shape, bad.replace(".", "-")),
                          "after form_extreme, `%s` of event %s (a part of the envelope) is no longer what its own recovery "
                          "left there" % (bad, spec["events"][i]["event"]), spec,
                          jsonable_small(getattr(res["cat"], bad, None)), jsonable_small(snap.get(bad))))
            break
    # a sub-group's own envelope is what forming that group alone gives (later groups must not touch it)
    if not fails and spec["groups"] is not None:
        for g, members in enumerate(spec["groups"]):
            sub = {"kind": "form", "events": [spec["events"][i] for i in members], "groups": None,
                   "doappend": spec["doappend"], "case_order": None}
            alone, _ = build_form(sub)
            a, b = alone["extreme"]["cat"], top["G%d" % g]["extreme"]["cat"]
            bad = _snap_diff(_snapshot(a), b)
            if bad is not None:
                fails.append(("form-extreme-nested-group-envelope-%s" % bad.replace(".", "-"),
                              "`%s` of the envelope of group %d differs from the envelope of the same events formed alone" % (bad, g),
                              spec, jsonable_small(getattr(b, bad, None)), jsonable_small(getattr(a, bad, None))))
                break
    used = list(range(len(evs)))
    if spec["groups"] is None and spec["case_order"] is not None:
        used = spec["case_order"]
    ext = top["extreme"]["cat"]
    parts = [evs[i]["cat"] for i in used]
    allmx = np.fmax.reduce([p.ext[:, 0] for p in parts])
    allmn = np.fmin.reduce([p.ext[:, 1] for p in parts])
    if not (np.array_equal(ext.ext[:, 0], allmx, equal_nan=True) and np.array_equal(ext.ext[:, 1], allmn, equal_nan=True)):
        fails.append(("form-extreme-%s-not-envelope" % shape, "top-level extreme is not the envelope of the events", spec,
                      ext.ext.tolist(), [allmx.tolist(), allmn.tolist()]))
    else:
        d = spec["doappend"]
        for i in range(ext.ext.shape[0]):
            for col, labs in ((0, ext.maxcase), (1, ext.mincase)):
                att = [k for k, p in enumerate(parts) if _same(float(p.ext[i, col]), float(ext.ext[i, col]))]
                names = [spec["events"][used[k]]["event"] for k in att]
                lowers = [(parts[k].maxcase if col == 0 else parts[k].mincase)[i] for k in att]
                lab = labs[i]
                if d == 3:
                    ok = lab in lowers
                elif shape == "flat":
                    ok = lab in ([nm for nm in names] if d in (0, 2) else [nm + "," + lo for nm, lo in zip(names, lowers)])
                else:
                    gname = {i2: "G%d" % g for g, mem in enumerate(spec["groups"]) for i2 in mem}
                    gn = [gname[used[k]] for k in att]
                    if d == 0:
                        ok = lab in gn
                    elif d == 2:
                        ok = lab in [g + "," + nm for g, nm in zip(gn, names)]
                    else:
                        ok = lab in [g + "," + nm + "," + lo for g, nm, lo in zip(gn, names, lowers)]
                if not ok:
                    fails.append(("form-extreme-%s-label-doappend-%d" % (shape, d),
                                  "row %d col %d label %r does not name an attaining event" % (i, col, lab), spec, lab, names))
                elif parts and not any(_same(float(parts[k].ext_x[i, col]), float(ext.ext_x[i, col])) for k in att):
                    fails.append(("form-extreme-%s-abscissa" % shape, "row %d col %d" % (i, col), spec,
                                  float(ext.ext_x[i, col]), [float(parts[k].ext_x[i, col]) for k in att]))
    if shape == "flat":
        want = np.column_stack([p.ext[:, 0] for p in parts])
        if not np.array_equal(ext.mx, want, equal_nan=True) or list(ext.cases) != [spec["events"][i]["event"] for i in used]:
            fails.append(("form-extreme-per-case-columns", "mx columns / cases are not the events in order", spec,
                          ext.mx.tolist(), want.tolist()))
    if spec["events"][0]["srspv"] is not None:
        for q in spec["events"][0]["Qs"]:
            env = np.fmax.reduce([p.srs.ext[q] for p in parts])
            if not np.array_equal(ext.srs.ext[q], env, equal_nan=True):
                fails.append(("form-extreme-%s-srs-envelope" % shape, "Q=%s" % q, spec, ext.srs.ext[q].tolist(), env.tolist()))
    # forming the extreme again (stale 'extreme' entries at all levels) changes nothing
    if not fails:
        keep = (ext.ext.copy(), list(ext.maxcase), list(ext.mincase), list(ext.cases))
        co = None
        if spec["groups"] is None and spec["case_order"] is not None:
            co = [spec["events"][i]["event"] for i in spec["case_order"]]
        with warnings.catch_warnings():
            warnings.simplefilter("ignore")
            top.form_extreme("Envelope", case_order=co, doappend=spec["doappend"])
        e2 = top["extreme"]["cat"]
        if not np.array_equal(e2.ext, keep[0], equal_nan=True) or (list(e2.maxcase), list(e2.mincase), list(e2.cases)) != keep[1:]:
            fails.append(("form-extreme-not-idempotent", "forming the extreme twice changes the result (stale 'extreme' entries)",
                          spec, [e2.ext.tolist(), list(e2.cases)], [keep[0].tolist(), keep[3]]))
    # envelope of parts regardless of grouping / order: compare with the other shape
    if not fails and spec["case_order"] is None:
        ne = len(evs)
        if spec["groups"] is None:
            top2, _ = build_form(spec, perm=list(range(ne))[::-1])
        else:
            top2, _ = build_form(spec, regroup=[[i] for i in range(ne)][::-1] if ne > 1 else None)
        if not np.array_equal(top2["extreme"]["cat"].ext, ext.ext, equal_nan=True):
            fails.append(("form-extreme-grouping-dependent-values", "values change with grouping / order of the events", spec,
                          top2["extreme"]["cat"].ext.tolist(), ext.ext.tolist()))
    return fails


def _uf_expected(sol, M, B, K, n, nrb, rfi, uf):
    """the documented result of apply_uf, straight from the formulas in its docstring: (n, nt, 5) = a, v, d, d_static, d_dynamic"""
    ruf, euf, duf, suf = uf
    el = [i for i in range(nrb, n) if i not in rfi]
    a = sol.a.astype(complex).copy()
    v = sol.v.astype(complex).copy()
    ds = np.zeros_like(a)
    dd = np.zeros_like(a)
    a[:nrb] *= ruf * suf
    v[:nrb] *= ruf * suf
    a[rfi] = 0
    v[rfi] = 0
    a[el] *= euf * duf
    v[el] *= euf * duf
    if el:
        ee = np.ix_(el, el)
        av = M[ee] @ sol.a[el] + B[ee] @ sol.v[el]
        F = av + K[ee] @ sol.d[el]
        ds[el] = euf * suf * np.linalg.solve(K[ee], F)
        dd[el] = -euf * duf * np.linalg.solve(K[ee], av)
    if rfi:
        ds[rfi] = euf * suf * sol.d[rfi]
    return np.stack([a, v, ds + dd, ds, dd], axis=-1)


def oracle_uf(spec):
    from pyyeti.cla import dr_event

    fails = []
    sol, m, b, k, rf, ufs = uf_arrays(spec)
    n, nrb = spec["n"], spec["nrb"]
    rfi = list(spec["rf"])
    el = [i for i in range(nrb, n) if i not in rfi]
    keep = copy.deepcopy(sol)
    try:
        impl, pgs = uf_impl_all(spec)
    except Exception as e:
        return [("apply-uf-raises-%s%s" % (type(e).__name__, "-full" if spec["full"] else ""), "apply_uf raises", spec, repr(e), "a solution")]
    for nm in ("a", "v", "d"):
        if not np.array_equal(getattr(sol, nm), getattr(keep, nm)):
            fails.append(("apply-uf-mutates-input", "sol.%s changed" % nm, spec, None, None))
    if not impl.pop("earlier_unchanged"):
        fails.append(("apply-uf-earlier-result-changed", "a solution returned by an earlier apply_uf call changed when later calls "
                      "were made", spec, None, None))
    if not impl.pop("inputs_unchanged"):
        fails.append(("apply-uf-mutates-input", "the caller's m, b or k changed during apply_uf (%s-ordered matrices): "
                      "later calls see different modal data" % spec.get("layout", "C"), spec, None, None))
    M = np.eye(n) if m is None else (np.diag(m) if m.ndim == 1 else m)
    B = np.diag(b) if b.ndim == 1 else b
    K = np.diag(k) if k.ndim == 1 else k
    kindtag = ("-full" if spec["full"] else "-diag") + ("-rf" if rfi else "") + ("-rb" if nrb else "")
    for u, (ruf, euf, duf, suf) in enumerate(ufs):
        want = _uf_expected(sol, M, B, K, n, nrb, rfi, ufs[u])
        scale = 1.0 + float(np.max(np.abs(want))) if want.size else 1.0
        tol = (1e-9 if not spec["full"] else 1e-8) * scale
        for disc in ("event", "shared", "fresh"):
            o = impl[disc][u]
            names = ["a", "v", "d", "d_static", "d_dynamic"]
            for c in range(5):
                err = float(np.max(np.abs(o[..., c] - want[..., c]))) if o.size else 0.0
                if not err <= tol:
                    unit = (ruf, euf, duf, suf) == (1, 1, 1, 1)
                    fam = "apply-uf-%s-%s%s" % ("unit" if unit else "scaling", names[c], kindtag)
                    fails.append((fam, "%s of uf %r differs from the documented formula by %.3g (%s call)" % (
                        names[c], ufs[u], err, disc), spec, o[..., c].tolist(), want[..., c].tolist()))
                    break
            if not np.array_equal(o[..., 2], o[..., 3] + o[..., 4]):
                fails.append(("apply-uf-split" + kindtag, "d != d_static + d_dynamic", spec, None, None))
        if not fails:
            for disc in ("event", "shared"):
                if not np.allclose(impl[disc][u], impl["fresh"][u], rtol=1e-12, atol=1e-12 * scale):
                    fails.append(("apply-uf-cache" + kindtag, "result with a shared save dict differs from the uncached result (uf #%d of %r)" % (u, ufs),
                                  spec, impl[disc][u].tolist(), impl["fresh"][u].tolist()))
        if "pg" in vars(sol):
            if pgs[u] is None or not np.array_equal(pgs[u], sol.pg * suf):
                fails.append(("apply-uf-pg", "pg is not scaled by suf", spec, None, None))
        if fails:
            break
    # a history of DR_Event.apply_uf calls on the SAME event object and solution with other partitions: nothing computed
    # for one partition may leak into the next call (each call owns a fresh `save`)
    if not fails and rfi and nrb < n and not spec.get("coupled"):
        from pyyeti import cla

        DR = cla.DR_Event()
        DR.UF_reds = list(ufs)
        pack = lambda o: np.stack([o.a, o.v, o.d, o.d_static, o.d_dynamic], axis=-1)
        for rfm, rl in ((rf, rfi), (None, []), (rf, rfi)):
            so = DR.apply_uf(sol, m, b, k, nrb, rfm)
            for u in range(len(ufs)):
                want = _uf_expected(sol, M, B, K, n, nrb, rl, ufs[u])
                sc = 1.0 + float(np.max(np.abs(want)))
                if not float(np.max(np.abs(pack(so[ufs[u]]) - want))) <= 1e-8 * sc:
                    fails.append(("apply-uf-stale-partition" + kindtag, "DR_Event.apply_uf called again on the same solution with "
                                  "rfmodes=%r returns values that do not follow the documented formula for that partition" % (rl,),
                                  spec, pack(so[ufs[u]]).tolist(), want.tolist()))
                    break
            if fails:
                break
    # cache transparency over another call order sharing one dict
    if not fails and len(ufs) > 1:
        save = {}
        pack = lambda o: np.stack([o.a, o.v, o.d, o.d_static, o.d_dynamic], axis=-1)
        for u in list(range(len(ufs)))[::-1] + [0]:
            o = pack(dr_event.apply_uf(sol, ufs[u], m, b, k, nrb, rf, save))
            if not np.allclose(o, impl["fresh"][u], rtol=1e-12, atol=1e-12):
                fails.append(("apply-uf-cache" + kindtag, "reverse call order sharing one save dict changes the result of uf #%d" % u,
                              spec, o.tolist(), impl["fresh"][u].tolist()))
                break
    return fails


def _vrs_documented(f, psd, fn, Q):
    """the vibration response spectrum as srs.vrs documents it: sqrt(sum(gain_i * PSD_i * delta_f_i)), plain numpy"""
    f = np.asarray(f, dtype=float)
    df = np.empty(len(f))
    df[1:-1] = (f[2:] - f[:-2]) / 2
    df[0] = f[1] - f[0]
    df[-1] = f[-1] - f[-2]
    p = f / fn
    gain = (1 + (p / Q) ** 2) / ((1 - p ** 2) ** 2 + (p / Q) ** 2)
    return float(np.sqrt(np.sum(gain * psd * df)))


def oracle_psd(spec):
    fails = []
    res, err = build_psd(spec)
    dup = len(set(spec["labels"])) != len(spec["labels"])
    bad = spec["badfreq"] is not None
    if (err is not None) != (dup or bad):
        what = "duplicate case label" if dup else ("frequency vector differing from the first case's" if bad else "valid event")
        return [("psd-%s-%s" % ("duplicate-case" if dup else ("freq-mismatch" if bad else "refusal"),
                                "accepted" if (dup or bad) else "spurious"),
                 "solvepsd / psd_data_recovery must refuse a %s and accept valid events" % what, spec, err,
                 "value-error" if (dup or bad) else None)]
    if err:
        return []
    cat = res["cat"]
    n, r = len(spec["labels"]), spec["rows"]
    f = np.array(spec["freq"])
    pf = spec["pf"]
    rt = 1e-11
    PK = np.zeros((r, n))
    au, sr = spec.get("applyuf"), spec.get("srs")
    tag = "" if au is None else "-use-apply-uf"
    for k in range(n):
        j = spec["js"][k]
        R = psd_resp(spec, k) if au is None else psd_resp_documented(spec, k)
        F = np.array(spec["cases"][k]["F"])
        psd = sum(F[i][None, :] * (R[i].real ** 2 + R[i].imag ** 2) for i in range(len(R)))
        if sr is not None and not fails:
            fn, pfv = psd_fn(spec), psd_pf(spec)
            for q in sr["Qs"]:
                fact = sr["conv"] * pfv / (q if sr["eqsine"] else 1.0)
                want = np.array([[fact[b] * _vrs_documented(f, psd[i], fn[b], q) for b in range(len(fn))] for i in sr["pv"]])
                if _close(cat.srs.srs[q][j], want, 1e-8) is not None:
                    fails.append(("psd-srs-spectrum%s%s" % ("-eqsine" if sr["eqsine"] else "", tag),
                                  "case %d, Q=%s: the stored spectrum is not conv*pf%s times the documented vibration response "
                                  "spectrum of the response PSD" % (k, q, "/Q" if sr["eqsine"] else ""), spec,
                                  cat.srs.srs[q][j].tolist(), want.tolist()))
                    break
        ms = np.trapezoid(psd, f, axis=1)
        rms = np.sqrt(ms)
        vms = np.trapezoid(f ** 2 * psd, f, axis=1)
        with np.errstate(invalid="ignore", divide="ignore"):
            af = np.sqrt(vms) / rms
        PK[:, k] = pf * rms
        if spec["histpv"] is not None:
            pv = slice(None) if spec["histpv"] == "all" else [0]
            if _close(cat.psd[j], psd[pv], rt) is not None:
                fam = "psd-accumulation-%s%s" % ("multi-force" if len(R) > 1 else "single-force", tag)
                fails.append((fam, "case %d: the stored response PSD is not the sum over the forces of forcepsd_i*|H_i|^2" % k,
                              spec, cat.psd[j].tolist(), psd[pv].tolist()))
                break
        if _close(cat.rms[:, j], rms, rt) is not None:
            fam = "psd-rms-not-sqrt-trapezoid" + ("" if len(R) == 1 else "-multi-force") + tag
            fails.append((fam, "case %d: rms is not the square root of the trapezoid area under the response PSD" % k,
                          spec, cat.rms[:, j].tolist(), rms.tolist()))
            break
        if _close(cat.mx[:, j], pf * rms, rt) is not None:
            fails.append(("psd-peak-factor", "case %d: per-case maximum is not peak_factor * rms" % k, spec,
                          cat.mx[:, j].tolist(), (pf * rms).tolist()))
            break
        if not np.array_equal(cat.mn[:, j], -cat.mx[:, j]) or not np.array_equal(cat.mn_x[:, j], cat.mx_x[:, j], equal_nan=True):
            fails.append(("psd-min-not-negated-max", "case %d: per-case minimum / its abscissa is not the mirrored maximum" % k,
                          spec, [cat.mn[:, j].tolist(), cat.mn_x[:, j].tolist()], [(-cat.mx[:, j]).tolist(), cat.mx_x[:, j].tolist()]))
            break
        if _close(cat.mx_x[:, j], af, rt) is not None:
            fails.append(("psd-apparent-frequency", "case %d: abscissa is not vrms/rms" % k, spec, cat.mx_x[:, j].tolist(), af.tolist()))
            break
    if not fails:
        for i in range(r):
            own = [float(cat.mx[i, spec["js"][k]]) for k in range(n)]
            want = _fmax(own)
            got = float(cat.ext[i, 0])
            if not _same(got, want) or not _same(float(cat.ext[i, 1]), -want):
                fails.append(("psd-extreme-not-max-over-cases", "row %d: ext %r, per-case peaks %r" % (i, cat.ext[i].tolist(), own),
                              spec, cat.ext[i].tolist(), [want, -want]))
                continue
            for col, labs in ((0, cat.maxcase), (1, cat.mincase)):
                att = [spec["labels"][k] for k in range(n) if _same(own[k], want)]
                if labs[i] not in att:
                    fails.append(("psd-label-not-attaining", "row %d col %d: label %r" % (i, col, labs[i]), spec, labs[i], att))
                else:
                    k = spec["labels"].index(labs[i])
                    if not _same(float(cat.ext_x[i, col]), float(cat.mx_x[i, spec["js"][k]])):
                        fails.append(("psd-abscissa-not-attaining", "row %d col %d" % (i, col), spec,
                                      float(cat.ext_x[i, col]), float(cat.mx_x[i, spec["js"][k]])))
        want_cases = [None] * n
        for k in range(n):
            want_cases[spec["js"][k]] = spec["labels"][k]
        if list(cat.cases) != want_cases:
            fails.append(("psd-cases-order", "cases list", spec, list(cat.cases), want_cases))
    if not fails and sr is not None:
        for q in sr["Qs"]:
            env = np.fmax.reduce(cat.srs.srs[q], axis=0)
            if not np.array_equal(env, cat.srs.ext[q], equal_nan=True):
                fails.append(("psd-srs-envelope-not-max-over-cases", "srs.ext[%s] of the PSD recovery is not the maximum over the "
                              "cases of the per-case spectra" % q, spec, cat.srs.ext[q].tolist(), env.tolist()))
    if not fails:
        res2, err2 = build_psd(spec, force_perm=True)
        if err2 or _close(res2["cat"].rms, cat.rms, rt) is not None:
            fails.append(("psd-force-order-dependent", "rms changes when the forces are given in reverse order", spec,
                          None if err2 else res2["cat"].rms.tolist(), cat.rms.tolist()))
        res3, err3 = build_psd(spec, scale=4.0)
        if err3 or _close(res3["cat"].rms, 2.0 * cat.rms, rt) is not None:
            fails.append(("psd-not-linear-in-force-psd", "4 x force PSD does not give 2 x rms", spec,
                          None if err3 else res3["cat"].rms.tolist(), (2.0 * cat.rms).tolist()))
        res4, err4 = build_psd(spec, order=list(range(n))[::-1])
        if err4 or not np.array_equal(res4["cat"].ext, cat.ext, equal_nan=True):
            fails.append(("psd-order-dependent-values", "extreme values change when the cases are run in reverse order", spec,
                          None if err4 else res4["cat"].ext.tolist(), cat.ext.tolist()))
        elif sr is not None and any(not np.array_equal(res4["cat"].srs.ext[q], cat.srs.ext[q], equal_nan=True) for q in sr["Qs"]):
            fails.append(("psd-srs-order-dependent", "the SRS envelope of the PSD recovery changes with the case order", spec,
                          None, None))
    return fails


def oracle_merge(spec):
    out = run_merge(spec)
    names = [spec["rename"].get(e["name"], e["name"]) for e in spec["incoming"]]
    allk = spec["existing"] + names
    dup = len(set(allk)) != len(allk)
    if dup != (out == "value-error"):
        return [("merge-duplicate-event-%s" % ("accepted" if dup else "refusal-spurious"),
                 "merge must refuse an event name that already exists and accept distinct ones", spec, out,
                 "value-error" if dup else allk)]
    if not dup and (out["keys"] != allk or out["events"] != names):
        return [("merge-keys-order", "keys after merge are not the old keys followed by the new events in order", spec, out, allk)]
    return []


def oracle_calc(spec):
    fails = []
    if spec["kind"] == "stat":
        cat = run_calc(spec, stat=True)
        mx, mn = arr(spec["mx"]), arr(spec["mn"])
        want = np.column_stack((mx.mean(axis=1) + spec["k"] * mx.std(ddof=1, axis=1),
                                mn.mean(axis=1) - spec["k"] * mn.std(ddof=1, axis=1)))
        if _close(cat.ext, want, 1e-11) is not None or cat.ext_x is not None or set(cat.maxcase + cat.mincase) != {"Statistical"}:
            fails.append(("calc-stat-ext", "ext is not mean +/- k*sigma (ddof=1) over the per-case columns", spec,
                          cat.ext.tolist(), want.tolist()))
        if spec["srs"] is not None:
            S = np.array(spec["srs"])
            ws = S.mean(axis=0) + spec["k"] * S.std(ddof=1, axis=0)
            if _close(cat.srs.ext[10], ws, 1e-11) is not None:
                fails.append(("calc-stat-ext-srs", "srs.ext is not mean + k*sigma (ddof=1) over the cases", spec,
                              cat.srs.ext[10].tolist(), ws.tolist()))
        # order of the cases is irrelevant
        if not fails and len(spec["cases"]) > 1:
            rev = dict(spec, mx=[row[::-1] for row in spec["mx"]], mn=[row[::-1] for row in spec["mn"]],
                       cases=spec["cases"][::-1], srs=None if spec["srs"] is None else spec["srs"][::-1])
            c2 = run_calc(rev, stat=True)
            if _close(c2.ext, cat.ext, 1e-11) is not None:
                fails.append(("calc-stat-ext-order-dependent", "statistical extreme changes with the order of the cases", spec,
                              c2.ext.tolist(), cat.ext.tolist()))
        return fails
    cat = run_calc(spec)
    for i, (a, b) in enumerate(zip(spec["mx"], spec["mn"])):
        for col, vals, pick, labs in ((0, a, max, cat.maxcase), (1, b, min, cat.mincase)):
            v = [NAN if x is None else x for x in vals]
            want = NAN if any(x != x for x in v) else pick(v)
            got = float(cat.ext[i, col])
            if not _same(got, want):
                fails.append(("calc-ext-wrong-" + ("max" if col == 0 else "min"), "row %d" % i, spec, got, want))
            elif labs[i] not in [spec["cases"][k] for k in range(len(v)) if _same(v[k], want)]:
                fails.append(("calc-ext-label-not-attaining", "row %d col %d label %r" % (i, col, labs[i]), spec, labs[i], v))
    if cat.ext_x is not None:
        fails.append(("calc-ext-stale-abscissa", "ext_x must be reset to None", spec, cat.ext_x, None))
    if spec["srs"] is not None:
        S = np.array([[[NAN if v is None else v for v in row] for row in c] for c in spec["srs"]])
        if not np.array_equal(cat.srs.ext[10], S.max(axis=0), equal_nan=True):
            fails.append(("calc-ext-srs-envelope", "srs.ext is not the maximum over the cases", spec, cat.srs.ext[10].tolist(),
                          S.max(axis=0).tolist()))
    return fails


def oracle_addmm(spec):
    fails = []
    top, evs, first = build_addmm(spec)
    r = spec["rows"]
    for e, res in zip(spec["events"], evs):
        c = res["cat"]  # looked at AFTER the envelope was formed (twice): the part must still hold what was added
        want = arr(e["mxmn"])
        mxc = [e["maxcase"]] * r if isinstance(e["maxcase"], str) else list(e["maxcase"])
        mnc = mxc if e["mincase"] is None else ([e["mincase"]] * r if isinstance(e["mincase"], str) else list(e["mincase"]))
        if not np.array_equal(c.ext, want, equal_nan=True) or list(c.maxcase) != mxc or list(c.mincase) != mnc or \
                (e["xv"] is None) != (c.ext_x is None) or (e["xv"] is not None and not np.array_equal(c.ext_x, arr(e["xv"]))):
            fails.append(("add-maxmin-table", "event %s: the category does not hold what was added" % e["event"], spec,
                          [c.ext.tolist(), c.maxcase, c.mincase], [want.tolist(), mxc, mnc]))
    ext = top["extreme"]["cat"]
    parts = [res["cat"] for res in evs]
    allmx = np.fmax.reduce([p.ext[:, 0] for p in parts])
    allmn = np.fmin.reduce([p.ext[:, 1] for p in parts])
    if not (np.array_equal(ext.ext[:, 0], allmx, equal_nan=True) and np.array_equal(ext.ext[:, 1], allmn, equal_nan=True)):
        fails.append(("form-extreme-addmm-not-envelope", "extreme over add_maxmin events is not their envelope", spec,
                      ext.ext.tolist(), [allmx.tolist(), allmn.tolist()]))
    if (ext.ext_x is None) != (spec["events"][0]["xv"] is None):
        fails.append(("form-extreme-addmm-abscissa-presence", "ext_x presence", spec, ext.ext_x is None, spec["events"][0]["xv"] is None))
    if _level_replies(ext, r, []) != first or list(ext.cases) != [e["event"] for e in spec["events"]]:
        fails.append(("form-extreme-not-idempotent", "forming the extreme twice (stale 'extreme' present) changes the result", spec,
                      list(ext.cases), [e["event"] for e in spec["events"]]))
    return fails


def _walk(res, path=()):
    """(path, DR_Results) for every dictionary of the structure, depth first, insertion order"""
    yield path, res
    if len(res) and not isinstance(next(iter(res.values())), SimpleNamespace):
        for k, v in res.items():
            yield from _walk(v, path + (k,))


def _is_base(res):
    return len(res) > 0 and isinstance(next(iter(res.values())), SimpleNamespace)


def oracle_tree(spec):
    fails = []
    d = spec["d"]
    top = build_tree(spec)
    # the parts: every category that is not inside an 'extreme' entry
    before = {path + (c,): _snapshot(ns) for path, res in _walk(top) if _is_base(res) and "extreme" not in path
              for c, ns in res.items()}
    with warnings.catch_warnings():
        warnings.simplefilter("ignore")
        top.form_extreme("Envelope", doappend=d)
    nodes = list(_walk(top))
    for path, res in nodes:
        if _is_base(res) and "extreme" not in path:
            for c, ns in res.items():
                bad = _snap_diff(before[path + (c,)], ns)
                if bad is not None:
                    fails.append(("form-extreme-nested-modifies-part-%s" % bad.replace(".", "-"),
                                  "after form_extreme, `%s` of %s is no longer what was added" % (bad, "/".join(path + (c,))),
                                  spec, jsonable_small(getattr(ns, bad, None)), jsonable_small(before[path + (c,)].get(bad))))
                    return fails
    bad = _tree_cases(top)
    if bad is not None:
        fails.append(("form-extreme-stale-extreme-kept", "group %s: 'extreme' must be the last key, occur once, and list the "
                      "other keys as its cases; keys / cases are %r (a stale 'extreme' entry survived delete_extreme)" % bad,
                      spec, bad[1], "members, then 'extreme'"))
        return fails
    # every group's envelope is the envelope of its members
    for path, res in nodes:
        if len(res) == 0 or _is_base(res) or "extreme" in path:
            continue
        members = [(k, (v["extreme"] if (not _is_base(v) and len(v)) else v)) for k, v in res.items() if k != "extreme"]
        for c, ext in res["extreme"].items():
            parts = [(k, m[c]) for k, m in members if c in m]
            if not parts:
                continue
            allmx = np.fmax.reduce([p.ext[:, 0] for _, p in parts])
            allmn = np.fmin.reduce([p.ext[:, 1] for _, p in parts])
            if not (np.array_equal(ext.ext[:, 0], allmx, equal_nan=True) and np.array_equal(ext.ext[:, 1], allmn, equal_nan=True)):
                fails.append(("form-extreme-nested-not-envelope", "the extreme of group %s is not the envelope of its members"
                              % ("/".join(path) or "Top"), spec, ext.ext.tolist(), [allmx.tolist(), allmn.tolist()]))
                return fails
            for i in range(ext.ext.shape[0]):
                for col, labs in ((0, ext.maxcase), (1, ext.mincase)):
                    att = [(k, p) for k, p in parts if _same(float(p.ext[i, col]), float(ext.ext[i, col]))]
                    lows = [(p.maxcase if col == 0 else p.mincase)[i] for _, p in att]
                    if d == 0:
                        ok = labs[i] in [k for k, _ in att]
                    elif d == 3:
                        ok = labs[i] in lows
                    else:
                        ok = any(labs[i] == k or labs[i].startswith(k + ",") for k, _ in att)
                    if not ok:
                        fails.append(("form-extreme-nested-label-doappend-%d" % d, "group %s row %d col %d: label %r names no "
                                      "attaining member" % ("/".join(path) or "Top", i, col, labs[i]), spec, labs[i],
                                      [k for k, _ in att]))
                        return fails
    # forming again / delete_extreme then form_extreme: the same tables
    first = [ser_tree(top, i) for i in range(spec["rows"])]
    dele = copy.deepcopy(top)
    dele.delete_extreme()
    for path, res in _walk(dele):
        if "extreme" in res:
            fails.append(("delete-extreme-leaves-extreme-at-depth-%d" % len(path), "after delete_extreme the dictionary %s "
                          "still has an 'extreme' entry" % ("/".join(path) or "Top"), spec, list(res.keys()), "no 'extreme'"))
            return fails
    with warnings.catch_warnings():
        warnings.simplefilter("ignore")
        dele.form_extreme("Envelope", doappend=d)
        top.form_extreme("Envelope", doappend=d)
    if [ser_tree(top, i) for i in range(spec["rows"])] != first:
        fails.append(("form-extreme-not-idempotent", "forming the extreme twice changes the tables of a nested structure", spec,
                      ser_tree(top, 0), first[0]))
    elif [ser_tree(dele, i) for i in range(spec["rows"])] != first:
        fails.append(("delete-extreme-then-form-extreme-differs", "delete_extreme followed by form_extreme does not restore the "
                      "tables", spec, ser_tree(dele, 0), first[0]))
    # traversal order: categories come base event by base event, depth first in insertion order
    bases = [(path, res) for path, res in _walk(top) if _is_base(res)]
    got_b = [(nm, list(path)) for nm, b, path in top.all_base_events("Top")]
    want_b = [(path[-1] if path else "Top", list(path)) for path, _ in bases]
    got_c = [(nm, list(path)) for nm, c, path in top.all_categories()]
    want_c = [(c, list(path) + [c]) for path, res in bases for c in res]
    if got_b != want_b:
        fails.append(("all-base-events-order", "all_base_events does not yield every base event once, depth first in insertion "
                      "order, with its path", spec, got_b, want_b))
    elif got_c != want_c:
        fails.append(("all-categories-order", "all_categories does not yield the categories base event by base event", spec,
                      got_c, want_c))
    return fails


def _lab_base_ref(b, drm):
    """what a base event's category must hold, by row, straight from the spec:
    rows of (max, min, {(lower label, x) attaining the max}, {... the min}); None when the event has no such category"""
    if b["type"] == "addmm":
        if drm != "cat":
            return None
        r = len(b["labels"])
        mxc = [b["maxcase"]] * r if isinstance(b["maxcase"], str) else list(b["maxcase"])
        mnc = mxc if b["mincase"] is None else ([b["mincase"]] * r if isinstance(b["mincase"], str) else list(b["mincase"]))
        rows = []
        for i in range(r):
            mx, mn = [NAN if v is None else v for v in b["mxmn"][i]]
            x = b["xv"][i] if b["xv"] is not None else [NAN, NAN]
            rows.append((mx, mn, {(mxc[i], x[0])}, {(mnc[i], x[1])}))
        return {"labels": list(b["labels"]), "hasx": b["xv"] is not None, "rows": rows}
    labels = b["labels"] if drm == "cat" else b["labels2"]
    if not labels:
        return None
    nrows = len(b["resp"][0])
    rows = []
    for i in range(len(labels)):
        src, sgn = (i, 1.0) if drm == "cat" else (nrows - 1 - i, -1.0)
        best = {}
        for which, pick in (("max", max), ("min", min)):
            per = [[sgn * v for v in c[src]] for c in b["resp"]]
            ext = pick(pick(p) for p in per)
            att = {("%s-%d" % (b["name"], j), t * 0.01) for j, p in enumerate(per) for t, v in enumerate(p) if v == ext}
            best[which] = (ext, att)
        rows.append((best["max"][0], best["min"][0], best["max"][1], best["min"][1]))
    return {"labels": list(labels), "hasx": True, "rows": rows}


def _lab_nodes(spec):
    out = {}

    def walk(node, path):
        out[path + (node["name"],)] = node
        if node["type"] == "group":
            for k in node["kids"]:
                walk(k, path + (node["name"],))

    for m in spec["members"]:
        walk(m, ())
    return out


def oracle_labform(spec):
    fails = []
    d = spec["d"]
    nodes = _lab_nodes(spec)
    # 1. the parts themselves, before anything is formed
    from pyyeti import cla

    def mk(node):
        if node["type"] != "group":
            return _lab_build_base(node)
        g = cla.DR_Results()
        for kid in node["kids"]:
            g[kid["name"]] = mk(kid)
        return g

    with warnings.catch_warnings():
        warnings.simplefilter("ignore")
        top = cla.DR_Results()
        for m in spec["members"]:
            top[m["name"]] = mk(m)
    before = {}
    for path, res in _walk(top):
        if _is_base(res):
            b = nodes[path]
            for drm, c in res.items():
                before[path + (drm,)] = _snapshot(c)
                ref = _lab_base_ref(b, drm)
                ok = ref is not None and list(c.drminfo.labels) == ref["labels"] and (c.ext_x is not None) == ref["hasx"]
                if ok:
                    for i, (mx, mn, amx, amn) in enumerate(ref["rows"]):
                        gx = (NAN, NAN) if c.ext_x is None else (float(c.ext_x[i, 0]), float(c.ext_x[i, 1]))
                        ok = ok and _same(float(c.ext[i, 0]), mx) and _same(float(c.ext[i, 1]), mn) and \
                            any(c.maxcase[i] == l and _same(gx[0], x) for l, x in amx) and \
                            any(c.mincase[i] == l and _same(gx[1], x) for l, x in amn)
                if not ok:
                    fails.append(("labels-event-table-%s" % b["type"], "event %s: category %s does not hold the extremes of its "
                                  "rows (label by label)" % ("/".join(path), drm), spec,
                                  [list(c.drminfo.labels), c.ext.tolist(), c.maxcase, c.mincase], ref and ref["labels"]))
                    return fails
    # 2. what must happen: ValueError exactly when two differing label lists meet and one repeats a label
    with warnings.catch_warnings():
        warnings.simplefilter("ignore")
        try:
            top.form_extreme("Envelope", case_order=spec["case_order"], doappend=d)
            exc = None
        except (ValueError, KeyError) as e:
            exc = type(e).__name__
    levels = lab_levels(top, spec["case_order"])
    must_raise = False
    for path, dct, cases in levels:
        cats = []
        for case in cases:
            m = dct[case]
            cur = m["extreme"] if "extreme" in m else m
            cats += [c for c in cur if c not in cats]
        for drm in cats:
            kinds = _lab_step_kinds(_lab_parts(dct, cases, drm), as_coded=False)
            if "repeated-refused" in kinds:
                must_raise = True
        if "extreme" not in dct:
            break
    if exc == "ValueError" and must_raise:
        return fails
    if exc == "KeyError":
        fails.append((FIXED_F58,
                      "form_extreme raises KeyError('mx') when an event made by add_maxmin lists other rows than the events "
                      "before it (_expand looks up mx / mn / mx_x / mn_x, which such an event does not have)", spec, exc,
                      "the envelope by label"))
        return fails
    if exc is not None or must_raise:
        fails.append(("form-extreme-repeated-row-labels-accepted" if exc is None else "form-extreme-differing-rows-raises-" + exc,
                      "differing label lists with a repeated label must be refused with ValueError, all others accepted",
                      spec, exc, "ValueError" if must_raise else None))
        return fails
    # 3. the parts are bit-identical afterwards
    for path, res in _walk(top):
        if _is_base(res) and "extreme" not in path:
            for drm, c in res.items():
                bad = _snap_diff(before[path + (drm,)], c)
                if bad is not None or list(c.drminfo.labels) != list(nodes[path]["labels" if drm == "cat" else "labels2"]):
                    fails.append(("form-extreme-differing-rows-modifies-part-%s" % (bad or "labels").replace(".", "-"),
                                  "after form_extreme, `%s` of %s is no longer what the event's own recovery left there"
                                  % (bad or "drminfo.labels", "/".join(path + (drm,))), spec, None, None))
                    return fails
    # 4. every level: by label, the envelope of the members that carry the label
    try:
        fails += _lab_levels_check(spec, levels, d)
    except (IndexError, ValueError, TypeError, AttributeError, KeyError) as e:
        fails.append(("form-extreme-by-label-malformed-table", "the tables of an envelope do not fit its row labels / cases (%s: %s)"
                      % (type(e).__name__, str(e)[:150]), spec, type(e).__name__, "tables with one row per label"))
    if fails:
        return fails
    return fails + _lab_order_check(spec, top)


def _lab_levels_check(spec, levels, d):
    fails = []
    for path, dct, cases in levels:
        where = "/".join(path) or "Top"
        ext_all = dct["extreme"]
        for drm, ext in ext_all.items():
            parts = _lab_parts(dct, cases, drm)
            labs = list(ext.drminfo.labels)
            union = []
            for _, _, _, c in parts:
                union += [l for l in c.drminfo.labels if l not in union]
            uniq = all(len(set(c.drminfo.labels)) == len(c.drminfo.labels) for _, _, _, c in parts)
            if not uniq:
                continue  # identical lists with a repeated label: positional, the other streams' subject
            if sorted(labs) != sorted(union):
                fails.append(("form-extreme-by-label-row-set", "%s/%s: the rows of the envelope are not the union of the members' "
                              "rows, each once" % (where, drm), spec, labs, union))
                return fails
            want_order = list(parts[0][3].drminfo.labels)
            for _, _, _, c in parts[1:]:
                want_order = _ref_merge(want_order, list(c.drminfo.labels))
            if labs != want_order:
                fails.append(("form-extreme-by-label-row-order", "%s/%s: the order of the rows is not the documented merge (first "
                              "event's order kept, new rows in front of the next common row)" % (where, drm), spec, labs, want_order))
                return fails
            if list(ext.cases) != list(cases):
                fails.append(("form-extreme-by-label-cases", "%s/%s: cases" % (where, drm), spec, list(ext.cases), list(cases)))
                return fails
            anyx = [c.ext_x is not None for _, _, _, c in parts]
            if not any(anyx) and ext.ext_x is not None:
                fails.append(("form-extreme-by-label-abscissa-invented", "%s/%s: ext_x appeared although no member has one"
                              % (where, drm), spec, "array", None))
                return fails
            if all(anyx) and ext.ext_x is None:
                fails.append(("form-extreme-by-label-abscissa-lost", "%s/%s: ext_x is None although every member has one"
                              % (where, drm), spec, None, "array"))
                return fails
            for i, lbl in enumerate(labs):
                have = [(j, case, u, c, list(c.drminfo.labels).index(lbl)) for j, case, u, c in parts if lbl in c.drminfo.labels]
                for col, pick, which in ((0, _fmax, "max"), (1, _fmin, "min")):
                    vals = [float(c.ext[r, col]) for _, _, _, c, r in have]
                    want = pick(vals)
                    got = float(ext.ext[i, col])
                    if not _same(got, want):
                        fails.append(("form-extreme-by-label-wrong-" + which, "%s/%s row %r: %s %r is not the %s over the members "
                                      "that carry the row (%r)" % (where, drm, lbl, which, got, which, vals), spec, got, want))
                        return fails
                    if want != want:
                        continue
                    lab = (ext.maxcase if col == 0 else ext.mincase)[i]
                    gov = []
                    for (j, case, u, c, r), v in zip(have, vals):
                        if not _same(v, want):
                            continue
                        low = (c.maxcase if col == 0 else c.mincase)[r]
                        dd = 1 if (u and d == 2) else d
                        if lab == (case + "," + low if dd == 1 else (low if dd == 3 else case)):
                            gov.append((c, r))
                    if not gov:
                        fails.append(("form-extreme-by-label-label-doappend-%d" % d, "%s/%s row %r: the %s label %r names no member "
                                      "attaining %r" % (where, drm, lbl, which, lab, want), spec, lab, [case for _, case, _, _, _ in have]))
                        return fails
                    gx = NAN if ext.ext_x is None else float(ext.ext_x[i, col])
                    okx = any(_same(gx, NAN if c.ext_x is None else float(c.ext_x[r, col])) for c, r in gov)
                    if not okx:
                        if all(c.ext_x is None for c, r in gov):
                            fails.append((FIXED_F57,
                                          "%s/%s row %r: the %s is governed by %r, which has no abscissae, but the envelope reports "
                                          "the abscissa %r (taken from another member: _put_time copies that member's whole ext_x "
                                          "when the envelope has none yet)" % (where, drm, lbl, which, lab, gx), spec, gx, NAN))
                        else:
                            fails.append(("form-extreme-by-label-abscissa", "%s/%s row %r: the %s abscissa %r is not that of the "
                                          "governing member %r" % (where, drm, lbl, which, gx, lab), spec, gx,
                                          [None if c.ext_x is None else float(c.ext_x[r, col]) for c, r in gov]))
                        return fails
                # per-case columns, in case order, NaN for the members without the row
                for j, case in enumerate(cases):
                    hit = [(c, r) for jj, _, _, c, r in have if jj == j]
                    want4 = [NAN] * 4
                    if hit:
                        c, r = hit[0]
                        want4 = [float(c.ext[r, 0]), float(c.ext[r, 1]),
                                 NAN if c.ext_x is None else float(c.ext_x[r, 0]), NAN if c.ext_x is None else float(c.ext_x[r, 1])]
                    got4 = [float(ext.mx[i, j]), float(ext.mn[i, j]), float(ext.mx_x[i, j]), float(ext.mn_x[i, j])]
                    if not all(_same(a, b) for a, b in zip(got4, want4)):
                        fails.append(("form-extreme-by-label-per-case-column", "%s/%s row %r column %d (%s): mx, mn, mx_x, mn_x"
                                      % (where, drm, lbl, j, case), spec, got4, want4))
                        return fails
    return fails


def _lab_order_check(spec, top):
    """values by label do not depend on the order of the events"""
    fails = []
    if spec["case_order"] is None and len(spec["members"]) > 1:
        top2, exc2 = build_labform(spec, order=list(range(len(spec["members"])))[::-1])
        if exc2 == "KeyError":
            fails.append((FIXED_F58,
                          "form_extreme raises KeyError('mx') when the same events are given in reverse order (an event made by "
                          "add_maxmin then comes after events that list other rows)", spec, exc2, "the envelope by label"))
        elif exc2 is not None:
            fails.append(("form-extreme-by-label-order-dependent-refusal", "the reversed event order is refused", spec, exc2, None))
        else:
            for drm, ext in top["extreme"].items():
                e2 = top2["extreme"][drm]
                if len(set(ext.drminfo.labels)) != len(ext.drminfo.labels):
                    continue
                a = {l: [float(v) for v in ext.ext[i]] for i, l in enumerate(ext.drminfo.labels)}
                b = {l: [float(v) for v in e2.ext[i]] for i, l in enumerate(e2.drminfo.labels)}
                if set(a) != set(b) or any(not (_same(a[l][0], b[l][0]) and _same(a[l][1], b[l][1])) for l in a):
                    fails.append(("form-extreme-by-label-order-dependent-values", "%s: the extreme values of a row change when the "
                                  "events are given in reverse order" % drm, spec, b, a))
                    break
    return fails


def gen_mergelists(rng):
    pool = ["a", "b", "c", "d", "e", "f", "g"]
    k = rng.random()
    n1, n2 = rng.randint(0, 5), rng.randint(0, 5)
    if k < 0.7:
        l1, l2 = rng.sample(pool, n1), rng.sample(pool, n2)
    else:
        l1 = [rng.choice(pool[:4]) for _ in range(n1)]
        l2 = [rng.choice(pool[:4]) for _ in range(n2)]
    return {"kind": "mergelists", "l1": l1, "l2": l2}


def oracle_mergelists(spec):
    from pyyeti import locate

    l1, l2 = list(spec["l1"]), list(spec["l2"])
    m, pv1, pv2 = locate.merge_lists(list(l1), list(l2))
    fails = []
    if [m[i] for i in pv1] != l1 or [m[i] for i in pv2] != l2:
        fails.append(("merge-lists-index-maps", "list1 = [mlist[i] for i in pv1] and list2 = [mlist[i] for i in pv2]", spec,
                      [m, pv1, pv2], [l1, l2]))
    elif set(m) != set(l1) | set(l2) or (len(set(l1)) == len(l1) and len(set(l2)) == len(l2) and len(set(m)) != len(m)):
        fails.append(("merge-lists-items", "the merged list holds the items of both lists, each once when neither repeats one",
                      spec, m, sorted(set(l1) | set(l2))))
    elif len(set(l1)) == len(l1) and len(set(l2)) == len(l2):
        if [x for x in m if x in l1] != l1:
            fails.append(("merge-lists-order-of-list1", "the order of list1 is maintained", spec, m, l1))
        elif m != _ref_merge(l1, l2):
            fails.append(("merge-lists-position-of-new-items", "a new item of list2 goes in front of the next common item (or to "
                          "the end)", spec, m, _ref_merge(l1, l2)))
    return fails


_ORACLES = {"ext1": oracle_hist, "ext2": oracle_hist, "mm": oracle_mm, "event": oracle_event,
            "form": oracle_form, "uf": oracle_uf, "psd": oracle_psd, "merge": oracle_merge, "calc": oracle_calc,
            "stat": oracle_calc, "addmm": oracle_addmm, "tree": oracle_tree, "labform": oracle_labform,
            "mergelists": oracle_mergelists, "ufdef": oracle_ufdef}


def _run_oracle(ctx, spec):
    ctx.count("oracle:" + spec["kind"])
    for fam, what, inp, obs, req in _ORACLES[spec["kind"]](spec):
        ctx.fail(fam, what, inp, obs, req)


def search(ctx, hints):
    rng = ctx.rng
    seen = 0
    for h in hints[:40]:
        spec = h["input"]
        if isinstance(spec, dict) and spec.get("kind") in _ORACLES:
            _run_oracle(ctx, spec)
            seen += 1
    # boundary family: the F6 history and its relatives
    for vals in ([5, 1, 3], [-5, 1, -3], [2, 1, 3, 1, 2], [1, 5, 3]):
        _run_oracle(ctx, {"kind": "ext1", "rows": 1, "n": len(vals), "calls": [
            {"ext": [[float(v)]], "ext_x": [[float(i)]], "maxcase": "c%d" % i, "mincase": None, "casenum": i}
            for i, v in enumerate(vals)]})
    for _ in range(ctx.pick(1200, 8000)):
        _run_oracle(ctx, gen_hist(rng, 2))
        _run_oracle(ctx, gen_hist(rng, 1))
        _run_oracle(ctx, gen_mm(rng))
        if len(ctx.failures) > 30:
            return
    for _ in range(ctx.pick(200, 1200)):
        _run_oracle(ctx, gen_event(rng))
    for _ in range(ctx.pick(100, 600)):
        _run_oracle(ctx, gen_form(rng))
    for _ in range(ctx.pick(400, 3000)):
        _run_oracle(ctx, gen_uf(rng))
        _run_oracle(ctx, gen_uf(rng, full=True))
    for _ in range(ctx.pick(120, 800)):
        _run_oracle(ctx, gen_psd(rng))
    for _ in range(ctx.pick(200, 1500)):
        _run_oracle(ctx, gen_merge(rng))
        _run_oracle(ctx, gen_calc(rng))
        _run_oracle(ctx, gen_stat(rng))
    for _ in range(ctx.pick(100, 600)):
        _run_oracle(ctx, gen_addmm(rng))
    for _ in range(ctx.pick(100, 600)):
        _run_oracle(ctx, gen_tree(rng))
    for _ in range(ctx.pick(150, 1000)):
        _run_oracle(ctx, gen_heap_hist(rng))
    for spec in lab_specs(rng, ctx.pick(150, 900)):
        _run_oracle(ctx, spec)
    for _ in range(ctx.pick(300, 2000)):
        _run_oracle(ctx, gen_mergelists(rng))
    for _ in range(ctx.pick(200, 1200)):
        _run_oracle(ctx, gen_ufdef(rng))


def replay(ctx, data):
    f = data["failure"]
    spec = f["input"]
    fails = _ORACLES[spec["kind"]](spec)
    for fam, what, inp, obs, req in fails:
        if fam == f.get("family"):
            return {"family": fam, "what": what, "input": inp, "observed": obs, "required": req}
    if fails:
        fam, what, inp, obs, req = fails[0]
        return {"family": fam, "what": what, "input": inp, "observed": obs, "required": req}
    return None
